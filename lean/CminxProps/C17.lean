import CminxLemmas.WalkLemmas
/-!
# C17 — output is a function of contents, relative paths and settings only

## What the model's signatures already say (`C17_settings_only`, first half — not a theorem)

`walkDir c excl pfx rel listing r`, `document c excl exclRoot inp r` and `runMain c inputs r` are total pure
functions.  Their arguments are: the settings `c`; the exclusion predicate on paths *relative to the input*;
the input itself — for a lone file its base name and content, for a directory the last component of its path
and the tree of (name, content) below it; and the run so far `r`.  There is no argument for the working
directory, for the absolute location of the input tree, for a hash seed or for a clock, so "repeating the run,
changing the working directory, moving the whole input tree elsewhere, a different hash seed" cannot change the
model's result: the two runs are the *same term*.  That the Python program really has no further inputs is what
the correspondence harness checks (it re-runs every case from another working directory, from a moved copy of the
tree and under a different `PYTHONHASHSEED`, and compares against the model).  Independence of the order of
directory listings is C15 and proved there.

## What is proved here

* `C17_accumulator_*`  — `emitPage`, `emitFiles`, `walkDir`, `walkSubs`, `document` only ever *append* to the run
                         so far: `f r = r ⊕ f {}`.
* `C17_settings_only`  — hence what one input adds (writes, printed text, error) is the same whatever was
                         documented before it in the same run.
* `C17_dir_name_irrelevant` — with `rst.prefix` set, even the name of the input directory is irrelevant.
* `C17_alone`, `C17_run_concat`, `C17_history` — in a run over several inputs that ends normally, the files
                         generated for one input are exactly the files generated when it is documented alone,
                         whatever is documented before or after it.

Remark (not a defect of the statement, inherent in the output naming): the theorems speak about *writes*.  Two
directory inputs documented in one run both write `index.rst` at the top of the same output directory, so the
second overwrites the first on disk; C17 is about each generated file's bytes at the time it is generated.
-/
namespace Cminx

/-! ## the run so far is only appended to -/

theorem C17_accumulator_emitPage (c : WalkCfg) (pfx : Option Str) (rel : List Str) (name content : Str)
    (r : RunResult) : emitPage c pfx rel name content r = r.app (emitPage c pfx rel name content {}) :=
  emitPage_app c pfx rel name content r

theorem C17_accumulator_emitFiles (c : WalkCfg) (pfx : Option Str) (rel : List Str) (listing : List FsNode)
    (names : List Str) (r : RunResult) :
    emitFiles c pfx rel listing names r = r.app (emitFiles c pfx rel listing names {}) :=
  emitFiles_app c pfx rel listing names r

theorem C17_accumulator_walkDir (c : WalkCfg) (excl : List Str → Bool → Bool) (pfx : Str) (rel : List Str)
    (listing : List FsNode) (r : RunResult) :
    walkDir c excl pfx rel listing r = r.app (walkDir c excl pfx rel listing {}) :=
  walkDir_app c excl pfx rel listing r

theorem C17_accumulator_walkSubs (c : WalkCfg) (excl : List Str → Bool → Bool) (pfx : Str) (rel : List Str)
    (keep : Str → Bool) (l : List FsNode) (r : RunResult) :
    walkSubs c excl pfx rel keep l r = r.app (walkSubs c excl pfx rel keep l {}) :=
  walkSubs_app c excl pfx rel keep l r

theorem C17_accumulator_document (c : WalkCfg) (excl : List Str → Bool → Bool) (exclRoot : Bool) (inp : Input)
    (r : RunResult) :
    (document c excl exclRoot inp r).1 = r.app (document c excl exclRoot inp {}).1 ∧
      (document c excl exclRoot inp r).2 = (document c excl exclRoot inp {}).2 :=
  ⟨document_app c excl exclRoot inp r, document_exit c excl exclRoot inp r⟩

/-- What documenting one input adds to a run that has not failed — the new writes, the newly printed text, the
    error if any, and whether the program exits — is what documenting it in a fresh run produces: it depends on
    the settings, the relative exclusion predicate and the input only, not on anything documented before. -/
theorem C17_settings_only (c : WalkCfg) (excl : List Str → Bool → Bool) (exclRoot : Bool) (inp : Input)
    (r : RunResult) (hr : r.error = none) :
    (document c excl exclRoot inp r).1 =
        { writes := r.writes ++ (document c excl exclRoot inp {}).1.writes,
          stdout := r.stdout ++ (document c excl exclRoot inp {}).1.stdout,
          error := (document c excl exclRoot inp {}).1.error } ∧
      (document c excl exclRoot inp r).2 = (document c excl exclRoot inp {}).2 := by
  rw [document_app, RunResult.app_of_ok hr]
  exact ⟨rfl, document_exit c excl exclRoot inp r⟩

/-- With `rst.prefix` configured the name of the input directory does not enter the output at all (without it,
    only the last path component does: it is the default prefix). -/
theorem C17_dir_name_irrelevant {c : WalkCfg} {p : Str} (hp : c.pfx = some p) (excl : List Str → Bool → Bool)
    (exclRoot : Bool) (n₁ n₂ : Str) (listing : List FsNode) (r : RunResult) :
    document c excl exclRoot (.dir n₁ listing) r = document c excl exclRoot (.dir n₂ listing) r := by
  simp [document, hp]

/-! ## several inputs in one run -/

/-- a run over the single input `i` produces `aloneOut c i` -/
theorem C17_alone (c : WalkCfg) (i : MainInput) : (runMain c [i] {}).1 = aloneOut c i := by
  rw [runMain_cons_ok rfl]
  split
  · rfl
  · cases h : (document c i.excl i.exclRoot i.inp {}).1.error <;> simp [runMain, aloneOut]

/-- A run that ends normally (status 0: no error, no missing input) has written and printed, on top of what was
    there before, the concatenation over its inputs of what each generates alone. -/
theorem C17_run_concat {c : WalkCfg} {is : List MainInput} {r : RunResult} (hok : (runMain c is r).2 = .ok) :
    (runMain c is r).1.writes = r.writes ++ (is.map (fun i => (aloneOut c i).writes)).flatten ∧
      (runMain c is r).1.stdout = r.stdout ++ (is.map (fun i => (aloneOut c i).stdout)).flatten := by
  induction is generalizing r with
  | nil => simp [runMain]
  | cons i is ih =>
    have hr := runMain_status_ok hok
    rw [runMain_cons_ok hr] at hok ⊢
    split at hok
    · simp at hok
    · rename_i hex
      rw [if_neg hex]
      have h1 := ih hok
      have hr' := runMain_status_ok hok
      rw [document_app, RunResult.app_of_ok hr] at h1 hr'
      rw [document_app, RunResult.app_of_ok hr, h1.1, h1.2]
      simp [aloneOut, List.append_assoc]

/-- **History independence.**  In a run over `is₁ ++ i :: is₂` that ends normally, the writes (and the printed
    text) are: what was there, then what `is₁` generate, then exactly what `i` generates *alone*
    (`runMain c [i] {}`), then what `is₂` generate.  So the files generated for `i` are the same alone and inside
    any longer run, whatever is documented before or after. -/
theorem C17_history {c : WalkCfg} {is₁ is₂ : List MainInput} {i : MainInput} {r : RunResult}
    (hok : (runMain c (is₁ ++ i :: is₂) r).2 = .ok) :
    (runMain c (is₁ ++ i :: is₂) r).1.writes =
        r.writes ++ (is₁.map (fun j => (aloneOut c j).writes)).flatten ++ (runMain c [i] {}).1.writes ++
          (is₂.map (fun j => (aloneOut c j).writes)).flatten ∧
      (runMain c (is₁ ++ i :: is₂) r).1.stdout =
        r.stdout ++ (is₁.map (fun j => (aloneOut c j).stdout)).flatten ++ (runMain c [i] {}).1.stdout ++
          (is₂.map (fun j => (aloneOut c j).stdout)).flatten := by
  have h := C17_run_concat hok
  rw [h.1, h.2, C17_alone]
  simp [List.append_assoc]

/-- in such a run every input, documented alone, raises no error and does not make the program exit -/
theorem C17_history_parts_ok {c : WalkCfg} {is : List MainInput} {r : RunResult}
    (hok : (runMain c is r).2 = .ok) :
    ∀ i ∈ is, (aloneOut c i).error = none ∧ (document c i.excl i.exclRoot i.inp {}).2 = false := by
  induction is generalizing r with
  | nil => simp
  | cons i is ih =>
    have hr := runMain_status_ok hok
    rw [runMain_cons_ok hr] at hok
    split at hok
    · simp at hok
    · rename_i hex
      have hr' := runMain_status_ok hok
      rw [document_app, RunResult.app_of_ok hr] at hr'
      rw [document_exit] at hex
      intro j hj
      rcases List.mem_cons.1 hj with rfl | hj
      · exact ⟨hr', by simpa using hex⟩
      · exact ih hok j hj

/-- conversely, a run over inputs each of which is fine alone ends normally -/
theorem C17_status_ok {c : WalkCfg} {is : List MainInput} {r : RunResult} (hr : r.error = none)
    (h : ∀ i ∈ is, (aloneOut c i).error = none ∧ (document c i.excl i.exclRoot i.inp {}).2 = false) :
    (runMain c is r).2 = .ok := by
  induction is generalizing r with
  | nil => simp [runMain, hr]
  | cons i is ih =>
    have hi := h i (by simp)
    rw [runMain_cons_ok hr, document_exit, hi.2]
    simp only [Bool.false_eq_true, if_false]
    apply ih
    · rw [document_app, RunResult.app_of_ok hr]
      exact hi.1
    · exact fun j hj => h j (by simp [hj])

/-! ## Non-vacuity: a run over the example directory and a lone file, in both orders -/

example : (runMain exCfg [exInDir, exInFile] {}).2 = .ok :=
  C17_status_ok rfl (by
    intro i hi
    simp only [List.mem_cons, List.not_mem_nil, or_false] at hi
    rcases hi with rfl | rfl
    · exact exInDir_ok
    · exact exInFile_ok)

-- the files generated for the directory are the same alone, before the lone file, and after it
example : (runMain exCfg [exInDir, exInFile] {}).1.writes =
    (runMain exCfg [exInDir] {}).1.writes ++ (aloneOut exCfg exInFile).writes := by
  have h := (C17_history (c := exCfg) (is₁ := []) (i := exInDir) (is₂ := [exInFile]) (r := {})
    (C17_status_ok rfl (by
      intro i hi
      simp only [List.nil_append, List.mem_cons, List.not_mem_nil, or_false] at hi
      rcases hi with rfl | rfl
      · exact exInDir_ok
      · exact exInFile_ok))).1
  simpa using h

example : (runMain exCfg [exInFile, exInDir] {}).1.writes =
    (aloneOut exCfg exInFile).writes ++ (runMain exCfg [exInDir] {}).1.writes := by
  have h := (C17_history (c := exCfg) (is₁ := [exInFile]) (i := exInDir) (is₂ := []) (r := {})
    (C17_status_ok rfl (by
      intro i hi
      simp only [List.cons_append, List.nil_append, List.mem_cons, List.not_mem_nil, or_false] at hi
      rcases hi with rfl | rfl
      · exact exInFile_ok
      · exact exInDir_ok))).1
  simpa using h

-- with a configured prefix the directory's own name is irrelevant
example (r : RunResult) :
    document { exCfg with pfx := some (lit "P") } exExcl false (.dir (lit "here") exTree) r =
      document { exCfg with pfx := some (lit "P") } exExcl false (.dir (lit "elsewhere") exTree) r :=
  C17_dir_name_irrelevant rfl exExcl false _ _ exTree r

end Cminx
