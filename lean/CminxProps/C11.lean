import CminxLemmas.SpecLemmas
/-!
# C11 — test entries carry the declared name, EXPECTFAIL flag and arguments

Read off the structural specification (`Item.spec`, `CminxModel/Spec.lean`); `T_agg` says the listener computes
it.  A `ct_add_test` / `ct_add_section` declaration together with the function/macro definition that implements
it is one `Item.decl`; `add_test` is an `Item.cmd`.  `nameOk s` (part of well-formedness) = exactly one `NAME`
among the arguments, not in last position.  The arguments of a `ct_add_test` / `ct_add_section` declaration are its
single arguments (`Call.singles`); those of an `add_test` are all its arguments in source order, parenthesised
groups included (`Call.allTexts`, repair D19).  Rendering is read off `Entry.toElem` (`CminxModel/DocTypes.lean`).
-/
namespace Cminx

/-! ## the name -/

/-- For every argument list of the shape `pre ++ NAME :: nm :: post` with no other `NAME`, the name found is `nm`
— the argument following `NAME`, at whatever position `NAME` stands — and the remembered position is that of `NAME`. -/
theorem C11_name_decomp (pre post : List Str) (nm : Str) (h1 : lit "NAME" ∉ pre) (h2 : lit "NAME" ∉ nm :: post) :
    nameOf (pre ++ lit "NAME" :: nm :: post) = (nm, some pre.length) :=
  nameOf_decomp pre post nm h1 h2

/-- Every `nameOk` argument list has that shape (uniquely determined), so its name is the argument following
`NAME`; and `ctestParams` (the `add_test` signature) is everything but that pair, in order. -/
theorem C11_name (s : List Str) (h : nameOk s = true) :
    ∃ pre nm post, s = pre ++ lit "NAME" :: nm :: post ∧ lit "NAME" ∉ pre ∧ lit "NAME" ∉ nm :: post ∧
      nameOf s = (nm, some pre.length) ∧ ctestParams s = pre ++ post := by
  obtain ⟨pre, nm, post, hs, h1, h2⟩ := nameOk_decomp s h
  exact ⟨pre, nm, post, hs, h1, h2, hs ▸ nameOf_decomp pre post nm h1 h2, hs ▸ ctestParams_decomp pre post nm h1 h2⟩

/-- conversely the shape implies `nameOk` -/
theorem C11_nameOk_of_decomp (pre post : List Str) (nm : Str) (h1 : lit "NAME" ∉ pre) (h2 : lit "NAME" ∉ nm :: post) :
    nameOk (pre ++ lit "NAME" :: nm :: post) = true := by
  have h3 : nm ≠ lit "NAME" := fun e => h2 (by simp [e])
  have h4 : lit "NAME" ∉ post := fun e => h2 (by simp [e])
  have hl : (pre ++ lit "NAME" :: nm :: post).getLast? ≠ some (lit "NAME") := by
    rw [List.getLast?_append, List.getLast?_cons_cons]
    intro hh
    have : lit "NAME" ∈ nm :: post := List.mem_of_getLast? (by simpa using hh)
    exact h2 this
  simp only [nameOk, Bool.and_eq_true, beq_iff_eq, bne_iff_ne]
  refine ⟨?_, hl⟩
  simp [List.count_append, List.count_eq_zero_of_not_mem h1, List.count_eq_zero_of_not_mem h4, h3]

/-- the signature of an `add_test`: all arguments other than `NAME` and the name at the position after it, in
order; an argument elsewhere that happens to equal the name stays -/
theorem C11_addtest_sig (pre post : List Str) (nm : Str) (h1 : lit "NAME" ∉ pre) (h2 : lit "NAME" ∉ nm :: post) :
    ctestParams (pre ++ lit "NAME" :: nm :: post) = pre ++ post :=
  ctestParams_decomp pre post nm h1 h2

/-! ## the entries -/

/-- the flag is exact membership of the keyword among the single arguments (no substring, no other letter case) -/
theorem C11_expectfail_iff (s : List Str) : s.contains (lit "EXPECTFAIL") = true ↔ lit "EXPECTFAIL" ∈ s := by
  simp

/-- A `ct_add_test` declaration (documented, or `include_undocumented_ct_add_test` on) with its implementing
definition contributes one test entry — named by `nameOf`, flagged by exact membership of `EXPECTFAIL` — and
then whatever the body of the implementing definition contributes.  No entry for the implementing definition. -/
theorem C11_test (cfg : Cfg) (ctx : ClsCtx) (doc : Option DocC) (d impl : Call) (body : List Item) (c : Call)
    (hn : d.lname = lit "ct_add_test") (hincl : doc.isSome = true ∨ cfg.inclCtAddTest = true) :
    (Item.decl doc d impl body c).spec cfg ctx =
      { top := [.test false (nameOf d.singles).1 (docTextOf doc) (d.singles.contains (lit "EXPECTFAIL"))
                  (impl.singles.drop 2) (impl.lname = lit "macro")] } ++ itemsSpec cfg ctx body :=
  spec_decl_test cfg ctx doc d impl body c hn hincl

/-- likewise for `ct_add_section` -/
theorem C11_section (cfg : Cfg) (ctx : ClsCtx) (doc : Option DocC) (d impl : Call) (body : List Item) (c : Call)
    (hn : d.lname = lit "ct_add_section") (hincl : doc.isSome = true ∨ cfg.inclCtAddSection = true) :
    (Item.decl doc d impl body c).spec cfg ctx =
      { top := [.test true (nameOf d.singles).1 (docTextOf doc) (d.singles.contains (lit "EXPECTFAIL"))
                  (impl.singles.drop 2) (impl.lname = lit "macro")] } ++ itemsSpec cfg ctx body :=
  spec_decl_section cfg ctx doc d impl body c hn hincl

/-- For a test (`isSection = false`) or section declaration that has an entry: the entry's EXPECTFAIL flag is
exact membership of the keyword among the declaration's single arguments — an argument merely containing the
keyword (`xEXPECTFAIL`) or spelling it in another case (`expectfail`) does not count (see the examples below). -/
theorem C11_expectfail (cfg : Cfg) (ctx : ClsCtx) (doc : Option DocC) (d impl : Call) (body : List Item) (c : Call)
    (isSection : Bool)
    (hn : d.lname = if isSection then lit "ct_add_section" else lit "ct_add_test")
    (hincl : doc.isSome = true ∨ (if isSection then cfg.inclCtAddSection else cfg.inclCtAddTest) = true) :
    ((Item.decl doc d impl body c).spec cfg ctx).top =
        .test isSection (nameOf d.singles).1 (docTextOf doc) (d.singles.contains (lit "EXPECTFAIL"))
          (impl.singles.drop 2) (impl.lname = lit "macro") :: (itemsSpec cfg ctx body).top ∧
      (d.singles.contains (lit "EXPECTFAIL") = true ↔ lit "EXPECTFAIL" ∈ d.singles) := by
  refine ⟨?_, C11_expectfail_iff _⟩
  cases isSection with
  | false => rw [C11_test cfg ctx doc d impl body c (by simpa using hn) (by simpa using hincl)]; rfl
  | true => rw [C11_section cfg ctx doc d impl body c (by simpa using hn) (by simpa using hincl)]; rfl

/-- the test/section entry of a declaration whose arguments are `pre ++ NAME :: nm :: post`: it is named `nm`,
its flag is `true` iff `EXPECTFAIL` is one of the arguments, and the entries of the body (the sections of a test,
among others) follow it -/
theorem C11_test_named (cfg : Cfg) (ctx : ClsCtx) (doc : Option DocC) (d impl : Call) (body : List Item) (c : Call)
    (isSection : Bool) (pre post : List Str) (nm : Str)
    (hn : d.lname = if isSection then lit "ct_add_section" else lit "ct_add_test")
    (hincl : doc.isSome = true ∨ (if isSection then cfg.inclCtAddSection else cfg.inclCtAddTest) = true)
    (hs : d.singles = pre ++ lit "NAME" :: nm :: post) (h1 : lit "NAME" ∉ pre) (h2 : lit "NAME" ∉ nm :: post) :
    ∃ ef, (ef = true ↔ lit "EXPECTFAIL" ∈ d.singles) ∧
      ((Item.decl doc d impl body c).spec cfg ctx).top =
        .test isSection nm (docTextOf doc) ef (impl.singles.drop 2) (impl.lname = lit "macro") ::
          (itemsSpec cfg ctx body).top := by
  have hname : (nameOf d.singles).1 = nm := by rw [hs, nameOf_decomp pre post nm h1 h2]
  refine ⟨d.singles.contains (lit "EXPECTFAIL"), C11_expectfail_iff _, ?_⟩
  cases isSection with
  | false => rw [C11_test cfg ctx doc d impl body c (by simpa using hn) (by simpa using hincl), hname]; rfl
  | true => rw [C11_section cfg ctx doc d impl body c (by simpa using hn) (by simpa using hincl), hname]; rfl

/-- An `add_test` (documented, or `include_undocumented_add_test` on) contributes one CTest entry named by
`nameOf` whose parameters are `ctestParams`. -/
theorem C11_addtest (cfg : Cfg) (ctx : ClsCtx) (doc : Option DocC) (call : Call)
    (hn : call.lname = lit "add_test") (hincl : doc.isSome = true ∨ cfg.inclAddTest = true) :
    (Item.cmd doc call).spec cfg ctx =
      { top := [.ctest (nameOf call.allTexts).1 (docTextOf doc) (ctestParams call.allTexts)] } :=
  spec_cmd_add_test cfg ctx doc call hn hincl

/-- with the arguments `pre ++ NAME :: nm :: post`: named `nm`, signature `pre ++ post` -/
theorem C11_addtest_named (cfg : Cfg) (ctx : ClsCtx) (doc : Option DocC) (call : Call) (pre post : List Str) (nm : Str)
    (hn : call.lname = lit "add_test") (hincl : doc.isSome = true ∨ cfg.inclAddTest = true)
    (hs : call.allTexts = pre ++ lit "NAME" :: nm :: post) (h1 : lit "NAME" ∉ pre) (h2 : lit "NAME" ∉ nm :: post) :
    (Item.cmd doc call).spec cfg ctx = { top := [.ctest nm (docTextOf doc) (pre ++ post)] } := by
  rw [C11_addtest cfg ctx doc call hn hincl, hs, nameOf_decomp pre post nm h1 h2, ctestParams_decomp pre post nm h1 h2]

/-- The repaired `add_test` (D19), at the level of a call.  `call.allTexts` are ALL arguments of the call in source
order, each in its `argument_text` form — a parenthesised group `(a b)` is one argument, exactly as in the
signature of a generic command.  If they are `pre ++ NAME :: nm :: post` with no other `NAME`, then the command is
well-formed (so `T_agg` applies: the listener computes the specification, no error is logged) and its entry —
when documented, or undocumented with `include_undocumented_add_test` — is the CTest test named `nm` whose
signature is every other argument, groups included, in order. -/
theorem C11_addtest_all_args (cfg : Cfg) (ctx : ClsCtx) (inClass : Bool) (doc : Option DocC) (call : Call)
    (pre post : List Str) (nm : Str)
    (hn : call.lname = lit "add_test") (hincl : doc.isSome = true ∨ cfg.inclAddTest = true)
    (hs : call.allTexts = pre ++ lit "NAME" :: nm :: post) (h1 : lit "NAME" ∉ pre) (h2 : lit "NAME" ∉ nm :: post) :
    (Item.cmd doc call).wf inClass = true ∧
      (Item.cmd doc call).spec cfg ctx = { top := [.ctest nm (docTextOf doc) (pre ++ post)] } := by
  refine ⟨?_, C11_addtest_named cfg ctx doc call pre post nm hn hincl hs h1 h2⟩
  have hok := C11_nameOk_of_decomp pre post nm h1 h2
  simp (decide := true) [Item.wf, hn, hs, hok]
  omega

/-! ## rendering: signature and warning -/

/-- a CMakeTest test: `.. function:: name(EXPECTFAIL)` or `name()`, the CMakeTest-test warning, the doc -/
theorem C11_warnings_test (name doc : Str) (ef : Bool) (ps : List Str) (m : Bool) :
    (Entry.test false name doc ef ps m).toElem =
      .directive (lit "function") [name ++ (if ef then lit "(EXPECTFAIL)" else lit "()")] []
        [.directive (lit "warning") [testWarning] [] [], .para doc] := by
  cases ef <;> simp [Entry.toElem, signature, joinWith, lit]

/-- a CMakeTest section: same signature, the CMakeTest-section warning -/
theorem C11_warnings_section (name doc : Str) (ef : Bool) (ps : List Str) (m : Bool) :
    (Entry.test true name doc ef ps m).toElem =
      .directive (lit "function") [name ++ (if ef then lit "(EXPECTFAIL)" else lit "()")] []
        [.directive (lit "warning") [sectionWarning] [] [], .para doc] := by
  cases ef <;> simp [Entry.toElem, signature, joinWith, lit]

/-- a CTest test: `.. function:: name(p₁ p₂ …)` with all its parameters in order, the CTest warning -/
theorem C11_warnings_ctest (name doc : Str) (params : List Str) :
    (Entry.ctest name doc params).toElem =
      .directive (lit "function") [name ++ lit "(" ++ joinWith [' '] params ++ lit ")"] []
        [.directive (lit "warning") [ctestWarning] [] [], .para doc] := by
  simp [Entry.toElem, signature, lit]

/-- the three shapes together -/
theorem C11_warnings (name doc : Str) (ef : Bool) (ps params : List Str) (m : Bool) :
    (Entry.test false name doc ef ps m).toElem =
      .directive (lit "function") [name ++ (if ef then lit "(EXPECTFAIL)" else lit "()")] []
        [.directive (lit "warning") [testWarning] [] [], .para doc] ∧
    (Entry.test true name doc ef ps m).toElem =
      .directive (lit "function") [name ++ (if ef then lit "(EXPECTFAIL)" else lit "()")] []
        [.directive (lit "warning") [sectionWarning] [] [], .para doc] ∧
    (Entry.ctest name doc params).toElem =
      .directive (lit "function") [name ++ lit "(" ++ joinWith [' '] params ++ lit ")"] []
        [.directive (lit "warning") [ctestWarning] [] [], .para doc] :=
  ⟨C11_warnings_test name doc ef ps m, C11_warnings_section name doc ef ps m, C11_warnings_ctest name doc params⟩

/-- the three warnings are the documented texts and pairwise different -/
theorem C11_warning_texts :
    testWarning = lit "This is a CMakeTest test definition, do not call this manually." ∧
    sectionWarning = lit "This is a CMakeTest section definition, do not call this manually." ∧
    ctestWarning = lit "This is a CTest test definition, do not call this manually. Use the \"ctest\" program to execute this test." ∧
    testWarning ≠ sectionWarning ∧ testWarning ≠ ctestWarning ∧ sectionWarning ≠ ctestWarning :=
  ⟨rfl, rfl, rfl, by decide, by decide, by decide⟩

/-! ## sections nested in a test -/

/-- A section declared in the body of a test's function (after `pre`, before `post`) yields its own section
entry: after the test's entry and the entries of `pre`, before those of the section's own body (nested
sections) and of `post` — source order. -/
theorem C11_sections (cfg : Cfg) (ctx : ClsCtx) (doc sdoc : Option DocC) (d impl c sd simpl sc : Call)
    (pre post sbody : List Item)
    (hn : d.lname = lit "ct_add_test") (hincl : doc.isSome = true ∨ cfg.inclCtAddTest = true)
    (hsn : sd.lname = lit "ct_add_section") (hsincl : sdoc.isSome = true ∨ cfg.inclCtAddSection = true) :
    ((Item.decl doc d impl (pre ++ .decl sdoc sd simpl sbody sc :: post) c).spec cfg ctx).top =
      .test false (nameOf d.singles).1 (docTextOf doc) (d.singles.contains (lit "EXPECTFAIL"))
          (impl.singles.drop 2) (impl.lname = lit "macro") ::
        ((itemsSpec cfg ctx pre).top ++
          .test true (nameOf sd.singles).1 (docTextOf sdoc) (sd.singles.contains (lit "EXPECTFAIL"))
              (simpl.singles.drop 2) (simpl.lname = lit "macro") ::
            ((itemsSpec cfg ctx sbody).top ++ (itemsSpec cfg ctx post).top)) := by
  rw [C11_test cfg ctx doc d impl _ c hn hincl, itemsSpec_append, itemsSpec_cons,
    C11_section cfg ctx sdoc sd simpl sbody sc hsn hsincl]
  simp

/-- the same one level down: a section nested in a section -/
theorem C11_sections_nested (cfg : Cfg) (ctx : ClsCtx) (doc sdoc : Option DocC) (d impl c sd simpl sc : Call)
    (pre post sbody : List Item)
    (hn : d.lname = lit "ct_add_section") (hincl : doc.isSome = true ∨ cfg.inclCtAddSection = true)
    (hsn : sd.lname = lit "ct_add_section") (hsincl : sdoc.isSome = true ∨ cfg.inclCtAddSection = true) :
    ((Item.decl doc d impl (pre ++ .decl sdoc sd simpl sbody sc :: post) c).spec cfg ctx).top =
      .test true (nameOf d.singles).1 (docTextOf doc) (d.singles.contains (lit "EXPECTFAIL"))
          (impl.singles.drop 2) (impl.lname = lit "macro") ::
        ((itemsSpec cfg ctx pre).top ++
          .test true (nameOf sd.singles).1 (docTextOf sdoc) (sd.singles.contains (lit "EXPECTFAIL"))
              (simpl.singles.drop 2) (simpl.lname = lit "macro") ::
            ((itemsSpec cfg ctx sbody).top ++ (itemsSpec cfg ctx post).top)) := by
  rw [C11_section cfg ctx doc d impl _ c hn hincl, itemsSpec_append, itemsSpec_cons,
    C11_section cfg ctx sdoc sd simpl sbody sc hsn hsincl]
  simp

/-! ## non-vacuity -/

example : nameOk [lit "NAME", lit "t", lit "xEXPECTFAIL"] = true := by decide
example : [lit "NAME", lit "t", lit "xEXPECTFAIL"].contains (lit "EXPECTFAIL") = false := by decide
example : [lit "NAME", lit "t", lit "expectfail"].contains (lit "EXPECTFAIL") = false := by decide
example : [lit "EXPECTFAIL", lit "NAME", lit "t"].contains (lit "EXPECTFAIL") = true := by decide

/-- `NAME` in the middle; an argument equal to the name elsewhere stays in the signature -/
example : nameOf [lit "t", lit "NAME", lit "t", lit "COMMAND", lit "t"] = (lit "t", some 1) :=
  C11_name_decomp [lit "t"] [lit "COMMAND", lit "t"] (lit "t") (by decide) (by decide)
example : ctestParams [lit "t", lit "NAME", lit "t", lit "COMMAND", lit "t"] = [lit "t", lit "COMMAND", lit "t"] :=
  C11_addtest_sig [lit "t"] [lit "COMMAND", lit "t"] (lit "t") (by decide) (by decide)

/-- a documented test with an undocumented EXPECTFAIL section and a following command in its body -/
def exTest : Item :=
  .decl (some (mkDoc "" ["A test."])) (mkCall "CT_ADD_TEST" ["NAME", "t1"]) (mkCall "function" ["${t1}"])
    [ .cmd none (mkCall "message" ["hi"]),
      .decl none (mkCall "ct_add_section" ["EXPECTFAIL", "NAME", "s1"]) (mkCall "macro" ["${s1}"])
        [] (mkCall "endmacro" []),
      .cmd (some (mkDoc "" ["Documented call."])) (mkCall "message" ["bye"]) ]
    (mkCall "endfunction" [])

example : (exTest.spec {} .none).top =
    [.test false (lit "t1") (docTextOf (some (mkDoc "" ["A test."]))) false [] false,
     .test true (lit "s1") [] true [] true,
     .generic (lit "message") (docTextOf (some (mkDoc "" ["Documented call."]))) [lit "bye"]] := by
  refine Eq.trans (C11_sections {} .none (some (mkDoc "" ["A test."])) none (mkCall "CT_ADD_TEST" ["NAME", "t1"])
    (mkCall "function" ["${t1}"]) (mkCall "endfunction" []) (mkCall "ct_add_section" ["EXPECTFAIL", "NAME", "s1"])
    (mkCall "macro" ["${s1}"]) (mkCall "endmacro" []) [.cmd none (mkCall "message" ["hi"])]
    [.cmd (some (mkDoc "" ["Documented call."])) (mkCall "message" ["bye"])] []
    (by decide) (Or.inl rfl) (by decide) (Or.inr rfl)) ?_
  decide

example : (Item.cmd none (mkCall "add_test" ["NAME", "t", "COMMAND", "run", "t"])).spec {} .none =
    { top := [.ctest (lit "t") [] [lit "COMMAND", lit "run", lit "t"]] } :=
  C11_addtest_named {} .none none _ [] [lit "COMMAND", lit "run", lit "t"] (lit "t") (by decide) (Or.inr rfl)
    (by decide) (by decide) (by decide)

/-- `add_test(NAME comp COMMAND foo (a b) c)`: a parenthesised group among the arguments -/
def exGroupCall : Call :=
  { pre := [.nl false], name := "add_test".toList, sp := 0,
    args := [.tok [] (.bare (lit "NAME")), .tok [.spaces 1] (.bare (lit "comp")),
             .tok [.spaces 1] (.bare (lit "COMMAND")), .tok [.spaces 1] (.bare (lit "foo")),
             .group [.spaces 1] [.tok [] (.bare (lit "a")), .tok [.spaces 1] (.bare (lit "b"))] [],
             .tok [.spaces 1] (.bare (lit "c"))],
    close := [] }

example : exGroupCall.render = lit "\nadd_test(NAME comp COMMAND foo (a b) c)" := by decide +kernel
example : exGroupCall.allTexts =
    [lit "NAME", lit "comp", lit "COMMAND", lit "foo", lit "(a b)", lit "c"] := by decide +kernel
/-- the single arguments alone (what was read before the repair) miss the group -/
example : exGroupCall.singles = [lit "NAME", lit "comp", lit "COMMAND", lit "foo", lit "c"] := by decide +kernel

/-- the group is part of the signature, at its place -/
example : ((Item.cmd none exGroupCall).spec {} .none).top =
    [.ctest (lit "comp") [] [lit "COMMAND", lit "foo", lit "(a b)", lit "c"]] := by decide +kernel

example : (Item.cmd none exGroupCall).wf false = true ∧
    (Item.cmd none exGroupCall).spec {} .none =
      { top := [.ctest (lit "comp") [] [lit "COMMAND", lit "foo", lit "(a b)", lit "c"]] } :=
  C11_addtest_all_args {} .none false none exGroupCall [] [lit "COMMAND", lit "foo", lit "(a b)", lit "c"] (lit "comp")
    (by decide) (Or.inr rfl) (by decide +kernel) (by decide) (by decide)

end Cminx
