import CminxModel.Pipeline
import CminxLemmas.LexLemmas
import CminxLemmas.ParseLemmas
/-!
# C06 — lexical and syntactic faults are fatal; no output from a view of the file with characters skipped

Part 1 (scanner): a successful `lexAll` is lossless, every token has the shape of its grammar rule, and each
fault class makes `scan` answer `none` at the position of the fault — which makes `lexAll` (and the pipeline)
fail with that position as soon as the scanner gets there (`Reaches`).
-/
namespace Cminx

/-! ## spec-side definitions -/

/-- Reading `s` left to right as a sequence of elements — a backslash together with the next character, or
    any other single character — every backslash is followed by a character `d` with `escOk d` (so `s` does not
    end in a lone backslash) and no other element satisfies `stop`. -/
def escClean (stop : Char → Bool) : Str → Bool
  | [] => true
  | c :: rest =>
    if c = '\\' then
      match rest with
      | [] => false
      | d :: rest' => escOk d && escClean stop rest'
    else !stop c && escClean stop rest

/-- `[`, n × `=`, `[`, body, `]`, n × `=`, `]` -/
def IsBracket (t : Str) : Prop :=
  ∃ (n : Nat) (body : Str), t = '[' :: (List.replicate n '=' ++ '[' :: (body ++ ']' :: (List.replicate n '=' ++ [']'])))

/-- the shape of a token of each kind -/
def Tok.WF (t : Tok) : Prop :=
  match t.kind with
  | .lparen => t.text = ['(']
  | .rparen => t.text = [')']
  | .moduleDocstring =>
      ∃ blanks body, t.text = lit "#[[[" ++ blanks ++ lit "@module" ++ body ++ lit "#]]" ∧
        blanks.all (fun c => c == ' ' || c == '\t') = true
  | .docstring => ∃ body, t.text = lit "#[[[" ++ body ++ lit "#]]"
  | .doccommentStart => t.text = lit "#[[["
  | .blockcommentEnd => t.text = lit "#]]"
  | .identifier => ∃ c cs, t.text = c :: cs ∧ identStart c = true ∧ (c :: cs).all identChar = true
  | .unquoted => t.text ≠ [] ∧ escClean unqStop t.text = true
  | .escapeSequence => ∃ d, t.text = ['\\', d] ∧ escOk d = true
  | .quoted => ∃ body, t.text = '"' :: (body ++ ['"']) ∧ escClean (· == '"') body = true
  | .bracketArg => IsBracket t.text
  | .bracketComment => ∃ b, t.text = '#' :: b ∧ IsBracket b
  | .lineComment =>
      ∃ body eol, t.text = '#' :: (body ++ eol) ∧ body.all notEol = true ∧
        (eol = [] ∨ eol = ['\n'] ∨ eol = ['\r', '\n'] ∨ eol = ['\r']) ∧ opensBracket body = false
  | .newline => t.text ≠ [] ∧ t.text.all (fun c => c == '\r' || c == '\n') = true
  | .space => t.text ≠ [] ∧ t.text.all (fun c => c == ' ' || c == '\t') = true

/-- `Reaches s suf`: started on `s`, the scanner arrives (after zero or more tokens) at the suffix `suf`. -/
inductive Reaches : Str → Str → Prop
  | here (s : Str) : Reaches s s
  | step {s suf : Str} {k : TokKind} {n : Nat} : scan s = some (k, n) → Reaches (s.drop n) suf → Reaches s suf

/-! ## 1. lossless -/

/-- every source character lies in exactly one token, in order -/
theorem C06_lex_lossless {s : Str} {ts : List Tok} (h : lexAll s = .ok ts) :
    (ts.map Tok.text).flatten = s :=
  lexLoop_lossless h

theorem C06_lex_nonempty {s : Str} {ts : List Tok} (h : lexAll s = .ok ts) : ∀ t ∈ ts, t.text ≠ [] := by
  refine lexLoop_forall (fun t => t.text ≠ []) ?_ h
  intro s k n hs hsc
  have hn := (scan_sound hsc).2
  cases s with
  | nil => exact absurd rfl hs
  | cons c cs =>
    cases n with
    | zero => exact absurd rfl hn
    | succ n => simp

/-! ## 2. token shapes -/

theorem C06_unqLen_clean (s : Str) : escClean unqStop (s.take (unqLen s)) = true := by
  fun_induction unqLen s with
  | case1 => simp [escClean]
  | case2 => simp [escClean]
  | case3 d rest' hd ih => simp [escClean, hd, ih]
  | case4 d rest' hd => simp [escClean]
  | case5 c rest hc hs => simp [escClean]
  | case6 c rest hc hs ih => rw [escClean.eq_def]; simp [hc, hs, ih]

theorem C06_quotedBody_clean {s : Str} {m : Nat} (h : quotedBody s = some m) :
    ∃ body post, s = body ++ '"' :: post ∧ m = body.length + 1 ∧ escClean (· == '"') body = true := by
  fun_induction quotedBody s generalizing m with
  | case1 => cases h
  | case2 rest => exact ⟨[], rest, rfl, by simpa using h.symm, rfl⟩
  | case3 hq => cases h
  | case4 d rest' hq hd ih =>
    simp only [Option.map_eq_some_iff] at h
    obtain ⟨m', hm', rfl⟩ := h
    obtain ⟨body, post, hs, hm, hc⟩ := ih hm'
    exact ⟨'\\' :: d :: body, post, by simp [hs], by simp [hm], by rw [escClean]; simp [hq, hc]⟩
  | case5 d rest' hq hd => cases h
  | case6 c rest hq hb ih =>
    simp only [Option.map_eq_some_iff] at h
    obtain ⟨m', hm', rfl⟩ := h
    obtain ⟨body, post, hs, hm, hc⟩ := ih hm'
    exact ⟨c :: body, post, by simp [hs], by simp [hm], by rw [escClean.eq_def]; simp [hb, hq, hc]⟩

/-- What `scan` recognises is a prefix of its input of exactly the answered length, and has the shape of
    the rule that was picked. -/
theorem C06_scan_wf {s : Str} {k : TokKind} {n : Nat} (h : scan s = some (k, n)) :
    ∃ tok post, s = tok ++ post ∧ tok.length = n ∧ Tok.WF ⟨k, tok⟩ := by
  obtain ⟨hr, hn⟩ := scan_sound h
  cases k <;> simp only [ruleLen] at hr
  case lparen =>
    obtain ⟨post, hs, rfl⟩ := paren_split hr
    exact ⟨_, post, hs, rfl, rfl⟩
  case rparen =>
    obtain ⟨post, hs, rfl⟩ := paren_split hr
    exact ⟨_, post, hs, rfl, rfl⟩
  case moduleDocstring =>
    obtain ⟨blanks, body, post, hs, hl, hb⟩ := moduleDocstringLen_split hr
    exact ⟨_, post, hs, hl, blanks, body, rfl, hb⟩
  case docstring =>
    obtain ⟨body, post, hs, hl⟩ := docstringLen_split hr
    exact ⟨_, post, hs, hl, body, rfl⟩
  case doccommentStart =>
    obtain ⟨post, hs, hl⟩ := doccommentStartLen_split hr
    exact ⟨_, post, hs, hl, rfl⟩
  case blockcommentEnd =>
    obtain ⟨post, hs, hl⟩ := blockcommentEndLen_split hr
    exact ⟨_, post, hs, hl, rfl⟩
  case identifier =>
    obtain ⟨c, cs, post, hs, hl, hc, hcs⟩ := identLen_split hr
    refine ⟨_, post, hs, hl, c, cs, rfl, hc, ?_⟩
    have : identChar c = true := by
      simp only [identStart, Bool.or_eq_true] at hc
      rcases hc with hc | hc <;> simp [identChar, asciiAlnum, hc]
    simp [this, hcs]
  case unquoted =>
    have hn' : unqLen s = n := by
      simp only [unquotedLen] at hr
      split at hr
      · cases hr
      · exact Option.some.inj hr
    subst hn'
    refine ⟨s.take (unqLen s), s.drop (unqLen s), (List.take_append_drop _ _).symm, ?_, ?_, C06_unqLen_clean s⟩
    · rw [List.length_take]; exact Nat.min_eq_left (unqLen_le s)
    · intro h0
      have := congrArg List.length h0
      rw [List.length_take, Nat.min_eq_left (unqLen_le s)] at this
      exact hn this
  case escapeSequence =>
    obtain ⟨d, post, hs, rfl, hd⟩ := escapeLen_split hr
    exact ⟨_, post, hs, rfl, d, rfl, hd⟩
  case quoted =>
    unfold quotedLen at hr
    split at hr
    · rename_i rest
      simp only [Option.map_eq_some_iff] at hr
      obtain ⟨m, hm, rfl⟩ := hr
      obtain ⟨body, post, hs, rfl, hc⟩ := C06_quotedBody_clean hm
      refine ⟨'"' :: (body ++ ['"']), post, by simp [hs], by simp, body, rfl, hc⟩
    · cases hr
  case bracketArg =>
    obtain ⟨m, body, post, hs, hl⟩ := bracketLen_split hr
    exact ⟨_, post, hs, hl, m, body, rfl⟩
  case bracketComment =>
    obtain ⟨m, body, post, hs, hl⟩ := bracketCommentLen_split hr
    exact ⟨_, post, hs, hl, _, rfl, m, body, rfl⟩
  case lineComment =>
    simp only [Option.map_eq_some_iff] at hr
    obtain ⟨⟨n', eof⟩, hr, rfl⟩ := hr
    obtain ⟨body, eol, post, hs, hl, hb, hob, he⟩ := lineCommentLen_split hr
    refine ⟨_, post, hs, hl, body, eol, rfl, hb, ?_, ?_⟩
    · rcases he with ⟨h, -⟩ | h | h | ⟨h, -⟩ <;> simp [h]
    · rcases he with ⟨rfl, rfl⟩ | rfl | rfl | ⟨rfl, -⟩
      · simpa using hob
      · rw [← hob, List.append_assoc]; exact (opensBracket_append_eol body _ '\n' rfl).symm
      · rw [← hob, List.append_assoc]; exact (opensBracket_append_eol body _ '\r' rfl).symm
      · rw [← hob, List.append_assoc]; exact (opensBracket_append_eol body _ '\r' rfl).symm
  case newline =>
    obtain ⟨tok, post, hs, hl, hne, hall⟩ := spanRule_split _ hr
    exact ⟨tok, post, hs, hl, hne, hall⟩
  case space =>
    obtain ⟨tok, post, hs, hl, hne, hall⟩ := spanRule_split _ hr
    exact ⟨tok, post, hs, hl, hne, hall⟩

/-- each rule's match is at least one and at most all remaining characters -/
theorem C06_scan_bounds {s : Str} {k : TokKind} {n : Nat} (h : scan s = some (k, n)) :
    1 ≤ n ∧ n ≤ s.length := by
  obtain ⟨tok, post, hs, hl, -⟩ := C06_scan_wf h
  have := (scan_sound h).2
  subst hs; simp; omega

/-- every token of a successful lex has the shape of its grammar rule: strings and brackets are terminated,
    escapes are valid, no token hides a stop character -/
theorem C06_tok_wf {s : Str} {ts : List Tok} (h : lexAll s = .ok ts) : ∀ t ∈ ts, t.WF := by
  refine lexLoop_forall Tok.WF ?_ h
  intro s k n _ hsc
  obtain ⟨tok, post, hs, hl, hwf⟩ := C06_scan_wf hsc
  rw [take_of_eq_append hs hl]; exact hwf

/-! ## 3. fault classes: `scan` answers `none` at the fault, for every continuation -/

/-- a double quote that is never closed: no rule matches at the quote -/
theorem C06_unterminated_quote {rest : Str} (h : '"' ∉ rest) : scan ('"' :: rest) = none :=
  scan_quote_none (quotedBody_none_of_no_quote h)

/-- General form: unless what follows the quote is a body of valid escapes and other characters, ended by an
    unescaped quote, no rule matches at the opening quote (unterminated string — also when only escaped
    quotes follow — or invalid escape inside the string). -/
theorem C06_quote_fault {rest : Str}
    (h : ¬ ∃ body post, rest = body ++ '"' :: post ∧ escClean (· == '"') body = true) :
    scan ('"' :: rest) = none := by
  apply scan_quote_none
  cases hq : quotedBody rest with
  | none => rfl
  | some m =>
    obtain ⟨body, post, hs, -, hc⟩ := C06_quotedBody_clean hq
    exact absurd ⟨body, post, hs, hc⟩ h

theorem C06_quotedBody_bad_escape {pre : Str} {d : Char} {rest : Str}
    (hpre : escClean (· == '"') pre = true) (hd : escOk d = false) :
    quotedBody (pre ++ '\\' :: d :: rest) = none := by
  fun_induction escClean (· == '"') pre with
  | case1 => rw [List.nil_append, quotedBody.eq_def]; simp [hd]
  | case2 => cases hpre
  | case3 e rest' ih =>
    simp only [Bool.and_eq_true] at hpre
    rw [List.cons_append, List.cons_append, quotedBody.eq_def]
    simp [hpre.1, ih hpre.2]
  | case4 c rest' hc ih =>
    simp only [Bool.and_eq_true, Bool.not_eq_true', beq_eq_false_iff_ne] at hpre
    rw [List.cons_append, quotedBody.eq_def]
    simp [hc, hpre.1, ih hpre.2]

/-- an invalid escape sequence inside a quoted argument: no rule matches at the opening quote -/
theorem C06_bad_escape_in_quoted {pre : Str} {d : Char} {rest : Str}
    (hpre : escClean (· == '"') pre = true) (hd : escOk d = false) :
    scan ('"' :: (pre ++ '\\' :: d :: rest)) = none :=
  scan_quote_none (C06_quotedBody_bad_escape hpre hd)

/-- a backslash before a character that does not form an escape sequence (an alphanumeric other than `t`,
    `r`, `n`): no rule matches at the backslash -/
theorem C06_bad_escape {d : Char} {rest : Str} (hd : escOk d = false) : scan ('\\' :: d :: rest) = none := by
  apply scan_none
  intro k
  cases k <;> simp [ruleLen, moduleDocstringLen, docstringLen, doccommentStartLen, blockcommentEndLen,
    identLen, identStart, asciiAlpha, unquotedLen, unqLen, escapeLen, quotedLen, bracketLen,
    bracketCommentLen, lineCommentLen, newlineLen, spaceLen, spanLen, docStart_eq, docEnd_eq, hd]

/-- a backslash at end of file -/
theorem C06_backslash_eof : scan ['\\'] = none := by
  apply scan_none
  intro k
  cases k <;> simp [ruleLen, moduleDocstringLen, docstringLen, doccommentStartLen, blockcommentEndLen,
    identLen, identStart, asciiAlpha, unquotedLen, unqLen, escapeLen, quotedLen, bracketLen,
    bracketCommentLen, lineCommentLen, newlineLen, spaceLen, spanLen, docStart_eq, docEnd_eq]

/-- `#[`, n × `=`, `[` whose closing `]`, n × `=`, `]` never comes, and which is not `#[[[`:
    no rule matches at the `#` (in particular it is not taken for a line comment). -/
theorem C06_unterminated_bracket_comment {n : Nat} {rest : Str}
    (h : findAfter (']' :: (List.replicate n '=' ++ [']'])) rest = none)
    (hdoc : ¬ (n = 0 ∧ rest.head? = some '[')) :
    scan ('#' :: '[' :: (List.replicate n '=' ++ '[' :: rest)) = none := by
  have hds : docStart.isPrefixOf ('#' :: '[' :: (List.replicate n '=' ++ '[' :: rest)) = false := by
    rw [docStart_isPrefixOf_open]
    simpa using hdoc
  apply scan_none
  intro k
  cases k <;> simp [ruleLen, moduleDocstringLen, docstringLen, doccommentStartLen, blockcommentEndLen,
    identLen, identStart, asciiAlpha, unquotedLen, escapeLen, quotedLen, bracketLen, bracketCommentLen,
    lineCommentLen, newlineLen, spaceLen, spanLen, docEnd_eq, hds, h, opensBracket_open,
    unqLen_of_stop _ (by decide : '#' ≠ '\\') rfl]

/-- The remaining case `#[[[` with no `]]` after it (hence no `#]]` either): the scanner produces a
    `Doccomment_start` token, which the parser rejects in every state (`C06_parse_rejects_kind`). -/
theorem C06_unterminated_bracket_comment_doc {rest : Str}
    (h : findAfter [']', ']'] ('[' :: rest) = none) :
    scan ('#' :: '[' :: '[' :: '[' :: rest) = some (.doccommentStart, 4) := by
  have hde : findAfter docEnd rest = none := by
    cases hf : findAfter docEnd rest with
    | none => rfl
    | some m =>
      have h1 : findAfter [']', ']'] rest ≠ none :=
        findAfter_tail_ne_none (a := '#') (by rw [← docEnd_eq, hf]; simp)
      have h2 := findAfter_drop_ne_none (s := '[' :: rest) 1 (by simpa using h1)
      exact absurd h h2
  have hde' : ∀ k, findAfter docEnd (rest.drop k) = none := by
    intro k
    cases hf : findAfter docEnd (rest.drop k) with
    | none => rfl
    | some m =>
      have := findAfter_drop_ne_none (p := docEnd) (s := rest) k (by rw [hf]; simp)
      exact absurd hde this
  have hob : opensBracket ('[' :: '[' :: '[' :: rest) = true := opensBracket_open 0 ('[' :: rest)
  have hds : docStart.isPrefixOf ('#' :: '[' :: '[' :: '[' :: rest) = true := by simp [docStart_eq]
  have hmd : moduleDocstringLen ('#' :: '[' :: '[' :: '[' :: rest) = none := by
    simp only [moduleDocstringLen, hds, if_true, List.drop_succ_cons, List.drop_zero, List.drop_drop, hde']
    split <;> rfl
  have hdl : docstringLen ('#' :: '[' :: '[' :: '[' :: rest) = none := by
    simp [docstringLen, hds, hde]
  simp [scan, candidates, pickBest, hmd, hdl, doccommentStartLen, hds, blockcommentEndLen, docEnd_eq,
    identLen, identStart, asciiAlpha, unquotedLen, escapeLen, quotedLen, bracketLen, bracketCommentLen,
    lineCommentLen, newlineLen, spaceLen, spanLen, h, hob, unqLen_of_stop _ (by decide : '#' ≠ '\\') rfl]

/-! ## 3'. the faults are fatal wherever the scanner gets to them -/

/-- where no rule matches, the loop stops with an error at exactly that index -/
theorem C06_scan_none_lexLoop {s : Str} (fuel pos : Nat) (hne : s ≠ []) (hf : scan s = none) :
    lexLoop (fuel + 1) pos s = .error pos := by
  rw [lexLoop_succ _ _ _ hne, hf]

theorem Reaches.length_le {s suf : Str} (h : Reaches s suf) : suf.length ≤ s.length := by
  induction h with
  | here s => exact Nat.le_refl _
  | step hs _ ih => simp at ih; omega

theorem C06_lexLoop_fault {s suf : Str} (hr : Reaches s suf) (hne : suf ≠ []) (hf : scan suf = none) :
    ∀ fuel pos, s.length ≤ fuel → lexLoop fuel pos s = .error (pos + (s.length - suf.length)) := by
  induction hr with
  | here s =>
    intro fuel pos hfuel
    cases fuel with
    | zero => cases s <;> simp at hfuel hne
    | succ f => rw [lexLoop_succ _ _ _ hne, hf]; simp
  | @step s suf k n hs hr ih =>
    intro fuel pos hfuel
    have hb := C06_scan_bounds hs
    have hle := hr.length_le
    have hsuf : 0 < suf.length := List.length_pos_iff.mpr hne
    rw [List.length_drop] at hle
    cases fuel with
    | zero => omega
    | succ f =>
      rw [lexLoop_succ _ _ _ (scan_ne_nil hs), hs]
      simp only
      rw [ih hne hf f (pos + n) (by rw [List.length_drop]; omega), List.length_drop]
      simp only
      congr 1; omega

/-- If the scanner, started at the beginning of the file, arrives at a point where no rule matches, the
    lexer fails with the index of that point: nothing is skipped to resynchronise. -/
theorem C06_fault_at_reached {s suf : Str} (hr : Reaches s suf) (hne : suf ≠ []) (hf : scan suf = none) :
    lexAll s = .error (s.length - suf.length) := by
  have := C06_lexLoop_fault hr hne hf s.length 0 (Nat.le_refl _)
  simpa [lexAll] using this

theorem C06_lexLoop_error {fuel pos p : Nat} {s : Str} (hfuel : s.length ≤ fuel)
    (h : lexLoop fuel pos s = .error p) :
    ∃ suf, Reaches s suf ∧ suf ≠ [] ∧ scan suf = none ∧ p + suf.length = pos + s.length := by
  induction fuel generalizing pos s with
  | zero =>
    cases s with
    | nil => simp [lexLoop] at h
    | cons c cs => simp at hfuel
  | succ f ih =>
    cases s with
    | nil => simp [lexLoop] at h
    | cons c cs =>
      rw [lexLoop_succ _ _ _ (by simp)] at h
      split at h
      · rename_i hsc
        cases h
        exact ⟨c :: cs, .here _, by simp, hsc, rfl⟩
      · rename_i k n hsc
        have hb := C06_scan_bounds hsc
        split at h
        · cases h
        · rename_i e he
          cases h
          obtain ⟨suf, hr, hne, hf, hp⟩ := ih (by rw [List.length_drop]; omega) he
          refine ⟨suf, .step hsc hr, hne, hf, ?_⟩
          rw [List.length_drop] at hp; omega

/-- Conversely the lexer fails only for that reason (the fuel of `lexAll` never runs out), and the reported
    index is the point where no rule matches. -/
theorem C06_lex_error_is_fault {s : Str} {p : Nat} (h : lexAll s = .error p) :
    ∃ suf, Reaches s suf ∧ suf ≠ [] ∧ scan suf = none ∧ p + suf.length = s.length := by
  obtain ⟨suf, hr, hne, hf, hp⟩ := C06_lexLoop_error (Nat.le_refl _) h
  exact ⟨suf, hr, hne, hf, by omega⟩

/-! ## 4. the parser: parentheses, bare words, stray tokens -/

/-- an extra `)`: if some prefix of the significant tokens has more `)` than `(`, parsing fails -/
theorem C06_parse_extra_rparen (ts : List Tok) (i : Nat)
    (h : (ts.take i).countP (·.kind == .lparen) < (ts.take i).countP (·.kind == .rparen)) :
    parseFold {} ts = none ∧ parse ts = none := by
  have : parseFold {} ts = none := parseFold_extra_rparen {} ts i (by simpa [PMode.depth] using h)
  exact ⟨this, parse_none_of_fold_none this⟩

/-- a missing `)` (or `(`): an accepted token list has as many `(` as `)` -/
theorem C06_parse_missing_rparen {ts : List Tok} {evs : List Event} (h : parse ts = some evs) :
    ts.countP (·.kind == .lparen) = ts.countP (·.kind == .rparen) := by
  obtain ⟨p, ev, a, hf, -⟩ := parse_some h
  have := parseFold_depth hf
  simpa [PMode.depth] using this.symm

/-- both together: the parentheses of an accepted token list are balanced -/
theorem C06_parse_balanced {ts : List Tok} {evs : List Event} (h : parse ts = some evs) :
    ts.countP (·.kind == .lparen) = ts.countP (·.kind == .rparen) ∧
    ∀ i, (ts.take i).countP (·.kind == .rparen) ≤ (ts.take i).countP (·.kind == .lparen) := by
  refine ⟨C06_parse_missing_rparen h, fun i => ?_⟩
  apply Nat.le_of_not_lt
  intro hlt
  rw [(C06_parse_extra_rparen ts i hlt).2] at h
  cases h

/-- between commands only a doc-comment or an `Identifier` may start something -/
theorem C06_parse_top_rejects (p : Option Str) (events : List Event) (atStart : Bool) (t : Tok)
    (h1 : t.kind ≠ .identifier) (h2 : t.kind ≠ .docstring) (h3 : t.kind ≠ .moduleDocstring) :
    parseStep { mode := .top p, events := events, atStart := atStart } t = none := by
  obtain ⟨kind, text⟩ := t
  cases kind <;> simp_all [parseStep]

/-- after an `Identifier` only `(` may follow -/
theorem C06_parse_afterIdent_rejects (p : Option Str) (name : Str) (events : List Event) (atStart : Bool)
    (t : Tok) (h : t.kind ≠ .lparen) :
    parseStep { mode := .afterIdent p name, events := events, atStart := atStart } t = none := by
  obtain ⟨kind, text⟩ := t
  cases kind <;> simp_all [parseStep]

/-- A bare word between commands: if the parser is between commands after `pre`, then an argument-kind token
    (`Identifier`, unquoted, quoted or bracket argument) that is not followed by `(` — in particular one at the
    end of the input — makes parsing fail, whatever comes after. -/
theorem C06_parse_bare_word {pre rest : List Tok} {w : Tok} {st : PState} {p : Option Str}
    (hpre : parseFold {} pre = some st) (hmode : st.mode = .top p) (hw : w.kind.isArg = true)
    (hnext : ∀ r, rest.head? = some r → r.kind ≠ .lparen) :
    parse (pre ++ w :: rest) = none := by
  obtain ⟨mode, events, atStart⟩ := st
  simp only at hmode
  subst hmode
  by_cases hid : w.kind = .identifier
  · have hstep : parseStep { mode := .top p, events := events, atStart := atStart } w =
        some { mode := .afterIdent p w.text, events := events, atStart := false } := by
      obtain ⟨kind, text⟩ := w
      simp only at hid; subst hid
      simp [parseStep]
    cases rest with
    | nil =>
      apply parse_none_of_mode (st := { mode := .afterIdent p w.text, events := events, atStart := false })
      · rw [parseFold_append, hpre]; simp [parseFold, hstep]
      · intro q; simp
    | cons r rs =>
      apply parse_none_of_fold_none
      rw [parseFold_append, hpre]
      simp [parseFold, hstep, C06_parse_afterIdent_rejects _ _ _ _ r (hnext r rfl)]
  · apply parse_none_of_fold_none
    rw [parseFold_append, hpre]
    have : parseStep { mode := .top p, events := events, atStart := atStart } w = none := by
      apply C06_parse_top_rejects _ _ _ _ hid <;> intro hk <;> simp [hk, TokKind.isArg] at hw
    simp [parseFold, this]

/-- tokens that belong to no parser rule (`Doccomment_start`, `Blockcomment_end`, a lone `Escape_sequence`)
    are rejected in every state -/
theorem C06_parse_rejects_kind (st : PState) (t : Tok)
    (h : t.kind = .doccommentStart ∨ t.kind = .blockcommentEnd ∨ t.kind = .escapeSequence) :
    parseStep st t = none := by
  obtain ⟨mode, events, atStart⟩ := st
  obtain ⟨kind, text⟩ := t
  cases mode <;> rcases h with h | h | h <;> simp only at h <;> subst h <;> simp [parseStep, TokKind.isArg]

theorem C06_parse_stray_token {ts : List Tok} {t : Tok} (ht : t ∈ ts)
    (h : t.kind = .doccommentStart ∨ t.kind = .blockcommentEnd ∨ t.kind = .escapeSequence) :
    parse ts = none := by
  obtain ⟨a, b, rfl⟩ := List.append_of_mem ht
  apply parse_none_of_fold_none
  rw [parseFold_append]
  cases parseFold {} a with
  | none => rfl
  | some st => simp [parseFold, C06_parse_rejects_kind st t h]

/-! ## 4'. the parser is exact: the events are a reading of *all* significant tokens, in order -/

/-- what the parser distinguishes in a token -/
inductive Leaf where
  | lp | rp
  | word (text : Str)     -- `Identifier`, unquoted, quoted or bracket argument
  | doc (text : Str)      -- `Docstring`
  | mdoc (text : Str)     -- `Module_docstring`
deriving Repr, DecidableEq

def Tok.leaf (t : Tok) : Option Leaf :=
  match t.kind with
  | .lparen => some .lp
  | .rparen => some .rp
  | .identifier | .unquoted | .quoted | .bracketArg => some (.word t.text)
  | .docstring => some (.doc t.text)
  | .moduleDocstring => some (.mdoc t.text)
  | _ => none

mutual
/-- the tokens an argument was built from -/
def Arg.leaves : Arg → List Leaf
  | .single t => [.word t]
  | .compound as => .lp :: (argsLeaves as ++ [.rp])
def argsLeaves : List Arg → List Leaf
  | [] => []
  | a :: as => a.leaves ++ argsLeaves as
end

/-- `name ( args )` -/
def Cmd.leaves (c : Cmd) : List Leaf := .word c.name :: .lp :: (argsLeaves c.args ++ [.rp])

/-- the tokens an event was built from; the text of a dangling doc-comment is not kept in the event -/
def EventLeaves : Event → List Leaf → Prop
  | .moduleDoc t, ls => ls = [.mdoc t]
  | .docCmd d c, ls => ls = .doc d :: c.leaves
  | .cmd c, ls => ls = c.leaves
  | .dangling, ls => ∃ d, ls = [.doc d]

def EventsLeaves : List Event → List Leaf → Prop
  | [], ls => ls = []
  | e :: es, ls => ∃ l₁ l₂, ls = l₁ ++ l₂ ∧ EventLeaves e l₁ ∧ EventsLeaves es l₂

def pendLeaves : Option Str → List Leaf
  | none => []
  | some d => [.doc d]

/-- open groups, innermost first: each was left by a `(` -/
def stackLeaves : List (List Arg) → List Leaf
  | [] => []
  | fr :: st => stackLeaves st ++ argsLeaves fr.reverse ++ [.lp]

/-- the tokens of the unfinished element -/
def PMode.leaves : PMode → List Leaf
  | .top p => pendLeaves p
  | .afterIdent p name => pendLeaves p ++ [.word name]
  | .inArgs p name stack cur => pendLeaves p ++ [.word name, .lp] ++ stackLeaves stack ++ argsLeaves cur.reverse

/-- `st.Consumed ls`: the state `st` is a reading of exactly the tokens `ls` -/
def PState.Consumed (st : PState) (ls : List Leaf) : Prop :=
  (∃ le, EventsLeaves st.events.reverse le ∧ ls = le ++ st.mode.leaves) ∧
  (st.atStart = true → st.events = [] ∧ st.mode = .top none)

theorem argsLeaves_append (a b : List Arg) : argsLeaves (a ++ b) = argsLeaves a ++ argsLeaves b := by
  induction a with
  | nil => simp [argsLeaves]
  | cons x a ih => simp [argsLeaves, ih]

theorem EventsLeaves_snoc {es : List Event} {e : Event} {l l' : List Leaf}
    (h : EventsLeaves es l) (he : EventLeaves e l') : EventsLeaves (es ++ [e]) (l ++ l') := by
  induction es generalizing l with
  | nil =>
    simp only [EventsLeaves] at h; subst h
    exact ⟨l', [], by simp, he, rfl⟩
  | cons x es ih =>
    obtain ⟨l₁, l₂, rfl, hx, hes⟩ := h
    exact ⟨l₁, l₂ ++ l', by simp, hx, ih hes⟩

theorem EventLeaves_emitCmd (p : Option Str) (c : Cmd) : EventLeaves (emitCmd p c) (pendLeaves p ++ c.leaves) := by
  cases p <;> simp [emitCmd, EventLeaves, pendLeaves]

/-- one parser step consumes exactly one token and stays a reading of everything consumed -/
theorem C06_parseStep_exact {st st' : PState} {t : Tok} {ls : List Leaf}
    (hinv : st.Consumed ls) (h : parseStep st t = some st') :
    ∃ l, t.leaf = some l ∧ st'.Consumed (ls ++ [l]) := by
  obtain ⟨mode, events, atStart⟩ := st
  obtain ⟨kind, text⟩ := t
  obtain ⟨⟨le, hle, rfl⟩, hstart⟩ := hinv
  simp only at hle hstart
  cases mode with
  | top p =>
    cases kind <;> simp [parseStep] at h
    · -- Module_docstring, only as the very first token
      obtain ⟨ha, rfl⟩ := h
      obtain ⟨rfl, hm⟩ := hstart ha
      cases hm
      simp only [List.reverse_nil, EventsLeaves] at hle
      subst hle
      exact ⟨.mdoc text, rfl, ⟨[.mdoc text], ⟨_, _, rfl, rfl, rfl⟩, by simp [PMode.leaves, pendLeaves]⟩, by simp⟩
    · -- Docstring
      subst h
      refine ⟨.doc text, rfl, ?_, by simp⟩
      cases p with
      | none => exact ⟨le, hle, by simp [PMode.leaves, pendLeaves]⟩
      | some d =>
        refine ⟨le ++ [.doc d], ?_, by simp [PMode.leaves, pendLeaves]⟩
        simp only [List.reverse_cons]
        exact EventsLeaves_snoc hle ⟨d, rfl⟩
    · -- Identifier
      subst h
      exact ⟨.word text, rfl, ⟨le, hle, by simp [PMode.leaves]⟩, by simp⟩
  | afterIdent p name =>
    cases kind <;> simp [parseStep] at h
    subst h
    refine ⟨.lp, rfl, ⟨le, hle, by simp [PMode.leaves, stackLeaves, argsLeaves]⟩, ?_⟩
    intro ha; exact absurd (hstart ha).2 (by simp)
  | inArgs p name stack cur =>
    have hstart' : atStart = true → False := fun ha => absurd (hstart ha).2 (by simp)
    cases kind <;> simp [parseStep, TokKind.isArg] at h
    case lparen =>
      subst h
      exact ⟨.lp, rfl, ⟨le, hle, by simp [PMode.leaves, stackLeaves, argsLeaves]⟩, fun ha => (hstart' ha).elim⟩
    case rparen =>
      cases stack with
      | nil =>
        simp at h; subst h
        refine ⟨.rp, rfl, ⟨le ++ (pendLeaves p ++ Cmd.leaves ⟨name, cur.reverse⟩), ?_, ?_⟩,
          fun ha => (hstart' ha).elim⟩
        · simp only [List.reverse_cons]
          exact EventsLeaves_snoc hle (EventLeaves_emitCmd p _)
        · simp [PMode.leaves, stackLeaves, Cmd.leaves, pendLeaves]
      | cons outer stack' =>
        simp at h; subst h
        refine ⟨.rp, rfl, ⟨le, hle, ?_⟩, fun ha => (hstart' ha).elim⟩
        simp [PMode.leaves, stackLeaves, argsLeaves_append, argsLeaves, Arg.leaves]
    all_goals
      subst h
      exact ⟨.word text, rfl,
        ⟨le, hle, by simp [PMode.leaves, argsLeaves_append, argsLeaves, Arg.leaves]⟩,
        fun ha => (hstart' ha).elim⟩

theorem C06_parseFold_exact {st st' : PState} {ts : List Tok} {ls : List Leaf}
    (hinv : st.Consumed ls) (h : parseFold st ts = some st') :
    ∃ ls', ts.map Tok.leaf = ls'.map some ∧ st'.Consumed (ls ++ ls') := by
  induction ts generalizing st ls with
  | nil =>
    simp only [parseFold, Option.some.injEq] at h; subst h
    exact ⟨[], rfl, by simpa using hinv⟩
  | cons t ts ih =>
    simp only [parseFold] at h
    cases hs : parseStep st t with
    | none => simp [hs] at h
    | some st₁ =>
      simp only [hs, Option.bind_some] at h
      obtain ⟨l, hl, hinv₁⟩ := C06_parseStep_exact hinv hs
      obtain ⟨ls', hls', hinv'⟩ := ih hinv₁ h
      exact ⟨l :: ls', by simp [hl, hls'], by simpa using hinv'⟩

/-- If the parser accepts, its events, read back as tokens, are exactly the significant tokens: every token
    went into exactly one event, in order; nothing was dropped, inserted or reordered.  (Kinds of argument
    tokens are not kept in the events, and neither is the text of a dangling doc-comment.) -/
theorem C06_parse_exact {ts : List Tok} {evs : List Event} (h : parse ts = some evs) :
    ∃ ls, EventsLeaves evs ls ∧ ts.map Tok.leaf = ls.map some := by
  obtain ⟨p, events, a, hf, rfl⟩ := parse_some h
  have h0 : PState.Consumed {} [] := ⟨⟨[], rfl, rfl⟩, fun _ => ⟨rfl, rfl⟩⟩
  obtain ⟨ls, hls, ⟨le, hle, hl⟩, -⟩ := C06_parseFold_exact h0 hf
  simp only [List.nil_append] at hl
  subst hl
  refine ⟨le ++ pendLeaves p, ?_, hls⟩
  cases p with
  | none => simpa [pendLeaves] using hle
  | some d =>
    simp only [List.reverse_cons]
    exact EventsLeaves_snoc hle ⟨d, rfl⟩

/-! ## 5. the pipeline: output only from a complete lex and parse; every error is fatal -/

/-- output exists only if the whole file was lexed and the whole significant token stream was parsed -/
theorem C06_no_skip {cfg : Cfg} {headers : List Str} {title modName src out : Str}
    (h : pipeline cfg headers title modName src = .ok out) :
    ∃ ts evs st hc, headers.head? = some hc ∧ lexAll (dropBom src) = .ok ts ∧
      parse (significant ts) = some evs ∧ aggregate cfg evs = .ok st ∧
      out = (processDocs hc title modName st.documented).render := by
  unfold pipeline at h
  split at h
  · cases h
  · rename_i hc hs
    split at h
    · cases h
    · rename_i docs hd
      unfold documentedOf at hd
      split at hd
      · cases hd
      · rename_i ts hl
        split at hd
        · cases hd
        · rename_i evs hp
          split at hd
          · cases hd
          · rename_i st ha
            cases hd; cases h
            exact ⟨ts, evs, st, hc, rfl, hl, hp, ha, rfl⟩

/-- a token recognition error is reported as such, with its position, and there is no output -/
theorem C06_error_propagates_lex {cfg : Cfg} {headers : List Str} {title modName src : Str} {p : Nat}
    (hh : headers ≠ []) (h : lexAll (dropBom src) = .error p) :
    pipeline cfg headers title modName src = .error (.lex p) := by
  cases headers with
  | nil => exact absurd rfl hh
  | cons hc hs => simp [pipeline, documentedOf, h]

/-- a syntax error is reported as such, and there is no output -/
theorem C06_error_propagates_parse {cfg : Cfg} {headers : List Str} {title modName src : Str}
    {ts : List Tok} (hh : headers ≠ []) (hl : lexAll (dropBom src) = .ok ts)
    (hp : parse (significant ts) = none) :
    pipeline cfg headers title modName src = .error .parse := by
  cases headers with
  | nil => exact absurd rfl hh
  | cons hc hs => simp [pipeline, documentedOf, hl, hp]

theorem C06_error_propagates {cfg : Cfg} {headers : List Str} {title modName src : Str} (hh : headers ≠ []) :
    (∀ p, lexAll (dropBom src) = .error p → pipeline cfg headers title modName src = .error (.lex p)) ∧
    (∀ ts, lexAll (dropBom src) = .ok ts → parse (significant ts) = none →
      pipeline cfg headers title modName src = .error .parse) :=
  ⟨fun _ h => C06_error_propagates_lex hh h, fun _ hl hp => C06_error_propagates_parse hh hl hp⟩

/-- never any output: the pipeline result is an error in both cases, also with an empty header list -/
theorem C06_no_output_on_error {cfg : Cfg} {headers : List Str} {title modName src : Str}
    (h : (∃ p, lexAll (dropBom src) = .error p) ∨
         (∃ ts, lexAll (dropBom src) = .ok ts ∧ parse (significant ts) = none)) :
    ∀ out, pipeline cfg headers title modName src ≠ .ok out := by
  intro out ho
  obtain ⟨ts, evs, st, hc, -, hl, hp, -, -⟩ := C06_no_skip ho
  rcases h with ⟨p, h⟩ | ⟨ts', hl', hp'⟩
  · rw [hl] at h; cases h
  · rw [hl] at hl'; cases hl'; rw [hp] at hp'; cases hp'

/-- A lexical fault anywhere the scanner gets to is fatal for the whole file, with the index of the fault. -/
theorem C06_fault_fatal {cfg : Cfg} {headers : List Str} {title modName src suf : Str} (hh : headers ≠ [])
    (hr : Reaches (dropBom src) suf) (hne : suf ≠ []) (hf : scan suf = none) :
    pipeline cfg headers title modName src = .error (.lex ((dropBom src).length - suf.length)) :=
  C06_error_propagates_lex hh (C06_fault_at_reached hr hne hf)

/-- Whenever there is output, every character of the (BOM-less) source lies in exactly one well-formed token,
    the tokens hidden from the parser are comments and white space only, and every other token went into
    exactly one parser event, in order. -/
theorem C06_output_accounts_for_source {cfg : Cfg} {headers : List Str} {title modName src out : Str}
    (h : pipeline cfg headers title modName src = .ok out) :
    ∃ ts evs ls,
      lexAll (dropBom src) = .ok ts ∧ (ts.map Tok.text).flatten = dropBom src ∧
      (∀ t ∈ ts, t.WF ∧ t.text ≠ []) ∧
      (∀ t ∈ ts, t ∉ significant ts →
        t.kind = .bracketComment ∨ t.kind = .lineComment ∨ t.kind = .newline ∨ t.kind = .space) ∧
      parse (significant ts) = some evs ∧ EventsLeaves evs ls ∧
      (significant ts).map Tok.leaf = ls.map some := by
  obtain ⟨ts, evs, st, hc, -, hl, hp, -, -⟩ := C06_no_skip h
  obtain ⟨ls, hev, hls⟩ := C06_parse_exact hp
  refine ⟨ts, evs, ls, hl, C06_lex_lossless hl, fun t ht => ⟨C06_tok_wf hl t ht, C06_lex_nonempty hl t ht⟩,
    ?_, hp, hev, hls⟩
  intro t ht hns
  have : t.kind.skipped = true := by
    cases hk : t.kind.skipped with
    | true => rfl
    | false => exact absurd (List.mem_filter.mpr ⟨ht, by simp [hk]⟩) hns
  cases hk : t.kind <;> simp [hk, TokKind.skipped] at this ⊢

/-! ## non-vacuity: the definitions and theorems on concrete inputs

String literals are first expanded to character lists (`String.reduceToList`); everything is then computed
by the kernel. -/

/-- closed statements about string literals: expand the literals to character lists, then compute -/
local macro "eval_lit" : tactic => `(tactic| (simp only [String.reduceToList, lit]; rfl))

-- `Tok.WF` accepts and rejects
example : Tok.WF ⟨.quoted, "\"a\\\"b\"".toList⟩ := ⟨"a\\\"b".toList, by eval_lit, by eval_lit⟩
example : ¬ Tok.WF ⟨.quoted, ['"', 'a', '\\', '"']⟩ := by
  rintro ⟨body, h, hc⟩
  have : body = ['a', '\\'] := by
    have h' : ['a', '\\'] ++ ['"'] = body ++ ['"'] := by simpa using h
    exact (List.append_cancel_right h').symm
  subst this; simp [escClean] at hc
example : ¬ Tok.WF ⟨.unquoted, ['a', '\\']⟩ := by simp [Tok.WF, escClean, unqStop]
example : ¬ Tok.WF ⟨.unquoted, ['a', '\\', 'b']⟩ := by simp [Tok.WF, escClean, unqStop, escOk, asciiAlnum, asciiAlpha]
example : ¬ Tok.WF ⟨.unquoted, ['a', ')']⟩ := by simp [Tok.WF, escClean, unqStop]
example : Tok.WF ⟨.unquoted, ['a', '\\', ')']⟩ := by simp [Tok.WF, escClean, unqStop, escOk, asciiAlnum, asciiAlpha, asciiDigit]

-- the scanner
example : (lexAll "set(x \"a\\\"b\") # c\n".toList).toBool = true := by eval_lit
example : lexAll "set(x a\\bc)".toList = .error 7 := by eval_lit
example : lexAll "set(x \"ab".toList = .error 6 := by eval_lit
example : lexAll "set(x) #[[ never closed".toList = .error 7 := by eval_lit
example : (lexAll "set(x) # [[ just a line comment".toList).toBool = true := by eval_lit

example : scan ('"' :: "abc)\n".toList) = none := C06_unterminated_quote (by simp)
example : scan ('\\' :: 'b' :: "c)".toList) = none := C06_bad_escape rfl
example : scan ('"' :: ("a\\n".toList ++ '\\' :: 'b' :: "c\")".toList)) = none :=
  C06_bad_escape_in_quoted (by eval_lit) rfl
example : scan ('#' :: '[' :: (List.replicate 1 '=' ++ '[' :: " abc ]] x\n".toList)) = none :=
  C06_unterminated_bracket_comment (by eval_lit) (by simp)
example : scan ('#' :: '[' :: (List.replicate 0 '=' ++ '[' :: " abc ] x\n".toList)) = none :=
  C06_unterminated_bracket_comment (by eval_lit) (by simp)
example : scan ('#' :: '[' :: '[' :: '[' :: " abc ] x\n".toList) = some (.doccommentStart, 4) :=
  C06_unterminated_bracket_comment_doc (by eval_lit)

/-- the scanner gets to the bad escape of `set(x a\bc)` after the tokens `set`, `(`, `x`, ` `, `a` -/
example : Reaches "set(x a\\bc)".toList "\\bc)".toList := by
  simp only [String.reduceToList]
  exact .step (k := .identifier) (n := 3) rfl <| .step (k := .lparen) (n := 1) rfl <|
    .step (k := .identifier) (n := 1) rfl <| .step (k := .space) (n := 1) rfl <|
    .step (k := .identifier) (n := 1) rfl <| .here _

-- the parser
/-- `f(a)` -/
private def exCall : List Tok :=
  [⟨.identifier, ['f']⟩, ⟨.lparen, ['(']⟩, ⟨.unquoted, ['a']⟩, ⟨.rparen, [')']⟩]

example : (parse exCall).isSome = true := by rfl
example : parse (exCall ++ [⟨.rparen, [')']⟩]) = none := (C06_parse_extra_rparen _ 5 (by decide)).2
example : parse (exCall ++ ⟨.unquoted, ['x']⟩ :: exCall) = none :=
  C06_parse_bare_word (pre := exCall) (p := none) rfl rfl rfl (by simp [exCall])
example : parse (exCall ++ [⟨.identifier, ['x']⟩]) = none :=
  C06_parse_bare_word (pre := exCall) (p := none) (rest := []) rfl rfl rfl (by simp)
example : parse [⟨.identifier, ['f']⟩, ⟨.lparen, ['(']⟩, ⟨.unquoted, ['a']⟩] = none := by rfl
example : parse (exCall ++ [⟨.doccommentStart, ['#', '[', '[', '[']⟩]) = none :=
  C06_parse_stray_token (t := ⟨.doccommentStart, ['#', '[', '[', '[']⟩) (by simp) (Or.inl rfl)

-- the pipeline
example : pipeline {} [lit "#"] (lit "t") (lit "m") "set(x a\\bc)".toList = .error (.lex 7) := by eval_lit
example : pipeline {} [lit "#"] (lit "t") (lit "m") "set(x \"ab)\n".toList = .error (.lex 6) := by eval_lit
example : pipeline {} [lit "#"] (lit "t") (lit "m") "set(x))\n".toList = .error .parse := by eval_lit
example : pipeline {} [lit "#"] (lit "t") (lit "m") "set(x\n".toList = .error .parse := by eval_lit
example : pipeline {} [lit "#"] (lit "t") (lit "m") "set(x)\nstray\nset(y)\n".toList = .error .parse := by
  eval_lit
example : pipeline {} [lit "#"] (lit "t") (lit "m") "set(x)\n#[[[ never closed\n".toList = .error .parse := by
  eval_lit
example : (pipeline {} [lit "#"] (lit "t") (lit "m")
    "#[[[\n# doc\n#]]\nfunction(f a)\nendfunction()\n".toList).toBool = true := by eval_lit

end Cminx
