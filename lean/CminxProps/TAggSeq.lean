import CminxLemmas.AggSeq4
/-!
# T-aggS — the refinement theorem for declarations that are apart from their definitions

`T_agg` (`CminxProps/TAgg.lean`) knows a member/test declaration only as `Item.decl`: the declaration immediately
followed by its *undocumented* implementing definition.  The listener is more general: the declaration fills the
awaiting slot and the *next* `function`/`macro` command claims it — after any number of ordinary commands, and
whether or not it carries a doccomment of its own.  `T_aggS` is the refinement theorem for that input language:
`itemsWfS` (`CminxModel/SpecSeq.lean`) accepts a declaration as a single command followed by single commands /
dangling doccomments and then the definition, and `itemsSpecS` is the structural specification that looks ahead
for the definition.  `T_agg` is the special case (`itemsWf_imp_itemsWfS`, `itemsSpecS_eq_of_wf`).

The induction (`CminxLemmas/AggSeq*.lean`) carries the awaiting slot: between declaration and definition the
state is related to the state in which the definition has already completed the entry; the single commands in
between commute with that completion.
-/
namespace Cminx

/-! ## the theorem -/

/-- The listener state machine run over the events of a list of items that is well formed in the relaxed sense
(`itemsWfS`: declarations may be apart from their definitions, definitions may be documented) ends without an
exception in the state whose `documented` is the sequence-aware structural specification, with both stacks empty,
nothing awaiting a definition and no logged parameter error.  `hk1` keeps the statement outside defect K1, as
in `T_agg_items`. -/
theorem T_aggS_items (cfg : Cfg) (items : List Item)
    (hwf : itemsWfS false false items = true)
    (hk1 : cfg.inclCppClass = true ∨ itemsHaveDocumentedClass items = false) :
    (itemsEvents items).foldlM (step cfg) ({} : AggState) =
      .ok { documented := (itemsSpecS cfg .none false items).top, classStack := [], awaiting := none, defStack := [],
            errors := 0 } := by
  rw [(seq_itemsOK_all cfg items).1 false false {} ⟨rfl, by simp, by simp⟩ hwf (by simp) hk1]
  simp [post, absorb, ctxOf]

/-- `T_agg` for the relaxed input language: `aggregate` over the events of a module whose items satisfy `itemsWfS`
succeeds, `documented` equals `Module.entriesS`, no parameter error was logged, both stacks are empty and nothing
awaits a definition. -/
theorem T_aggS (cfg : Cfg) (m : Module)
    (hwf : itemsWfS false false m.items = true)
    (hk1 : cfg.inclCppClass = true ∨ itemsHaveDocumentedClass m.items = false) :
    ∃ st, aggregate cfg m.events = .ok st ∧ st.documented = m.entriesS cfg ∧ st.errors = 0 ∧
      st.classStack = [] ∧ st.defStack = [] ∧ st.awaiting = none := by
  unfold aggregate Module.events Module.entriesS
  cases hm : m.modDoc with
  | none =>
    simp only [List.nil_append]
    rw [T_aggS_items cfg m.items hwf hk1]
    exact ⟨_, rfl, rfl, rfl, rfl, rfl, rfl⟩
  | some d =>
    simp only [List.singleton_append, List.foldlM_cons, step]
    have hinv : Inv (({} : AggState).push (.module (moduleNameDoc d.tokenText).1 (moduleNameDoc d.tokenText).2)) :=
      ⟨rfl, by simp [AggState.push], by simp [AggState.push]⟩
    simp only [except_pure_eq, except_ok_bind]
    rw [(seq_itemsOK_all cfg m.items).1 false false _ hinv hwf (by simp) hk1]
    refine ⟨_, rfl, ?_, rfl, rfl, rfl, rfl⟩
    simp [post, absorb, AggState.push, ctxOf]

/-! ## `T_agg` is the special case -/

theorem seq_isDeclName_false_of_not_structural (n : Str) (h : structuralNames.contains n = false) :
    isDeclName n = false := by
  rw [structuralNames_contains] at h
  simp [isDeclName, h]

theorem seq_cmd_wf_not_decl (b : Bool) (doc : Option DocC) (call : Call) (h : (Item.cmd doc call).wf b = true) :
    isDeclName call.lname = false := by
  simp only [Item.wf, Bool.and_eq_true, Bool.not_eq_true'] at h
  exact seq_isDeclName_false_of_not_structural _ h.1.1.1.1.1

theorem seq_wfimp_cmd (doc : Option DocC) (call : Call) (b : Bool) (h : (Item.cmd doc call).wf b = true) :
    (Item.cmd doc call).wfS b false = true ∧ (Item.cmd doc call).pendWf false = false := by
  have hd := seq_cmd_wf_not_decl b doc call h
  simp only [Item.wfS, Item.pendWf, hd, Bool.false_eq_true, if_false, Bool.or_false, and_true]
  exact h

theorem seq_wfimp_block (doc : Option DocC) (o : Call) (body : List Item) (c : Call)
    (ih : ∀ b, itemsWf b body = true → itemsWfS b false body = true) (b : Bool)
    (h : (Item.block doc o body c).wf b = true) :
    (Item.block doc o body c).wfS b false = true ∧ (Item.block doc o body c).pendWf false = false := by
  simp only [Item.wf, Bool.and_eq_true] at h
  obtain ⟨⟨h1, h2⟩, h3⟩ := h
  refine ⟨?_, by simp [Item.pendWf]⟩
  simp only [Item.wfS, Bool.and_eq_true, Bool.not_false, Bool.or_true, true_and]
  exact ⟨⟨h1, h2⟩, ih _ h3⟩

theorem seq_wfimp_decl (doc : Option DocC) (d impl : Call) (body : List Item) (c : Call)
    (ih : ∀ b, itemsWf b body = true → itemsWfS b false body = true) (b : Bool)
    (h : (Item.decl doc d impl body c).wf b = true) :
    (Item.decl doc d impl body c).wfS b false = true ∧ (Item.decl doc d impl body c).pendWf false = false := by
  simp only [Item.wf, Bool.and_eq_true] at h
  obtain ⟨⟨⟨⟨⟨h1, h2⟩, h3⟩, h4⟩, h5⟩, h6⟩ := h
  refine ⟨?_, rfl⟩
  simp only [Item.wfS, Bool.and_eq_true, Bool.not_false, true_and]
  exact ⟨⟨⟨⟨⟨h1, h2⟩, h3⟩, h4⟩, h5⟩, ih _ h6⟩

mutual
theorem seq_wfimp_item : (it : Item) → ∀ b, it.wf b = true → it.wfS b false = true ∧ it.pendWf false = false
  | .cmd doc call => seq_wfimp_cmd doc call
  | .block doc o body c => seq_wfimp_block doc o body c (seq_wfimp_items body)
  | .decl doc d impl body c => seq_wfimp_decl doc d impl body c (seq_wfimp_items body)
  | .dangling _ => fun _ _ => ⟨rfl, rfl⟩
theorem seq_wfimp_items : (items : List Item) → ∀ b, itemsWf b items = true → itemsWfS b false items = true
  | [] => fun _ _ => rfl
  | i :: is => fun b h => by
    simp only [itemsWf, Bool.and_eq_true] at h
    have h1 := seq_wfimp_item i b h.1
    have h2 := seq_wfimp_items is b h.2
    simp only [itemsWfS, Bool.and_eq_true, h1.1, h1.2, h2, and_self]
end

/-- Every module `T_agg` talks about is also one `T_aggS` talks about. -/
theorem itemsWf_imp_itemsWfS (b : Bool) (items : List Item) (h : itemsWf b items = true) :
    itemsWfS b false items = true :=
  seq_wfimp_items items b h

theorem seq_speceq_cmd (cfg : Cfg) (doc : Option DocC) (call : Call) (b : Bool) (ctx : ClsCtx) (x : Option Call)
    (h : (Item.cmd doc call).wf b = true) :
    (Item.cmd doc call).specS cfg ctx false x = (Item.cmd doc call).spec cfg ctx ∧
    (Item.cmd doc call).pendS cfg ctx false = false := by
  have hd := seq_cmd_wf_not_decl b doc call h
  simp [Item.specS, Item.pendS, hd]

theorem seq_speceq_block (cfg : Cfg) (doc : Option DocC) (o : Call) (body : List Item) (c : Call)
    (ih : ∀ b ctx, itemsWf b body = true → itemsSpecS cfg ctx false body = itemsSpec cfg ctx body)
    (b : Bool) (ctx : ClsCtx) (x : Option Call) (h : (Item.block doc o body c).wf b = true) :
    (Item.block doc o body c).specS cfg ctx false x = (Item.block doc o body c).spec cfg ctx ∧
    (Item.block doc o body c).pendS cfg ctx false = false := by
  simp only [Item.wf, Bool.and_eq_true] at h
  refine ⟨?_, by simp [Item.pendS]⟩
  simp only [Item.specS, Item.spec, ih _ _ h.2, Bool.not_false, Bool.true_and]

theorem seq_speceq_decl (cfg : Cfg) (doc : Option DocC) (d impl : Call) (body : List Item) (c : Call)
    (ih : ∀ b ctx, itemsWf b body = true → itemsSpecS cfg ctx false body = itemsSpec cfg ctx body)
    (b : Bool) (ctx : ClsCtx) (x : Option Call) (h : (Item.decl doc d impl body c).wf b = true) :
    (Item.decl doc d impl body c).specS cfg ctx false x = (Item.decl doc d impl body c).spec cfg ctx ∧
    (Item.decl doc d impl body c).pendS cfg ctx false = false := by
  simp only [Item.wf, Bool.and_eq_true] at h
  refine ⟨?_, rfl⟩
  simp only [Item.specS, Item.spec, ih _ _ h.2]

mutual
theorem seq_speceq_item (cfg : Cfg) : (it : Item) → ∀ b ctx x, it.wf b = true →
    it.specS cfg ctx false x = it.spec cfg ctx ∧ it.pendS cfg ctx false = false
  | .cmd doc call => seq_speceq_cmd cfg doc call
  | .block doc o body c => seq_speceq_block cfg doc o body c (seq_speceq_items cfg body)
  | .decl doc d impl body c => seq_speceq_decl cfg doc d impl body c (seq_speceq_items cfg body)
  | .dangling _ => fun _ _ _ _ => ⟨rfl, rfl⟩
theorem seq_speceq_items (cfg : Cfg) : (items : List Item) → ∀ b ctx, itemsWf b items = true →
    itemsSpecS cfg ctx false items = itemsSpec cfg ctx items
  | [] => fun _ _ _ => rfl
  | i :: is => fun b ctx h => by
    simp only [itemsWf, Bool.and_eq_true] at h
    have h1 := seq_speceq_item cfg i b ctx (findImpl is) h.1
    have h2 := seq_speceq_items cfg is b ctx h.2
    simp only [itemsSpecS, itemsSpec, h1.1, h1.2, h2]
end

/-- On the modules `T_agg` talks about the two specifications agree, so `T_agg` is `T_aggS` restricted to them.
(The hypothesis is needed: it excludes a declaration name on an `Item.cmd`, which `Item.spec` reads as a generic
command and `Item.specS` as a declaration.) -/
theorem itemsSpecS_eq_of_wf (cfg : Cfg) (ctx : ClsCtx) (b : Bool) (items : List Item)
    (h : itemsWf b items = true) : itemsSpecS cfg ctx false items = itemsSpec cfg ctx items :=
  seq_speceq_items cfg items b ctx h

/-- … in particular the expected `documented` lists agree. -/
theorem entriesS_eq_of_wf (cfg : Cfg) (m : Module) (h : itemsWf false m.items = true) :
    m.entriesS cfg = m.entries cfg := by
  unfold Module.entriesS Module.entries
  rw [itemsSpecS_eq_of_wf cfg .none false m.items h]
  cases m.modDoc <;> rfl

/-- `T_agg` re-derived from `T_aggS`. -/
theorem T_agg_from_T_aggS (cfg : Cfg) (m : Module)
    (hwf : itemsWf false m.items = true)
    (hk1 : cfg.inclCppClass = true ∨ itemsHaveDocumentedClass m.items = false) :
    ∃ st, aggregate cfg m.events = .ok st ∧ st.documented = m.entries cfg ∧ st.errors = 0 ∧
      st.classStack = [] ∧ st.defStack = [] ∧ st.awaiting = none := by
  rw [← entriesS_eq_of_wf cfg m hwf]
  exact T_aggS cfg m (itemsWf_imp_itemsWfS false m.items hwf) hk1

/-! ## corollaries in plain terms -/

theorem Contrib.seq_append_assoc (a b c : Contrib) : (a ++ b) ++ c = a ++ (b ++ c) := by
  apply Contrib.ext' <;> simp [List.append_assoc]

theorem seq_findImpl_gap (gap rest : List Item) (hg : gap.all Item.isGap = true) :
    findImpl (gap ++ rest) = findImpl rest := by
  induction gap with
  | nil => rfl
  | cons g gap ih =>
    simp only [List.all_cons, Bool.and_eq_true] at hg
    cases g with
    | cmd doc call => simpa [findImpl, Item.implOpener] using ih hg.2
    | dangling d => simpa [findImpl, Item.implOpener] using ih hg.2
    | block doc o body c => simp [Item.isGap] at hg
    | decl doc d i body c => simp [Item.isGap] at hg

/-- single commands that are not declarations (and dangling doccomments) contribute what `Item.spec` says, whether
or not a declaration is pending, and leave the pending flag alone -/
theorem seq_itemsSpecS_gap (cfg : Cfg) (ctx : ClsCtx) (p : Bool) (gap rest : List Item)
    (hg : gap.all Item.isGap = true) :
    itemsSpecS cfg ctx p (gap ++ rest) = itemsSpec cfg ctx gap ++ itemsSpecS cfg ctx p rest := by
  induction gap with
  | nil => simp [itemsSpec]
  | cons g gap ih =>
    simp only [List.all_cons, Bool.and_eq_true] at hg
    cases g with
    | cmd doc call =>
      have hd : isDeclName call.lname = false := by simpa [Item.isGap] using hg.1
      simp only [List.cons_append, itemsSpecS, itemsSpec, Item.specS, Item.pendS, hd, Bool.false_eq_true, if_false,
        Bool.false_and, Bool.or_false, ih hg.2, Contrib.seq_append_assoc]
    | dangling d =>
      simp only [List.cons_append, itemsSpecS, itemsSpec, Item.specS, Item.spec, Item.pendS, ih hg.2,
        Contrib.seq_append_assoc]
    | block doc o body c => simp [Item.isGap] at hg
    | decl doc d i body c => simp [Item.isGap] at hg

/-- **The commands between a declaration and its definition are irrelevant to the declaration.**  For a
declaration `d` (one of `cpp_member`, `cpp_constructor`, `ct_add_test`, `ct_add_section`) written as a command of
its own, followed by single commands / dangling doccomments `gap` and then by the definition `impl`: the
declaration contributes `declContrib … (some impl)` — its entry completed by `impl`'s parameters and macro-ness —
the gap commands contribute exactly what they contribute anywhere else (`itemsSpec … gap`), and the rest is the
contribution of the definition and what follows.  With an empty gap the declaration's contribution and the rest
are literally the same terms. -/
theorem TAggSeq_gap_irrelevant (cfg : Cfg) (ctx : ClsCtx) (doc : Option DocC) (d : Call) (gap : List Item)
    (implDoc : Option DocC) (impl : Call) (body : List Item) (c : Call) (rest : List Item)
    (hd : isDeclName d.lname = true) (hg : gap.all Item.isGap = true) (hi : isDefName impl.lname = true) :
    itemsSpecS cfg ctx false (.cmd doc d :: (gap ++ .block implDoc impl body c :: rest)) =
      declContrib cfg ctx doc d (some impl) ++
        (itemsSpec cfg ctx gap ++
          itemsSpecS cfg ctx (declShown cfg ctx doc d) (.block implDoc impl body c :: rest)) ∧
    itemsSpecS cfg ctx false (.cmd doc d :: .block implDoc impl body c :: rest) =
      declContrib cfg ctx doc d (some impl) ++
        itemsSpecS cfg ctx (declShown cfg ctx doc d) (.block implDoc impl body c :: rest) := by
  have hf : ∀ g, g.all Item.isGap = true → findImpl (g ++ .block implDoc impl body c :: rest) = some impl := by
    intro g hg
    rw [seq_findImpl_gap _ _ hg]
    simp [findImpl, Item.implOpener, hi]
  constructor
  · rw [itemsSpecS, hf gap hg]
    simp only [Item.specS, Item.pendS, hd, if_true, Bool.false_or, Bool.true_and]
    rw [seq_itemsSpecS_gap cfg ctx _ gap _ hg]
  · have := hf [] rfl
    simp only [List.nil_append] at this
    rw [itemsSpecS, this]
    simp only [Item.specS, Item.pendS, hd, if_true, Bool.false_or, Bool.true_and]

/-- `Item.decl` — the declaration immediately followed by its undocumented definition, the only form `T_agg`
knows — means the same as the declaration command followed by the undocumented definition block. -/
theorem TAggSeq_decl_eq_split (cfg : Cfg) (ctx : ClsCtx) (doc : Option DocC) (d impl : Call) (body : List Item)
    (c : Call) (rest : List Item) (hd : isDeclName d.lname = true) (hi : isDefName impl.lname = true) :
    itemsSpecS cfg ctx false (.decl doc d impl body c :: rest) =
      itemsSpecS cfg ctx false (.cmd doc d :: .block none impl body c :: rest) := by
  have hn := (seq_isDefName_iff _).1 hi
  rw [(TAggSeq_gap_irrelevant cfg ctx doc d [] none impl body c rest hd rfl hi).2]
  simp only [itemsSpecS]
  rw [seq_decl_specS]
  have hp1 : (Item.decl doc d impl body c).pendS cfg ctx false = false := rfl
  have hp2 : (Item.block none impl body c).pendS cfg ctx (declShown cfg ctx doc d) = false := by
    simp [Item.pendS, hi]
  rw [hp1, hp2]
  cases hs : declShown cfg ctx doc d
  · rw [seq_block_specS_undoc cfg ctx impl body c _ hn]
    simp [declContrib, hs, Contrib.seq_append_assoc]
  · have : (Item.block none impl body c).specS cfg ctx true (findImpl rest) = itemsSpecS cfg ctx false body := by
      rcases hn with h | h <;> simp (decide := true) [Item.specS, h]
    rw [this]
    simp [Contrib.seq_append_assoc]

/-- **A documented implementing definition contributes exactly one entry of its own**, whether or not a
declaration is waiting for it: after the declaration's (completed) contribution and the gap commands comes the
definition's own `function`/`macro` entry, then its body, then the rest — with nothing pending any more. -/
theorem TAggSeq_documented_impl (cfg : Cfg) (ctx : ClsCtx) (doc : Option DocC) (d : Call) (gap : List Item)
    (dc : DocC) (impl : Call) (body : List Item) (c : Call) (rest : List Item)
    (hd : isDeclName d.lname = true) (hg : gap.all Item.isGap = true) (hi : isDefName impl.lname = true) :
    itemsSpecS cfg ctx false (.cmd doc d :: (gap ++ .block (some dc) impl body c :: rest)) =
      declContrib cfg ctx doc d (some impl) ++
        (itemsSpec cfg ctx gap ++
          (({ top := [defEntry cfg (impl.lname = lit "macro") (some dc) impl body] } ++
              itemsSpecS cfg ctx false body) ++
            itemsSpecS cfg ctx false rest)) := by
  have hn := (seq_isDefName_iff _).1 hi
  rw [(TAggSeq_gap_irrelevant cfg ctx doc d gap (some dc) impl body c rest hd hg hi).1]
  simp only [itemsSpecS]
  have hp : (Item.block (some dc) impl body c).pendS cfg ctx (declShown cfg ctx doc d) = false := by
    simp [Item.pendS, hi]
  have hs : (Item.block (some dc) impl body c).specS cfg ctx (declShown cfg ctx doc d) (findImpl rest) =
      { top := [defEntry cfg (impl.lname = lit "macro") (some dc) impl body] } ++ itemsSpecS cfg ctx false body := by
    rcases hn with h | h <;> simp (decide := true) [Item.specS, h]
  rw [hp, hs]

/-- … and the `**kwargs` flag of that entry is determined by the definition's own doccomment (the trigger text)
and its own body (a `cmake_parse_arguments` call directly in it), by nothing else. -/
theorem TAggSeq_documented_impl_kwargs (cfg : Cfg) (isMacro : Bool) (dc : DocC) (impl : Call) (body : List Item) :
    defEntry cfg isMacro (some dc) impl body =
      .func isMacro (impl.singles.headD []) (cleanDoc dc.tokenText)
        ((impl.singles.drop 1).map (if isMacro then cfg.stripMacro else cfg.stripFn))
        (isInfix cfg.trigger (cleanDoc dc.tokenText) || itemsCpaDirect body) := rfl

/-- The listener on such input: whatever precedes (`pre`), a declaration, gap commands and a *documented*
implementing definition, then whatever follows — the run succeeds, `documented` is the specification, and both
stacks are empty at the end: the documented definition pushed exactly one definition-stack entry (its own) and
its `endfunction`/`endmacro` popped it. -/
theorem TAggSeq_documented_impl_stacks (cfg : Cfg) (pre : List Item) (doc : Option DocC) (d : Call)
    (gap : List Item) (dc : DocC) (impl : Call) (body : List Item) (c : Call) (rest : List Item)
    (hwf : itemsWfS false false (pre ++ .cmd doc d :: (gap ++ .block (some dc) impl body c :: rest)) = true)
    (hk1 : cfg.inclCppClass = true ∨
      itemsHaveDocumentedClass (pre ++ .cmd doc d :: (gap ++ .block (some dc) impl body c :: rest)) = false) :
    ∃ st, (itemsEvents (pre ++ .cmd doc d :: (gap ++ .block (some dc) impl body c :: rest))).foldlM (step cfg)
        ({} : AggState) = .ok st ∧
      st.defStack = [] ∧ st.classStack = [] ∧ st.awaiting = none ∧ st.errors = 0 ∧
      st.documented =
        (itemsSpecS cfg .none false (pre ++ .cmd doc d :: (gap ++ .block (some dc) impl body c :: rest))).top :=
  ⟨_, T_aggS_items cfg _ hwf hk1, rfl, rfl, rfl, rfl, rfl⟩

/-- The listener on a split declaration at file level: `documented` is the declaration's completed entry, then
the gap commands' own entries, then what the definition and the rest contribute. -/
theorem TAggSeq_gap_machine (cfg : Cfg) (doc : Option DocC) (d : Call) (gap : List Item)
    (implDoc : Option DocC) (impl : Call) (body : List Item) (c : Call) (rest : List Item)
    (hwf : itemsWfS false false (.cmd doc d :: (gap ++ .block implDoc impl body c :: rest)) = true)
    (hk1 : cfg.inclCppClass = true ∨
      itemsHaveDocumentedClass (.cmd doc d :: (gap ++ .block implDoc impl body c :: rest)) = false)
    (hd : isDeclName d.lname = true) (hg : gap.all Item.isGap = true) (hi : isDefName impl.lname = true) :
    ∃ st, (itemsEvents (.cmd doc d :: (gap ++ .block implDoc impl body c :: rest))).foldlM (step cfg)
        ({} : AggState) = .ok st ∧
      st.documented =
        (declContrib cfg .none doc d (some impl)).top ++
          ((itemsSpec cfg .none gap).top ++
            (itemsSpecS cfg .none (declShown cfg .none doc d) (.block implDoc impl body c :: rest)).top) ∧
      st.defStack = [] ∧ st.classStack = [] ∧ st.awaiting = none ∧ st.errors = 0 := by
  refine ⟨_, T_aggS_items cfg _ hwf hk1, ?_, rfl, rfl, rfl, rfl⟩
  simp only []
  rw [(TAggSeq_gap_irrelevant cfg .none doc d gap implDoc impl body c rest hd hg hi).1]
  simp

/-! ## non-vacuity -/

/-- a command `name(arg …)` with bare arguments, on its own line -/
def mkCallS (name : String) (args : List String) : Call :=
  { pre := [.nl false], name := name.toList, sp := 0,
    args := args.map (fun a => SArg.tok [.spaces 1] (.bare a.toList)), close := [] }

/-- a doccomment with `# `-led body lines -/
def mkDocS (openSuffix : String) (lines : List String) : DocC :=
  { pre := [.nl false], ind := [], openSuffix := openSuffix.toList, lines := lines.map String.toList,
    leader := true, crlf := false }

/-- inside a function body: a documented test declaration, a documented `set` and an undocumented `option` in the
gap, then the undocumented implementing macro -/
def exSplitTest : Module :=
  { bom := false, modDoc := none, tail := [.nl false],
    items := [
      .block (some (mkDocS "" ["Outer."])) (mkCallS "function" ["outer"])
        [ .cmd (some (mkDocS "" ["A test."])) (mkCallS "ct_add_test" ["NAME", "t1"]),
          .cmd (some (mkDocS "" ["A variable."])) (mkCallS "set" ["X", "1"]),
          .cmd none (mkCallS "option" ["OPT", "help"]),
          .block none (mkCallS "macro" ["${t1}", "a", "b"]) [] (mkCallS "endmacro" []) ]
        (mkCallS "endfunction" []) ] }

/-- a documented class with a documented member, a `cpp_attr` in the gap, the DOCUMENTED implementing function
(with `cmake_parse_arguments` in its body) and a later undocumented function -/
def exDocImpl : Module :=
  { bom := false, modDoc := none, tail := [.nl false],
    items := [
      .block (some (mkDocS "" ["A class."])) (mkCallS "cpp_class" ["MyClass"])
        [ .cmd (some (mkDocS "" ["A member."])) (mkCallS "cpp_member" ["go", "MyClass", "int"]),
          .cmd none (mkCallS "cpp_attr" ["MyClass", "color", "red"]),
          .block (some (mkDocS "" ["The implementation."])) (mkCallS "function" ["_go", "self", "n"])
            [ .cmd none (mkCallS "cmake_parse_arguments" ["ARG", "OPTS", "ONE", "MULTI", "${ARGN}"]) ]
            (mkCallS "endfunction" []),
          .block none (mkCallS "function" ["later", "x"]) [] (mkCallS "endfunction" []) ]
        (mkCallS "cpp_end_class" []) ] }

/-- both examples are in the relaxed input language and outside the one of `T_agg` -/
theorem TAggSeq_examples_wf :
    itemsWfS false false exSplitTest.items = true ∧ itemsWf false exSplitTest.items = false ∧
    itemsWfS false false exDocImpl.items = true ∧ itemsWf false exDocImpl.items = false := by
  decide +kernel

/-- the split test declaration: the function, the test completed by the macro behind the gap (parameter `b`,
macro), then the two gap commands' entries; the claimed undocumented macro gets no entry of its own -/
theorem TAggSeq_exSplitTest_entries :
    exSplitTest.entriesS {} =
      [ .func false (lit "outer") (lit "Outer.\n") [] false,
        .test false (lit "t1") (lit "A test.\n") false [lit "b"] true,
        .var (lit "X") (lit "A variable.\n") .string (some (lit "1")),
        .opt (lit "OPT") [] (lit "help") none ] := by
  decide +kernel

/-- the documented implementing definition: the class with the member completed (parameter `n`) and the gap
attribute, the definition's own entry with `**kwargs` from its own body, and the later function as an ordinary
definition without `**kwargs` -/
theorem TAggSeq_exDocImpl_entries :
    exDocImpl.entriesS {} =
      [ .cls (lit "MyClass") (lit "A class.\n") [] [] []
          [{ name := lit "go", doc := lit "A member.\n", parentClass := lit "MyClass", paramTypes := [lit "int"],
             params := [lit "n"], isCtor := false, isMacro := false }]
          [{ name := lit "color", doc := [], parentClass := lit "MyClass", dflt := some (lit "red") }],
        .func false (lit "_go") (lit "The implementation.\n") [lit "self", lit "n"] true,
        .func false (lit "later") [] [lit "x"] false ] := by
  decide +kernel

/-- `T_aggS` applies to both: the listener produces exactly these lists and ends with empty stacks -/
theorem TAggSeq_examples_run :
    (∃ st, aggregate {} exSplitTest.events = .ok st ∧ st.documented = exSplitTest.entriesS {} ∧ st.errors = 0 ∧
      st.classStack = [] ∧ st.defStack = [] ∧ st.awaiting = none) ∧
    (∃ st, aggregate {} exDocImpl.events = .ok st ∧ st.documented = exDocImpl.entriesS {} ∧ st.errors = 0 ∧
      st.classStack = [] ∧ st.defStack = [] ∧ st.awaiting = none) :=
  ⟨T_aggS {} exSplitTest TAggSeq_examples_wf.1 (Or.inl rfl),
   T_aggS {} exDocImpl TAggSeq_examples_wf.2.2.1 (Or.inl rfl)⟩

end Cminx
