import CminxLemmas.SpecLemmas
/-!
# C09 — class entries reflect the `cpp_class` structure of the source

Read off the structural specification (`Item.spec`, `itemsSpec`, `CminxModel/Spec.lean`): a class is an
`Item.block` whose opener is `cpp_class`; its entry collects `Contrib.inner/ctors/members/attrs` of its own body,
evaluated in class context `.shown`.  A `cpp_member`/`cpp_constructor` declaration and the function/macro
definition that follows it form one `Item.decl`.  `methodOf` (the `Method` of a declaration + implementation)
is defined in `CminxLemmas/SpecLemmas.lean` and spelled out by `C09_method`.  Rendering is read off
`Entry.toElem`, `Method.toElem`, `Attr.toElem`, `methodFields` (`CminxModel/DocTypes.lean`).  The theorems hold for
every configuration under the stated "has an entry" hypotheses, which the default configuration satisfies
(`Or.inr rfl`); `C09_machine` transports them to the listener under default settings.
-/
namespace Cminx

/-! ## the class entry collects its own body -/

/-- A class that is documented or shown by `include_undocumented_cpp_class`: one class entry — name = first
argument, bases = the remaining arguments as written, lists = what the body contributes in class context
`.shown` — followed by the body's own top-level entries (nested classes among them). -/
theorem C09_class_entry (cfg : Cfg) (ctx : ClsCtx) (doc : Option DocC) (o : Call) (body : List Item) (c : Call)
    (hn : o.lname = lit "cpp_class") (hincl : doc.isSome = true ∨ cfg.inclCppClass = true) :
    ((Item.block doc o body c).spec cfg ctx).top =
      .cls (o.singles.headD []) (docTextOf doc) (o.singles.drop 1) (itemsSpec cfg .shown body).inner
          (itemsSpec cfg .shown body).ctors (itemsSpec cfg .shown body).members (itemsSpec cfg .shown body).attrs ::
        (itemsSpec cfg .shown body).top := by
  rw [spec_block_class_shown cfg ctx doc o body c hn hincl]

/-- with the arguments named: `cpp_class(name base₁ …)` -/
theorem C09_class_entry_named (cfg : Cfg) (ctx : ClsCtx) (doc : Option DocC) (o : Call) (body : List Item) (c : Call)
    (name : Str) (supers : List Str) (hn : o.lname = lit "cpp_class") (hs : o.singles = name :: supers)
    (hincl : doc.isSome = true ∨ cfg.inclCppClass = true) :
    ((Item.block doc o body c).spec cfg ctx).top =
      .cls name (docTextOf doc) supers (itemsSpec cfg .shown body).inner
          (itemsSpec cfg .shown body).ctors (itemsSpec cfg .shown body).members (itemsSpec cfg .shown body).attrs ::
        (itemsSpec cfg .shown body).top := by
  rw [C09_class_entry cfg ctx doc o body c hn hincl, hs]; rfl

/-- A class item never passes constructors, methods or attributes on to the class around it: whatever is
declared between `cpp_class` and `cpp_end_class` lands in that innermost class only.  Towards an enclosing shown
class it contributes exactly its name (to the inner-class list) — if it has an entry itself. -/
theorem C09_innermost (cfg : Cfg) (ctx : ClsCtx) (doc : Option DocC) (o : Call) (body : List Item) (c : Call)
    (hn : o.lname = lit "cpp_class") :
    ((Item.block doc o body c).spec cfg ctx).ctors = [] ∧ ((Item.block doc o body c).spec cfg ctx).members = [] ∧
    ((Item.block doc o body c).spec cfg ctx).attrs = [] ∧
    ((Item.block doc o body c).spec cfg ctx).inner =
      if (doc.isSome || cfg.inclCppClass) && ctx = .shown then [o.singles.headD []] else [] := by
  have h1 : lit "cpp_class" ≠ lit "function" := by decide
  have h2 : lit "cpp_class" ≠ lit "macro" := by decide
  cases hc : (doc.isSome || cfg.inclCppClass) <;> simp [Item.spec, hn, h1, h2, hc]

/-- source order inside a class: all four lists of `a ++ b` are those of `a` followed by those of `b` -/
theorem C09_source_order (cfg : Cfg) (ctx : ClsCtx) (a b : List Item) :
    (itemsSpec cfg ctx (a ++ b)).members = (itemsSpec cfg ctx a).members ++ (itemsSpec cfg ctx b).members ∧
    (itemsSpec cfg ctx (a ++ b)).ctors = (itemsSpec cfg ctx a).ctors ++ (itemsSpec cfg ctx b).ctors ∧
    (itemsSpec cfg ctx (a ++ b)).attrs = (itemsSpec cfg ctx a).attrs ++ (itemsSpec cfg ctx b).attrs ∧
    (itemsSpec cfg ctx (a ++ b)).inner = (itemsSpec cfg ctx a).inner ++ (itemsSpec cfg ctx b).inner := by
  rw [itemsSpec_append]; exact ⟨rfl, rfl, rfl, rfl⟩

/-- after `cpp_end_class` the enclosing context is back: the items following a class are evaluated in the
context `ctx` of the list the class sits in, not in the class's -/
theorem C09_after_end (cfg : Cfg) (ctx : ClsCtx) (doc : Option DocC) (o : Call) (body : List Item) (c : Call)
    (rest : List Item) :
    itemsSpec cfg ctx (.block doc o body c :: rest) =
      (Item.block doc o body c).spec cfg ctx ++ itemsSpec cfg ctx rest :=
  itemsSpec_cons cfg ctx _ rest

/-- A class nested in a class (both with an entry): the inner class is an entry of its own right after the
entries preceding it; the outer entry lists it by name among its inner classes, in source order, and the outer
constructor/method/attribute lists are those of `pre` and `post` only. -/
theorem C09_nested (cfg : Cfg) (ctx : ClsCtx) (doc idoc : Option DocC) (o c io ic : Call) (pre post ibody : List Item)
    (hn : o.lname = lit "cpp_class") (hincl : doc.isSome = true ∨ cfg.inclCppClass = true)
    (hin : io.lname = lit "cpp_class") (hiincl : idoc.isSome = true ∨ cfg.inclCppClass = true) :
    ((Item.block doc o (pre ++ .block idoc io ibody ic :: post) c).spec cfg ctx).top =
      .cls (o.singles.headD []) (docTextOf doc) (o.singles.drop 1)
          ((itemsSpec cfg .shown pre).inner ++ io.singles.headD [] :: (itemsSpec cfg .shown post).inner)
          ((itemsSpec cfg .shown pre).ctors ++ (itemsSpec cfg .shown post).ctors)
          ((itemsSpec cfg .shown pre).members ++ (itemsSpec cfg .shown post).members)
          ((itemsSpec cfg .shown pre).attrs ++ (itemsSpec cfg .shown post).attrs) ::
        ((itemsSpec cfg .shown pre).top ++
          .cls (io.singles.headD []) (docTextOf idoc) (io.singles.drop 1) (itemsSpec cfg .shown ibody).inner
              (itemsSpec cfg .shown ibody).ctors (itemsSpec cfg .shown ibody).members
              (itemsSpec cfg .shown ibody).attrs ::
            ((itemsSpec cfg .shown ibody).top ++ (itemsSpec cfg .shown post).top)) := by
  rw [C09_class_entry cfg ctx doc o _ c hn hincl, itemsSpec_append, itemsSpec_cons,
    spec_block_class_shown cfg .shown idoc io ibody ic hin hiincl]
  simp

/-! ## members, constructors, attributes -/

/-- the `Method` recorded for a declaration and its implementing definition -/
theorem C09_method (cfg : Cfg) (doc : Option DocC) (d impl : Call) (isCtor : Bool) :
    methodOf cfg doc d impl isCtor =
      { name := d.singles.headD [], doc := docTextOf doc, parentClass := d.singles.getD 1 [],
        paramTypes := d.singles.drop 2, params := (impl.singles.map cfg.stripMember).drop 2,
        isCtor := isCtor, isMacro := impl.lname = lit "macro" } := rfl

/-- with the arguments named: `cpp_member(name cls ty₁ …)` followed by `function(fname self p₁ …)`: the parameter
names are the definition's arguments after the function name and `self`, each passed through the member strip
function, in order; the declared types are kept as written -/
theorem C09_method_named (cfg : Cfg) (doc : Option DocC) (d impl : Call) (isCtor : Bool)
    (name cls fname self : Str) (types ps : List Str)
    (hd : d.singles = name :: cls :: types) (hi : impl.singles = fname :: self :: ps) :
    methodOf cfg doc d impl isCtor =
      { name := name, doc := docTextOf doc, parentClass := cls, paramTypes := types,
        params := ps.map cfg.stripMember, isCtor := isCtor, isMacro := impl.lname = lit "macro" } := by
  simp [methodOf, hd, hi]

/-- a member declaration in a shown class (documented, or `include_undocumented_cpp_member` on): exactly one
`Method` in the method list, not a constructor; macro flag iff the implementing definition is a macro -/
theorem C09_member (cfg : Cfg) (doc : Option DocC) (d impl : Call) (body : List Item) (c : Call)
    (hn : d.lname = lit "cpp_member") (hincl : doc.isSome = true ∨ cfg.inclCppMember = true) :
    (Item.decl doc d impl body c).spec cfg .shown =
      { members := [methodOf cfg doc d impl false] } ++ itemsSpec cfg .shown body := by
  have hc : (doc.isSome || cfg.inclCppMember) = true := by simpa using hincl
  rw [spec_decl_member_if cfg .shown doc d impl body c hn]; simp [hc]

/-- likewise a constructor declaration: exactly one `Method` in the constructor list -/
theorem C09_ctor (cfg : Cfg) (doc : Option DocC) (d impl : Call) (body : List Item) (c : Call)
    (hn : d.lname = lit "cpp_constructor") (hincl : doc.isSome = true ∨ cfg.inclCppConstructor = true) :
    (Item.decl doc d impl body c).spec cfg .shown =
      { ctors := [methodOf cfg doc d impl true] } ++ itemsSpec cfg .shown body := by
  have hc : (doc.isSome || cfg.inclCppConstructor) = true := by simpa using hincl
  rw [spec_decl_ctor_if cfg .shown doc d impl body c hn]; simp [hc]

/-- `cpp_attr(cls name [default])` in a shown class: exactly one attribute; it has a default value iff a third
argument is written -/
theorem C09_attr (cfg : Cfg) (doc : Option DocC) (call : Call) (cls name : Str) (dflt : Option Str) (more : List Str)
    (hn : call.lname = lit "cpp_attr") (hincl : doc.isSome = true ∨ cfg.inclCppAttr = true)
    (hs : call.singles = cls :: name :: (dflt.toList ++ (if dflt.isSome then more else []))) :
    (Item.cmd doc call).spec cfg .shown =
      { attrs := [{ name := name, doc := docTextOf doc, parentClass := cls, dflt := dflt }] } := by
  have hc : (doc.isSome || cfg.inclCppAttr) = true := by simpa using hincl
  rw [spec_cmd_attr cfg .shown doc call hn]
  cases dflt <;> simp [hc, hs]

/-- blocks that are neither definitions nor classes (`if`, `foreach`, `while`) are transparent for membership:
a member declared inside one belongs to the class around the block -/
theorem C09_block_transparent (cfg : Cfg) (ctx : ClsCtx) (o : Call) (body : List Item) (c : Call)
    (h1 : o.lname ≠ lit "function") (h2 : o.lname ≠ lit "macro") (h3 : o.lname ≠ lit "cpp_class") :
    (Item.block none o body c).spec cfg ctx = itemsSpec cfg ctx body := by
  rw [spec_block_other cfg ctx none o body c h1 h2 h3]; simp

/-! ## rendering -/

/-- A method is a `py:method` directive with the signature `name(p₁, p₂, …)` — followed by `[, ...]` inside the
parentheses iff `args` is among the declared types — a macro note iff the implementing definition is a macro, the
doc, and the parameter fields. -/
theorem C09_method_render (m : Method) :
    m.toElem =
      .directive (lit "py:method")
        [m.name ++ lit "(" ++ joinWith (lit ", ") m.params ++
          (if lit "args" ∈ m.paramTypes then lit "[, ...]" else []) ++ lit ")"] []
        ((if m.isMacro then [Elem.directive (lit "note") [methodMacroNote] [] []] else []) ++
          [.para m.doc] ++ methodFields m.doc m.paramTypes m.params) := by
  by_cases h : lit "args" ∈ m.paramTypes
  · have hc : m.paramTypes.contains (lit "args") = true := by simpa using h
    simp only [Method.toElem, hc, if_pos h]; simp [lit]
  · have hc : m.paramTypes.contains (lit "args") = false := by simpa using h
    simp only [Method.toElem, hc, if_neg h]; simp [lit]

/-- the parameter fields pair declared types and parameter names position-wise, up to the shorter list; each
pair yields a `:param p:` and a `:type p: ty` field unless the doc already contains such a field -/
theorem C09_method_fields (doc : Str) (tys ps : List Str) :
    methodFields doc tys ps =
      (tys.zip ps).flatMap (fun tp =>
        (if isInfix (lit ":param " ++ tp.2 ++ [':']) doc then [] else [Elem.field (lit "param " ++ tp.2) []]) ++
        (if isInfix (lit ":type " ++ tp.2 ++ [':']) doc then [] else [Elem.field (lit "type " ++ tp.2) tp.1])) :=
  methodFields_eq doc tys ps

theorem C09_method_fields_length (doc : Str) (tys ps : List Str) :
    (methodFields doc tys ps).length ≤ 2 * min tys.length ps.length :=
  methodFields_length_le doc tys ps

/-- when the doc mentions none of the fields: exactly `:param pᵢ:` / `:type pᵢ: tyᵢ`, in order -/
theorem C09_method_fields_plain (doc : Str) (tys ps : List Str)
    (h : ∀ p ∈ ps, isInfix (lit ":param " ++ p ++ [':']) doc = false ∧ isInfix (lit ":type " ++ p ++ [':']) doc = false) :
    methodFields doc tys ps =
      (tys.zip ps).flatMap (fun tp => [Elem.field (lit "param " ++ tp.2) [], Elem.field (lit "type " ++ tp.2) tp.1]) :=
  methodFields_plain doc tys ps h

/-- an attribute is a `py:attribute` directive with a `:value:` option iff it has a default -/
theorem C09_attr_render (a : Attr) :
    a.toElem =
      .directive (lit "py:attribute") [a.name]
        (match a.dflt with | some v => [(lit "value", v)] | none => []) [.para a.doc] := rfl

/-- A class is a `py:class` directive: a `Bases:` paragraph listing the bases as written, in order, iff there
are any; the doc; then the constructor, method and attribute sections (each only if non-empty, each in list
order) and the inner-class list. -/
theorem C09_class_render (name doc : Str) (supers inner : List Str) (ctors members : List Method) (attrs : List Attr) :
    (Entry.cls name doc supers inner ctors members attrs).toElem =
      .directive (lit "py:class") [name] []
        ((match supers with
          | [] => []
          | _ :: _ => [Elem.para (lit "Bases: " ++ joinWith (lit ", ") (supers.map (interpreted (lit "class"))) ++ lit "\n")]) ++
         [.para doc] ++
         (match ctors with
          | [] => []
          | _ :: _ => Elem.para (lit "**Additional Constructors**") :: ctors.map Method.toElem) ++
         (match members with
          | [] => []
          | _ :: _ => Elem.para (lit "**Methods**") :: members.map Method.toElem) ++
         (match attrs with
          | [] => []
          | _ :: _ => Elem.para (lit "**Attributes**") :: attrs.map Attr.toElem) ++
         (match inner with
          | [] => []
          | _ :: _ => [.para (lit "**Inner classes**"), .list false (inner.map (interpreted (lit "class")))])) := by
  cases supers <;> cases ctors <;> cases members <;> cases attrs <;> cases inner <;>
    simp [Entry.toElem, section?, lit]

/-- base classes are listed as written: each base `b` appears as ``:class:`b` ``, comma-separated, in order -/
theorem C09_bases (name doc : Str) (b : Str) (bs inner : List Str) (ctors members : List Method) (attrs : List Attr) :
    ∃ rest, (Entry.cls name doc (b :: bs) inner ctors members attrs).toElem =
      .directive (lit "py:class") [name] []
        (.para (lit "Bases: " ++ joinWith (lit ", ") ((b :: bs).map (fun s => lit ":class:`" ++ s ++ lit "`")) ++ lit "\n") ::
          .para doc :: rest) := by
  refine ⟨section? (lit "**Additional Constructors**") (ctors.map Method.toElem) ++
    section? (lit "**Methods**") (members.map Method.toElem) ++
    section? (lit "**Attributes**") (attrs.map Attr.toElem) ++
    (if inner.isEmpty then []
     else [.para (lit "**Inner classes**"), .list false (inner.map (interpreted (lit "class")))]), ?_⟩
  have hi : interpreted (lit "class") = fun s => lit ":class:`" ++ s ++ lit "`" := by
    funext s; simp [interpreted, lit]
  simp only [Entry.toElem, hi]
  simp [lit]

/-! ## the listener under default settings -/

/-- Through `T_agg` with the default configuration: the listener's `documented` is `m.entries {}`, so a top-level
class of a well-formed module is recorded as the class entry `C09_class_entry` describes, followed by the
entries of its body. -/
theorem C09_machine (m : Module) (hwf : itemsWf false m.items = true)
    (pre post : List Item) (doc : Option DocC) (o : Call) (body : List Item) (c : Call)
    (hitems : m.items = pre ++ .block doc o body c :: post) (hn : o.lname = lit "cpp_class") :
    ∃ st front back, aggregate {} m.events = .ok st ∧ st.errors = 0 ∧
      st.documented = front ++
        .cls (o.singles.headD []) (docTextOf doc) (o.singles.drop 1) (itemsSpec {} .shown body).inner
          (itemsSpec {} .shown body).ctors (itemsSpec {} .shown body).members (itemsSpec {} .shown body).attrs ::
        ((itemsSpec {} .shown body).top ++ back) := by
  obtain ⟨st, h1, h2, h3, _⟩ := T_agg {} m hwf (Or.inl rfl)
  refine ⟨st, (match m.modDoc with
         | some d => [Entry.module (moduleNameDoc d.tokenText).1 (moduleNameDoc d.tokenText).2]
         | none => []) ++ (itemsSpec {} .none pre).top, (itemsSpec {} .none post).top, h1, h3, ?_⟩
  rw [h2, Module.entries, hitems, itemsSpec_append, itemsSpec_cons]
  simp only [Contrib.append_top, C09_class_entry {} .none doc o body c hn (Or.inr rfl)]
  cases m.modDoc <;> simp

/-! ## non-vacuity -/

/-- outer class `A : Base` with a constructor, then an inner class `B` with its own member and attribute, then —
after `B`'s `cpp_end_class` — a member of `A` implemented by a macro -/
def exNested : Item :=
  .block (some (mkDoc "" ["Outer."])) (mkCall "cpp_class" ["A", "Base"])
    [ .decl none (mkCall "cpp_constructor" ["CTOR", "A", "int"]) (mkCall "function" ["_c", "self", "_n"]) []
        (mkCall "endfunction" []),
      .block none (mkCall "CPP_CLASS" ["B"])
        [ .decl none (mkCall "cpp_member" ["inner_go", "B", "str", "args"]) (mkCall "function" ["_g", "self", "s"]) []
            (mkCall "endfunction" []),
          .cmd none (mkCall "cpp_attr" ["B", "size"]) ]
        (mkCall "cpp_end_class" []),
      .decl none (mkCall "cpp_member" ["outer_go", "A"]) (mkCall "macro" ["_o", "self"]) []
        (mkCall "endmacro" []) ]
    (mkCall "cpp_end_class" [])

example : (exNested.spec { stripMember := fun s => s.filter (· ≠ '_') } .none).top =
    [ .cls (lit "A") (docTextOf (some (mkDoc "" ["Outer."]))) [lit "Base"] [lit "B"]
        [{ name := lit "CTOR", doc := [], parentClass := lit "A", paramTypes := [lit "int"], params := [lit "n"],
           isCtor := true, isMacro := false }]
        [{ name := lit "outer_go", doc := [], parentClass := lit "A", paramTypes := [], params := [],
           isCtor := false, isMacro := true }]
        [],
      .cls (lit "B") [] [] []
        []
        [{ name := lit "inner_go", doc := [], parentClass := lit "B", paramTypes := [lit "str", lit "args"],
           params := [lit "s"], isCtor := false, isMacro := false }]
        [{ name := lit "size", doc := [], parentClass := lit "B", dflt := none }] ] := by
  refine Eq.trans (C09_nested _ .none (some (mkDoc "" ["Outer."])) none (mkCall "cpp_class" ["A", "Base"])
    (mkCall "cpp_end_class" []) (mkCall "CPP_CLASS" ["B"]) (mkCall "cpp_end_class" [])
    [ .decl none (mkCall "cpp_constructor" ["CTOR", "A", "int"]) (mkCall "function" ["_c", "self", "_n"]) []
        (mkCall "endfunction" []) ]
    [ .decl none (mkCall "cpp_member" ["outer_go", "A"]) (mkCall "macro" ["_o", "self"]) []
        (mkCall "endmacro" []) ] _ (by decide) (Or.inl rfl) (by decide) (Or.inr rfl)) ?_
  decide

/-- the variadic member renders as `inner_go(s[, ...])` with one parameter/type pair (the shorter list wins) -/
example : (Method.toElem
      { name := lit "inner_go", doc := [], parentClass := lit "B", paramTypes := [lit "str", lit "args"],
        params := [lit "s"], isCtor := false, isMacro := true }) =
    .directive (lit "py:method") [lit "inner_go(s[, ...])"] []
      [.directive (lit "note") [methodMacroNote] [] [], .para [],
       .field (lit "param s") [], .field (lit "type s") (lit "str")] := by
  rw [C09_method_render]; rfl

example : (Item.cmd none (mkCall "cpp_attr" ["K", "color", "red"])).spec {} .shown =
    { attrs := [{ name := lit "color", doc := [], parentClass := lit "K", dflt := some (lit "red") }] } :=
  C09_attr {} none _ (lit "K") (lit "color") (some (lit "red")) [] (by decide) (Or.inr rfl) (by decide)

/-- A member/constructor declaration in a shown class takes the awaiting-definition slot for itself, whatever was left pending there
    (a declaration that was never implemented, known finding K8): the slot afterwards names this declaration — its class entry, its kind and
    its position in the member list — and the right-hand side does not mention the earlier content of the slot.  With
    `C03_documented_impl_step`/`step` this is why a declaration directly followed by its definition is always linked to that definition
    (the `adjacent-pairs-only` clause of the C09 oracle). -/
theorem C09_decl_takes_slot (isCtor : Bool) (st : AggState) (cmd : Cmd) (doc name parent : Str) (types : List Str)
    (h : cmd.singles = name :: parent :: types) (ci : Nat) (rest : List (Option Nat)) (hc : st.classStack = some ci :: rest) :
    (processCppMember isCtor st cmd doc).awaiting =
      some (.method ci isCtor (methodCount isCtor (st.documented.getD ci default))) ∧
    (processCppMember isCtor st cmd doc).classStack = st.classStack ∧
    (processCppMember isCtor st cmd doc).defStack = st.defStack := by
  unfold processCppMember
  simp [h, hc]

/-- … and in particular the result is the same for every earlier content of the slot -/
theorem C09_decl_ignores_pending (isCtor : Bool) (st : AggState) (a : Option AwaitRef) (cmd : Cmd) (doc name parent : Str) (types : List Str)
    (h : cmd.singles = name :: parent :: types) (ci : Nat) (rest : List (Option Nat)) (hc : st.classStack = some ci :: rest) :
    processCppMember isCtor { st with awaiting := a } cmd doc = processCppMember isCtor st cmd doc := by
  unfold processCppMember
  simp [h, hc]

end Cminx
