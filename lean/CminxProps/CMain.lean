import CminxModel.Main
import CminxProps.C18
import CminxProps.C16Cli
import CminxProps.C15Glob
/-!
# Program-level corollaries: `cminx <argv>` as one function (`Main.cminxMain`)

The per-layer theorems composed along the path a command line takes: parser → command-line source → layering → settings →
exclusion → walk → pages.
-/
namespace Cminx

/-- the outcome of a run that got as far as documenting: the pieces `cminxMain` is made of -/
theorem cminxMain_ran {argv : List Str} {sfile : Str → Source} {user defaults : Source} {world : Str → World}
    {f1 f2 f3 : Str → Str} {r : RunResult} {st : Status}
    (h : cminxMain argv sfile user defaults world f1 f2 f3 = .ran r st) :
    ∃ files vals filters cs, mainSettings argv sfile user defaults = some (.ok (files, vals, filters)) ∧
      Glob.compileAll (patternStrs filters) = .ok cs ∧
      (r, st) = runMain (walkCfgOfSettings vals (aggCfgOfSettings vals f1 f2 f3)) (files.map (fun f => mainInputOf cs (world f))) {} := by
  unfold cminxMain at h
  split at h
  · cases h
  · cases h
  · rename_i files vals filters hm
    split at h
    · cases h
    · cases h
    · rename_i cs hc
      simp only [MainOutcome.ran.injEq] at h
      exact ⟨files, vals, filters, cs, hm, hc, by rw [← h.1, ← h.2]⟩

/-- C18 for the whole command line: if no source sets `output.directory` the run writes no file at all, whatever the inputs, the
    patterns and the other settings are -/
theorem CMain_no_output_no_writes {argv : List Str} {sfile : Str → Source} {user defaults : Source} {world : Str → World}
    {f1 f2 f3 : Str → Str} {r : RunResult} {st : Status}
    (h : cminxMain argv sfile user defaults world f1 f2 f3 = .ran r st)
    (hno : ∀ files vals filters, mainSettings argv sfile user defaults = some (.ok (files, vals, filters)) →
      Vals.str? vals "output.directory" = none) :
    r.writes = [] := by
  obtain ⟨files, vals, filters, cs, hm, _, hrun⟩ := cminxMain_ran h
  have hs : (walkCfgOfSettings vals (aggCfgOfSettings vals f1 f2 f3)).toStdout = true := by
    simp [walkCfgOfSettings, hno files vals filters hm]
  have := C18_none_runMain hs (files.map (fun f => mainInputOf cs (world f))) {}
  rw [← hrun] at this
  exact this

/-- … and if some source sets it, nothing is printed: the pages go to files only -/
theorem CMain_output_nothing_printed {argv : List Str} {sfile : Str → Source} {user defaults : Source} {world : Str → World}
    {f1 f2 f3 : Str → Str} {r : RunResult} {st : Status}
    (h : cminxMain argv sfile user defaults world f1 f2 f3 = .ran r st)
    (hout : ∀ files vals filters, mainSettings argv sfile user defaults = some (.ok (files, vals, filters)) →
      ∃ d, Vals.str? vals "output.directory" = some d) :
    r.stdout = [] := by
  obtain ⟨files, vals, filters, cs, hm, _, hrun⟩ := cminxMain_ran h
  obtain ⟨d, hd⟩ := hout files vals filters hm
  have hs : (walkCfgOfSettings vals (aggCfgOfSettings vals f1 f2 f3)).toStdout = false := by
    simp [walkCfgOfSettings, hd]
  have := C18_file_mode_silent_runMain hs (files.map (fun f => mainInputOf cs (world f))) {}
  rw [← hrun] at this
  exact this

/-- a command line argparse rejects documents nothing -/
theorem CMain_usage {argv : List Str} (h : parseArgv argv {} = none) (sfile : Str → Source) (user defaults : Source)
    (world : Str → World) (f1 f2 f3 : Str → Str) :
    (match cminxMain argv sfile user defaults world f1 f2 f3 with | .usage => true | _ => false) = true := by
  unfold cminxMain mainSettings
  rw [h]

/-! ## the settings the walk reads are the values in effect -/

theorem mapM_except_fst {α β ε : Type} (f : α → Except ε β) (g : α → γ) (g' : β → γ) (hg : ∀ a b, f a = .ok b → g' b = g a) :
    ∀ (l : List α) (out : List β), l.mapM f = .ok out → out.map g' = l.map g := by
  intro l
  induction l with
  | nil => intro out h; simp [List.mapM_nil, pure, Except.pure] at h; subst h; rfl
  | cons x xs ih =>
    intro out h
    simp only [List.mapM_cons] at h
    cases hx : f x with
    | error e => simp [hx, bind, Except.bind] at h
    | ok b =>
      cases hxs : xs.mapM f with
      | error e => simp [hx, hxs, bind, Except.bind] at h
      | ok bs =>
        simp [hx, hxs, bind, Except.bind, pure, Except.pure] at h
        subst h
        simp [hg x b hx, ih bs hxs]

/-- a successful resolution lists the options of the table, in the table's order -/
theorem C16_resolveAll_keys (sources : List Source) (vals : Vals) (h : resolveAll sources = .ok vals) :
    vals.map (·.1) = optionTable.map (·.1) := by
  unfold resolveAll at h
  refine mapM_except_fst _ (·.1) (·.1) ?_ optionTable vals h
  intro a b hab
  obtain ⟨k, ty⟩ := a
  simp only at hab
  cases hr : resolveOpt sources k ty with
  | error e => simp [hr, bind, Except.bind] at hab
  | ok v => simp [hr, bind, Except.bind, pure, Except.pure] at hab; subst hab; rfl

theorem lookup_of_mem_nodup {β : Type} : ∀ (l : List (Str × β)) (k : Str) (v : β), (l.map (·.1)).Nodup → (k, v) ∈ l → l.lookup k = some v := by
  intro l
  induction l with
  | nil => intro k v _ h; cases h
  | cons x xs ih =>
    intro k v hn h
    obtain ⟨k', v'⟩ := x
    simp only [List.map_cons, List.nodup_cons] at hn
    rcases List.mem_cons.mp h with heq | hmem
    · cases heq; simp [List.lookup]
    · have hne : k ≠ k' := by
        intro e; subst e
        exact hn.1 (List.mem_map.mpr ⟨(k, v), hmem, rfl⟩)
      have : (k == k') = false := by simpa using hne
      simp [List.lookup, this, ih k v hn.2 hmem]

/-- what the lower layers read from the settings object is the value in effect -/
theorem C16_vals_get (sources : List Source) (vals : Vals) (h : resolveAll sources = .ok vals) (k : String) (ty : CType)
    (hk : (lit k, ty) ∈ optionTable) : Vals.get vals k = effective sources (lit k) := by
  have hmem := C16_resolveAll_lookup sources vals h (lit k) ty hk
  have hnd : (vals.map (·.1)).Nodup := by rw [C16_resolveAll_keys sources vals h]; decide
  unfold Vals.get
  rw [lookup_of_mem_nodup vals (lit k) _ hnd hmem]
  cases effective sources (lit k) <;> rfl

/-- `-r` on the command line makes the walk recursive, whatever the files say -/
theorem CMain_recursive_from_argv (argv : List Str) (sfile : Str → Source) (user defaults : Source)
    (files : List Str) (vals : Vals) (filters : List CVal)
    (h : mainSettings argv sfile user defaults = some (.ok (files, vals, filters)))
    (p : Parsed) (hp : parseArgv argv {} = some p) (hr : p.recursive = true) (agg : Cfg) :
    (walkCfgOfSettings vals agg).recursive = true := by
  unfold mainSettings at h
  rw [hp] at h
  simp only [Option.some.injEq] at h
  split at h
  · cases h
  · rename_i vals' filters' hres
    simp only [Except.ok.injEq, Prod.mk.injEq] at h
    obtain ⟨_, hvals, _⟩ := h
    subst hvals
    obtain ⟨_, _, hall⟩ := C16_filters_main _ _ _ hres
    have hg := C16_vals_get _ _ hall "input.recursive" .bool (by decide)
    rw [C16_cli_recursive_wins p hr] at hg
    simp [walkCfgOfSettings, Vals.bool, hg]

/-- … and without `-r` the walk is recursive iff the highest-priority *file* that sets `input.recursive` says so -/
theorem CMain_recursive_from_files (argv : List Str) (sfile : Str → Source) (user defaults : Source)
    (files : List Str) (vals : Vals) (filters : List CVal)
    (h : mainSettings argv sfile user defaults = some (.ok (files, vals, filters)))
    (p : Parsed) (hp : parseArgv argv {} = some p) (hr : p.recursive = false) (agg : Cfg) (b : Bool)
    (he : effective [(match p.settings with | some f => sfile f | none => []), user, defaults] (lit "input.recursive") = some (.bool b)) :
    (walkCfgOfSettings vals agg).recursive = b := by
  unfold mainSettings at h
  rw [hp] at h
  simp only [Option.some.injEq] at h
  split at h
  · cases h
  · rename_i vals' filters' hres
    simp only [Except.ok.injEq, Prod.mk.injEq] at h
    obtain ⟨_, hvals, _⟩ := h
    subst hvals
    obtain ⟨_, _, hall⟩ := C16_filters_main _ _ _ hres
    have hg := C16_vals_get _ _ hall "input.recursive" .bool (by decide)
    rw [C16_cli_recursive_absent p hr] at hg
    have hg' : Vals.get vals' "input.recursive" = some (.bool b) := hg.trans he
    simp [walkCfgOfSettings, Vals.bool, hg']

/-! ## exclusion patterns at the level of the whole program (C15: "regardless of which source supplied the pattern") -/

/-- a pattern of any of the three sources is among the patterns in effect -/
theorem allContents_mem (sources : List Source) (src : Source) (l : List CVal) (v : CVal)
    (hs : src ∈ sources) (hl : src.get filtersKey = some (.list l)) (hv : v ∈ l) :
    v ∈ allContents sources filtersKey := by
  unfold allContents
  rw [List.mem_flatMap]
  exact ⟨.list l, List.mem_filterMap.mpr ⟨src, hs, hl⟩, hv⟩

theorem mem_patternStrs {filters : List CVal} {n : Str} (h : CVal.str n ∈ filters) : n ∈ patternStrs filters := by
  unfold patternStrs
  exact List.mem_filterMap.mpr ⟨.str n, h, rfl⟩

/-- "regardless of which source supplied the pattern": a pattern given with `-e`, in the `-s` file or in the user file is among the patterns
    the run compiles -/
theorem CMain_pattern_from_any_source (argv : List Str) (sfile : Str → Source) (user defaults : Source)
    (files : List Str) (vals : Vals) (filters : List CVal)
    (h : mainSettings argv sfile user defaults = some (.ok (files, vals, filters)))
    (p : Parsed) (hp : parseArgv argv {} = some p) (n : Str)
    (hsrc : n ∈ p.excludes ∨
      (∃ l, (match p.settings with | some f => sfile f | none => []).get filtersKey = some (.list l) ∧ CVal.str n ∈ l) ∨
      (∃ l, user.get filtersKey = some (.list l) ∧ CVal.str n ∈ l)) :
    n ∈ patternStrs filters := by
  unfold mainSettings at h
  rw [hp] at h
  simp only [Option.some.injEq] at h
  split at h
  · cases h
  · rename_i vals' filters' hres
    simp only [Except.ok.injEq, Prod.mk.injEq] at h
    obtain ⟨_, _, hf⟩ := h
    subst hf
    obtain ⟨_, hfs, _⟩ := C16_filters_main _ _ _ hres
    rw [hfs]
    apply mem_patternStrs
    simp only [List.take]
    rcases hsrc with hcli | ⟨l, hl, hv⟩ | ⟨l, hl, hv⟩
    · have hne : p.excludes ≠ [] := by intro e; rw [e] at hcli; cases hcli
      refine allContents_mem _ (cliSource p) (p.excludes.map CVal.str) _ (List.mem_cons_self ..) ?_ (List.mem_map.mpr ⟨n, hcli, rfl⟩)
      rw [cliSource_get_filters p]
      have : p.excludes.isEmpty = false := by cases hx : p.excludes with
        | nil => exact absurd hx hne
        | cons a b => rfl
      simp [this]
    · exact allContents_mem _ _ l _ (List.mem_cons_of_mem _ (List.mem_cons_self ..)) hl hv
    · exact allContents_mem _ user l _ (List.mem_cons_of_mem _ (List.mem_cons_of_mem _ (List.mem_cons_self ..))) hl hv

/-- C15 at the level of the whole program, for bare names: whichever source supplied the name, an entry of the walk is excluded iff its
    absolute path has a component of one of the names — directories (not descended into) and files alike, for every input of the command line -/
theorem CMain_bare_names_exclude_iff (filters : List CVal) (cs : List Glob.Compiled)
    (hc : Glob.compileAll (patternStrs filters) = .ok cs) (hpl : ∀ q ∈ patternStrs filters, Glob.Plain q)
    (w : World) (habs : w.absPath ≠ []) (rel : List Str) (hp : Glob.PathOk (w.absPath ++ rel)) (isDir : Bool) :
    (mainInputOf cs w).excl rel isDir = (patternStrs filters).any (fun n => decide (n ∈ w.absPath ++ rel)) := by
  obtain ⟨cs', hc', hex⟩ := Glob.C15G_exclOf_bare (patternStrs filters) hpl w.absPath rel hp habs isDir
  rw [hc] at hc'
  cases hc'
  simpa [mainInputOf] using hex

end Cminx
