import CminxModel.Main
import CminxProps.C18
import CminxProps.C16Cli
/-!
# Program-level corollaries: `cminx <argv>` as one function (`Main.cminxMain`)

The per-layer theorems composed along the path a command line takes: parser → command-line source → layering → settings →
exclusion → walk → pages.
-/
namespace Cminx

/-- the outcome of a run that got as far as documenting: the pieces `cminxMain` is made of -/
theorem cminxMain_ran {argv : List Str} {sfile : Str → Source} {user defaults : Source} {world : Str → World}
    {f1 f2 f3 : Str → Str} {r : RunResult} {st : Status}
    (h : cminxMain argv sfile user defaults world f1 f2 f3 = .ran r st) :
    ∃ files vals filters cs, mainSettings argv sfile user defaults = some (.ok (files, vals, filters)) ∧
      Glob.compileAll (patternStrs filters) = .ok cs ∧
      (r, st) = runMain (walkCfgOfSettings vals (aggCfgOfSettings vals f1 f2 f3)) (files.map (fun f => mainInputOf cs (world f))) {} := by
  unfold cminxMain at h
  split at h
  · cases h
  · cases h
  · rename_i files vals filters hm
    split at h
    · cases h
    · cases h
    · rename_i cs hc
      simp only [MainOutcome.ran.injEq] at h
      exact ⟨files, vals, filters, cs, hm, hc, by rw [← h.1, ← h.2]⟩

/-- C18 for the whole command line: if no source sets `output.directory` the run writes no file at all, whatever the inputs, the
    patterns and the other settings are -/
theorem CMain_no_output_no_writes {argv : List Str} {sfile : Str → Source} {user defaults : Source} {world : Str → World}
    {f1 f2 f3 : Str → Str} {r : RunResult} {st : Status}
    (h : cminxMain argv sfile user defaults world f1 f2 f3 = .ran r st)
    (hno : ∀ files vals filters, mainSettings argv sfile user defaults = some (.ok (files, vals, filters)) →
      Vals.str? vals "output.directory" = none) :
    r.writes = [] := by
  obtain ⟨files, vals, filters, cs, hm, _, hrun⟩ := cminxMain_ran h
  have hs : (walkCfgOfSettings vals (aggCfgOfSettings vals f1 f2 f3)).toStdout = true := by
    simp [walkCfgOfSettings, hno files vals filters hm]
  have := C18_none_runMain hs (files.map (fun f => mainInputOf cs (world f))) {}
  rw [← hrun] at this
  exact this

/-- … and if some source sets it, nothing is printed: the pages go to files only -/
theorem CMain_output_nothing_printed {argv : List Str} {sfile : Str → Source} {user defaults : Source} {world : Str → World}
    {f1 f2 f3 : Str → Str} {r : RunResult} {st : Status}
    (h : cminxMain argv sfile user defaults world f1 f2 f3 = .ran r st)
    (hout : ∀ files vals filters, mainSettings argv sfile user defaults = some (.ok (files, vals, filters)) →
      ∃ d, Vals.str? vals "output.directory" = some d) :
    r.stdout = [] := by
  obtain ⟨files, vals, filters, cs, hm, _, hrun⟩ := cminxMain_ran h
  obtain ⟨d, hd⟩ := hout files vals filters hm
  have hs : (walkCfgOfSettings vals (aggCfgOfSettings vals f1 f2 f3)).toStdout = false := by
    simp [walkCfgOfSettings, hd]
  have := C18_file_mode_silent_runMain hs (files.map (fun f => mainInputOf cs (world f))) {}
  rw [← hrun] at this
  exact this

/-- a command line argparse rejects documents nothing -/
theorem CMain_usage {argv : List Str} (h : parseArgv argv {} = none) (sfile : Str → Source) (user defaults : Source)
    (world : Str → World) (f1 f2 f3 : Str → Str) :
    (match cminxMain argv sfile user defaults world f1 f2 f3 with | .usage => true | _ => false) = true := by
  unfold cminxMain mainSettings
  rw [h]

end Cminx
