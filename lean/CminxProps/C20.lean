import CminxLemmas.RstLemmas
/-!
# C20 — `RSTWriter` serialisation

Property theorems about the model in `CminxModel/Rst.lean` (`Doc.render` = `RSTWriter.to_text()`).

## Purity / repeatability (item 8 — deliberately *not* a theorem)

In the model, serialisation is a pure function `Doc.render : Doc → Str`: it takes the document and returns
text; there is no state it could change, so "serialising twice gives the same text and leaves the document
unchanged" is `rfl` here and stating it would be vacuous.  That the *Python* object behaves like this
(`to_text()` is repeatable and does not mutate the writer) is carried by the correspondence check, not by a
theorem: the harness pickles the writer before and after every `to_text()` call, compares the pickles, and
compares every repeated serialisation against `Doc.render` of the same history.

## Contents
* spec-side definitions (`lastRootTitle`, `elemsAt`, `Doc.elemAt`, `Doc.childrenAt`, `itemMarker`,
  `Op.optionAt`, `optsOf`, `NoAncestorClear`, `Op.appended`),
* bridging lemmas from the spec-side definitions to the lemma library (`Elem.sub`),
* the property theorems `C20_*` (listed in `C20.theorems`),
* `example`s instantiating every theorem on a concrete document.
-/
namespace Cminx

/-! ## Spec-side definitions -/

/-- the title a root writer has after the history `ops`, if it was `t0` before: the argument of the last
    `title = …` assignment on the root handle `[]`, or `t0` if there is none -/
def lastRootTitle (t0 : Str) : List Op → Str
  | [] => t0
  | .setTitle [] t :: ops => lastRootTitle t ops
  | _ :: ops => lastRootTitle t0 ops

/-- the element addressed by a path of child indices in a list of elements:
    `[i]` is the `i`-th element, `i :: rest` descends into the body of the directive at index `i`;
    `none` for `[]`, an index out of range, or descending into something that is not a directive -/
def elemsAt : List Elem → List Nat → Option Elem
  | _, [] => none
  | es, [i] => es[i]?
  | es, i :: j :: rest =>
    match es[i]? with
    | some (.directive _ _ _ body) => elemsAt body (j :: rest)
    | _ => none

/-- the element of a document addressed by a path (see `elemsAt`) -/
def Doc.elemAt (w : Doc) (p : List Nat) : Option Elem := elemsAt w.body p

/-- the children of the writer a handle points at: the document body for the root handle `[]`,
    the body of the directive for a handle that resolves to a directive, `none` for an invalid handle -/
def Doc.childrenAt (w : Doc) : List Nat → Option (List Elem)
  | [] => some w.body
  | i :: p =>
    match w.elemAt (i :: p) with
    | some (.directive _ _ _ body) => some body
    | _ => none

/-- the marker of the list item with zero-based index `i` -/
def itemMarker (enumerated : Bool) (i : Nat) : Str :=
  if enumerated then natStr (i + 1) ++ lit ". " else lit "* "

/-- the option an operation adds to the directive with handle `h` (as a list of length ≤ 1) -/
def Op.optionAt (h : List Nat) : Op → List (Str × Str)
  | .option h' n v => if h' = h then [(n, v)] else []
  | _ => []

/-- the options added by `option` calls on handle `h` in the history `ops`, in call order -/
def optsOf (h : List Nat) : List Op → List (Str × Str)
  | [] => []
  | op :: ops => op.optionAt h ++ optsOf h ops

/-- the history never calls `clear()` on a strict ancestor of `h`
    (which would delete the directive `h` points at) -/
def NoAncestorClear (h : List Nat) (ops : List Op) : Prop :=
  ∀ p, Op.clear p ∈ ops → p <+: h → p = h

/-- the element an appending API call (`text`, `field`, `bulleted_list`/`enumerated_list`, `directive`) adds -/
def Op.appended : Op → Option Elem
  | .text _ t => some (.para t)
  | .field _ n t => some (.field n t)
  | .list _ en items => some (.list en items)
  | .directive _ name args => some (.directive name args [] [])
  | _ => none

/-! ## Bridging lemmas (spec-side definitions ↔ lemma library) -/

private theorem elemsAt_cons (es : List Elem) (i : Nat) (rest : List Nat) :
    elemsAt es (i :: rest) = (es[i]?).bind (·.sub rest) := by
  induction rest generalizing es i with
  | nil => cases h : es[i]? <;> simp [elemsAt, h]
  | cons j r ih =>
    simp only [elemsAt]
    cases h : es[i]? with
    | none => simp
    | some c =>
      cases c with
      | directive name args opts body => simp [ih, Elem.sub_cons, Elem.children]
      | para t => simp [Elem.sub_cons, Elem.children]
      | field n t => simp [Elem.sub_cons, Elem.children]
      | list en items => simp [Elem.sub_cons, Elem.children]

private theorem elemAt_nil (w : Doc) : w.elemAt [] = none := by simp [Doc.elemAt, elemsAt]

private theorem elemAt_cons (w : Doc) (i : Nat) (rest : List Nat) :
    w.elemAt (i :: rest) = w.asElem.sub (i :: rest) := by
  simp [Doc.elemAt, elemsAt_cons, Elem.sub_cons]

private theorem elemAt_ne_nil {w : Doc} {p : List Nat} (hp : p ≠ []) : w.elemAt p = w.asElem.sub p := by
  cases p with
  | nil => exact absurd rfl hp
  | cons i rest => exact elemAt_cons w i rest

private theorem ne_nil_of_elemAt {w : Doc} {p : List Nat} {e : Elem} (h : w.elemAt p = some e) : p ≠ [] := by
  rintro rfl
  simp [elemAt_nil] at h

private theorem sub_of_elemAt {w : Doc} {p : List Nat} {e : Elem} (h : w.elemAt p = some e) :
    w.asElem.sub p = some e := by
  rw [← elemAt_ne_nil (ne_nil_of_elemAt h)]; exact h

/-- `elemAt` after an update, in terms of the pseudo-directive -/
private theorem elemAt_update {w : Doc} {nop : NodeOp} {h p : List Nat} (hp : p ≠ []) :
    (w.update nop h).elemAt p = (w.asElem.update nop h).sub p := by
  cases p with
  | nil => exact absurd rfl hp
  | cons i rest => rw [elemAt_cons, Doc.asElem_update_sub]

private theorem childrenAt_iff (w : Doc) (h : List Nat) (body : List Elem) :
    w.childrenAt h = some body ↔ ∃ n a o, w.asElem.sub h = some (.directive n a o body) := by
  cases h with
  | nil => simp [Doc.childrenAt, Doc.asElem]
  | cons i p =>
    simp only [Doc.childrenAt, elemAt_cons]
    cases hs : w.asElem.sub (i :: p) with
    | none => simp
    | some c => cases c <;> simp

private theorem apply_eq (w : Doc) (op : Op) : w.apply op = w.update op.nodeOp op.handle := rfl

/-! ## 1. The title frame -/

/-- The heading is the title framed by an over- and underline of the header character repeated to the
    title's length. -/
theorem C20_frame (c : Char) (title : Str) :
    renderHeading [c] title =
      '\n' :: (List.replicate title.length c ++ '\n' :: (title ++ '\n' :: List.replicate title.length c)) := by
  simp [renderHeading, repeatStr_single_char]

/-- A serialised document begins with the framed title, followed by the body elements in order. -/
theorem C20_frame_doc (w : Doc) :
    w.render = renderHeading w.hc w.title ++ ['\n'] ++ renderElems 0 w.body := by
  simp [Doc.render]

/-- No operation changes the header character, and the title is the last one assigned on the root. -/
theorem C20_reframe (w : Doc) (ops : List Op) :
    (w.run ops).hc = w.hc ∧ (w.run ops).title = lastRootTitle w.title ops := by
  induction ops generalizing w with
  | nil => exact ⟨rfl, rfl⟩
  | cons op ops ih =>
    rw [Doc.run_cons]
    obtain ⟨h1, h2⟩ := ih (w.apply op)
    refine ⟨by rw [h1, apply_eq, Doc.update_hc], ?_⟩
    rw [h2]
    cases op with
    | text h t => cases h <;> simp [lastRootTitle, Doc.apply, Doc.update, Op.nodeOp, Op.handle]
    | field h n t => cases h <;> simp [lastRootTitle, Doc.apply, Doc.update, Op.nodeOp, Op.handle]
    | list h en items => cases h <;> simp [lastRootTitle, Doc.apply, Doc.update, Op.nodeOp, Op.handle]
    | directive h name args => cases h <;> simp [lastRootTitle, Doc.apply, Doc.update, Op.nodeOp, Op.handle]
    | option h n v => cases h <;> simp [lastRootTitle, Doc.apply, Doc.update, Op.nodeOp, Op.handle]
    | setTitle h t => cases h <;> simp [lastRootTitle, Doc.apply, Doc.update, Op.nodeOp, Op.handle]
    | clear h => cases h <;> simp [lastRootTitle, Doc.apply, Doc.update, Op.nodeOp, Op.handle]

/-- Hence, after any history, the document is framed by its *current* title (re-framed on every change). -/
theorem C20_reframe_render (w : Doc) (c : Char) (hc : w.hc = [c]) (ops : List Op) :
    let t := lastRootTitle w.title ops
    (w.run ops).render =
      '\n' :: (List.replicate t.length c ++ '\n' :: (t ++ '\n' :: List.replicate t.length c))
        ++ ['\n'] ++ renderElems 0 (w.run ops).body := by
  intro t
  rw [C20_frame_doc, (C20_reframe w ops).1, (C20_reframe w ops).2, hc, C20_frame]

/-! ## 2. Lines and indentation -/

/-- `get_indents(d)` is `3*d` characters long … -/
theorem C20_indent_length (d : Nat) : (indent d).length = 3 * d := indent_length d

/-- … all of which are spaces. -/
theorem C20_indent_spaces (d : Nat) : ∀ c ∈ indent d, c = ' ' := indent_spaces d

/-- Every line of a paragraph (single- or multi-line, with its own leading spaces) is emitted as
    the indent followed by exactly that line. -/
theorem C20_para_lines (d : Nat) (t : Str) :
    splitNl (renderPara d t) = (splitNl t).map (indent d ++ ·) := renderPara_lines d t

/-- A field is a blank line followed by the line `indent ++ ":name: text"`. -/
theorem C20_field_line (d : Nat) (n t : Str) :
    renderField d n t = '\n' :: (indent d ++ (':' :: n ++ ':' :: ' ' :: t)) := by
  simp [renderField]

/-- A list is a blank line followed by one `'\n'`-terminated chunk `indent ++ marker ++ item` per item, in order. -/
theorem C20_item_lines (d : Nat) (en : Bool) (items : List Str) :
    renderList d en items =
      '\n' :: (items.mapIdx fun i it => indent d ++ (itemMarker en i ++ it) ++ ['\n']).flatten := by
  simp only [renderList, renderItems_eq, List.cons.injEq, true_and]
  congr 1
  cases en <;> simp [itemMarker, lit]

/-- Line view of the same fact: if no item contains a newline, a list is a blank line, then exactly one line
    `indent ++ marker ++ item` per item, in order (the final `[]` is the piece after the last `'\n'`).
    (An item that itself contains `'\n'` is emitted verbatim: its continuation lines are *not* indented, in the
    model as in `RSTList.build_list_string`; see the example at the end of this file.) -/
theorem C20_item_lines_split (d : Nat) (en : Bool) (items : List Str) (h : ∀ it ∈ items, '\n' ∉ it) :
    splitNl (renderList d en items) =
      [] :: (items.mapIdx fun i it => indent d ++ (itemMarker en i ++ it)) ++ [[]] := by
  rw [renderList_lines d en items h]
  cases en <;> simp [itemMarker, lit]

/-- Options are one `'\n'`-terminated chunk `indent ++ ":name: value"` per option, in order. -/
theorem C20_option_lines (d : Nat) (opts : List (Str × Str)) :
    renderOpts d opts =
      (opts.map fun nv => indent d ++ (':' :: nv.1 ++ ':' :: ' ' :: nv.2) ++ ['\n']).flatten := by
  simp [renderOpts_eq]

/-- A directive heading is a blank line followed by the line `indent ++ ".. name:: args"`. -/
theorem C20_heading_line (d : Nat) (name : Str) (args : List Str) :
    renderDirHeading d name args = '\n' :: (indent d ++ (lit ".. " ++ name ++ lit ":: " ++ joinWith [','] args)) := by
  simp [renderDirHeading]

/-! ## 3. An element inside `k` nested directives is rendered at indent depth `k` -/

theorem C20_subtree (w : Doc) (h : List Nat) (e : Elem) (he : w.elemAt h = some e) :
    ∃ pre post, w.render = pre ++ e.render (h.length - 1) ++ post := by
  cases h with
  | nil => simp [elemAt_nil] at he
  | cons i rest =>
    rw [elemAt_cons, Elem.sub_cons, Doc.asElem_children] at he
    cases hc : w.body[i]? with
    | none => simp [hc] at he
    | some c =>
      simp only [hc, Option.bind_some] at he
      obtain ⟨pre₁, post₁, h₁⟩ := Elem.render_sub 0 he
      obtain ⟨pre₂, post₂, h₂⟩ := renderElems_getElem? (d := 0) hc
      refine ⟨renderHeading w.hc w.title ++ '\n' :: pre₂ ++ pre₁, post₁ ++ post₂, ?_⟩
      rw [Doc.render, h₂, h₁]
      simp

/-- The same, one level down: the children of the writer at handle `h` are rendered, in order and as a
    contiguous block, at indent depth `h.length`. -/
theorem C20_children_block (w : Doc) (h : List Nat) (body : List Elem) (hv : w.childrenAt h = some body) :
    ∃ pre post, w.render = pre ++ renderElems h.length body ++ post := by
  cases h with
  | nil =>
    simp only [Doc.childrenAt, Option.some.injEq] at hv
    subst hv
    exact ⟨renderHeading w.hc w.title ++ ['\n'], [], by simp [Doc.render]⟩
  | cons i p =>
    obtain ⟨n, a, o, hs⟩ := (childrenAt_iff w (i :: p) body).1 hv
    rw [← elemAt_cons] at hs
    obtain ⟨pre, post, hr⟩ := C20_subtree w (i :: p) _ hs
    refine ⟨pre ++ (renderDirHeading p.length n a ++ '\n' :: renderOpts (p.length + 1) o
      ++ (if body.isEmpty then [] else ['\n'])), post, ?_⟩
    rw [hr, render_directive]
    simp

/-! ## 4. Where added elements go -/

/-- An appending call on a valid handle (root or directive) with `k` children puts the new element at child
    index `k` of that node — hence, by `C20_subtree`, at indent depth `h.length` — and the node's children are
    the old ones followed by the new one. -/
theorem C20_added_at_depth (w : Doc) (op : Op) (e : Elem) (body : List Elem)
    (hop : op.nodeOp = .append e) (hv : w.childrenAt op.handle = some body) :
    (w.apply op).elemAt (op.handle ++ [body.length]) = some e ∧
    (w.apply op).childrenAt op.handle = some (body ++ [e]) := by
  obtain ⟨n, a, o, hs⟩ := (childrenAt_iff w _ body).1 hv
  have hupd : (w.asElem.update (.append e) op.handle).sub op.handle = some (.directive n a o (body ++ [e])) := by
    have := Elem.sub_update_prefix (.append e) w.asElem op.handle []
    simpa [hs] using this
  constructor
  · rw [apply_eq, hop, elemAt_update (by simp), Elem.sub_append, hupd]
    simp [Elem.sub_cons, Elem.children]
  · rw [childrenAt_iff]
    refine ⟨n, a, o, ?_⟩
    rw [apply_eq, hop]
    cases hh : op.handle with
    | nil =>
      rw [hh] at hs
      simp only [Elem.sub_nil, Option.some.injEq, Doc.asElem, Elem.directive.injEq] at hs
      obtain ⟨rfl, rfl, rfl, rfl⟩ := hs
      simp [Doc.update, Doc.asElem]
    | cons i p =>
      rw [hh] at hupd
      rw [Doc.asElem_update_sub, hupd]

/-- An appending call leaves every previously existing element in place, except the ancestors of the
    insertion point (whose bodies grew; see `C20_ancestors`). -/
theorem C20_added_preserves (w : Doc) (op : Op) (e : Elem) (hop : op.nodeOp = .append e)
    (p : List Nat) (x : Elem) (hp : ¬ p <+: op.handle) (hx : w.elemAt p = some x) :
    (w.apply op).elemAt p = some x := by
  rw [apply_eq, hop, elemAt_update (ne_nil_of_elemAt hx)]
  exact Elem.sub_update_other hp (Or.inl (by simp)) (sub_of_elemAt hx)

/-- Any operation (appending, `option`, title change, `clear`) on a handle strictly below the directive at `p`
    leaves that directive's heading and options unchanged and does not change its number of children. -/
theorem C20_ancestors (w : Doc) (op : Op) (p : List Nat) (i : Nat) (q : List Nat)
    (hh : op.handle = p ++ i :: q) (name : Str) (args : List Str) (opts : List (Str × Str)) (b : List Elem)
    (hp : w.elemAt p = some (.directive name args opts b)) :
    ∃ b', (w.apply op).elemAt p = some (.directive name args opts b') ∧ b'.length = b.length := by
  refine ⟨updateAt op.nodeOp i q b, ?_, updateAt_length _ _ _ _⟩
  rw [apply_eq, hh, elemAt_update (ne_nil_of_elemAt hp), Elem.sub_update_prefix, sub_of_elemAt hp]
  simp

/-- … and, exactly: the ancestor at `p` is updated by the model's `Elem.update` along the rest of the handle. -/
theorem C20_ancestors_exact (w : Doc) (op : Op) (p q : List Nat) (hp : p ≠ []) (hh : op.handle = p ++ q) :
    (w.apply op).elemAt p = (w.elemAt p).map (Elem.update op.nodeOp q) := by
  rw [apply_eq, hh, elemAt_update hp, Elem.sub_update_prefix, elemAt_ne_nil hp]

/-- Any operation leaves the elements at paths that neither lead to nor lie below its handle untouched. -/
theorem C20_elsewhere (w : Doc) (op : Op) (p : List Nat) (x : Elem)
    (hp : ¬ p <+: op.handle) (hp' : ¬ op.handle <+: p) (hx : w.elemAt p = some x) :
    (w.apply op).elemAt p = some x := by
  rw [apply_eq, elemAt_update (ne_nil_of_elemAt hx)]
  exact Elem.sub_update_other hp (Or.inr hp') (sub_of_elemAt hx)

/-- The spec-side `Op.appended` agrees with the model's classification of operations. -/
theorem C20_appended_spec (op : Op) (e : Elem) : op.appended = some e ↔ op.nodeOp = .append e := by
  cases op <;> simp [Op.appended, Op.nodeOp]

/-- `text` -/
theorem C20_added_text (w : Doc) (h : List Nat) (t : Str) (body : List Elem) (hv : w.childrenAt h = some body) :
    (w.apply (.text h t)).elemAt (h ++ [body.length]) = some (.para t) ∧
    (w.apply (.text h t)).childrenAt h = some (body ++ [.para t]) :=
  C20_added_at_depth w (.text h t) _ body rfl hv

/-- `field` -/
theorem C20_added_field (w : Doc) (h : List Nat) (n t : Str) (body : List Elem) (hv : w.childrenAt h = some body) :
    (w.apply (.field h n t)).elemAt (h ++ [body.length]) = some (.field n t) ∧
    (w.apply (.field h n t)).childrenAt h = some (body ++ [.field n t]) :=
  C20_added_at_depth w (.field h n t) _ body rfl hv

/-- `bulleted_list` / `enumerated_list` -/
theorem C20_added_list (w : Doc) (h : List Nat) (en : Bool) (items : List Str) (body : List Elem)
    (hv : w.childrenAt h = some body) :
    (w.apply (.list h en items)).elemAt (h ++ [body.length]) = some (.list en items) ∧
    (w.apply (.list h en items)).childrenAt h = some (body ++ [.list en items]) :=
  C20_added_at_depth w (.list h en items) _ body rfl hv

/-- `directive`: the new directive has no options and no content, and `h ++ [k]` is its handle -/
theorem C20_added_directive (w : Doc) (h : List Nat) (name : Str) (args : List Str) (body : List Elem)
    (hv : w.childrenAt h = some body) :
    (w.apply (.directive h name args)).elemAt (h ++ [body.length]) = some (.directive name args [] []) ∧
    (w.apply (.directive h name args)).childrenAt h = some (body ++ [.directive name args [] []]) ∧
    (w.apply (.directive h name args)).childrenAt (h ++ [body.length]) = some [] := by
  obtain ⟨h1, h2⟩ := C20_added_at_depth w (.directive h name args) _ body rfl hv
  refine ⟨h1, h2, ?_⟩
  simp only [Op.handle] at h1
  cases hh : h ++ [body.length] with
  | nil => simp at hh
  | cons i p => rw [hh] at h1; simp [Doc.childrenAt, h1]

/-! ## 5. Options come first -/

/-- A directive is rendered as: heading, then its options, then (after a blank line, if there is content) its
    content one level deeper. -/
theorem C20_options_first (d : Nat) (name : Str) (args : List Str) (opts : List (Str × Str)) (body : List Elem) :
    (Elem.directive name args opts body).render d =
      renderDirHeading d name args ++ '\n' :: renderOpts (d + 1) opts
        ++ (if body.isEmpty then [] else ['\n']) ++ renderElems (d + 1) body :=
  render_directive d name args opts body

/-- `option` on a directive handle appends to that directive's options and leaves its heading and content alone. -/
theorem C20_option_step (w : Doc) (h : List Nat) (n v : Str) (name : Str) (args : List Str)
    (opts : List (Str × Str)) (body : List Elem) (hd : w.elemAt h = some (.directive name args opts body)) :
    (w.apply (.option h n v)).elemAt h = some (.directive name args (opts ++ [(n, v)]) body) := by
  have := C20_ancestors_exact w (.option h n v) h [] (ne_nil_of_elemAt hd) (by simp [Op.handle])
  rw [this, hd]
  simp [Op.nodeOp]

/-- An appending call on a directive handle appends to its content and leaves its heading and options alone. -/
theorem C20_content_step (w : Doc) (op : Op) (e : Elem) (hop : op.nodeOp = .append e) (name : Str)
    (args : List Str) (opts : List (Str × Str)) (body : List Elem)
    (hd : w.elemAt op.handle = some (.directive name args opts body)) :
    (w.apply op).elemAt op.handle = some (.directive name args opts (body ++ [e])) := by
  have := C20_ancestors_exact w op op.handle [] (ne_nil_of_elemAt hd) (by simp)
  rw [this, hd, hop]
  simp

/-- One arbitrary step of a history: the directive at `h` keeps its arguments, and gains exactly the option (if
    any) this step adds on handle `h` — at the end of its option list — whatever else the step does. -/
theorem C20_options_any_step (w : Doc) (op : Op) (h : List Nat) (name : Str) (args : List Str)
    (opts : List (Str × Str)) (body : List Elem) (hd : w.elemAt h = some (.directive name args opts body))
    (hcl : ∀ p, op = .clear p → p <+: h → p = h) :
    ∃ name' body', (w.apply op).elemAt h = some (.directive name' args (opts ++ op.optionAt h) body') := by
  by_cases hpre : h <+: op.handle
  · obtain ⟨q, hq⟩ := hpre
    have := C20_ancestors_exact w op h q (ne_nil_of_elemAt hd) hq.symm
    rw [this, hd]
    cases q with
    | nil =>
      simp only [List.append_nil] at hq
      clear this hcl
      cases op <;> simp only [Op.handle] at hq <;> subst hq <;> simp [Op.nodeOp, Op.optionAt]
    | cons i q =>
      have hne : op.handle ≠ h := by rw [← hq]; simp
      refine ⟨name, updateAt op.nodeOp i q body, ?_⟩
      have hopt : op.optionAt h = [] := by
        clear this hcl hq
        cases op <;> simp only [Op.handle] at hne <;> simp [Op.optionAt, hne]
      simp [hopt]
  · have hne : op.handle ≠ h := by rintro rfl; exact hpre (List.prefix_refl _)
    refine ⟨name, body, ?_⟩
    have hopt : op.optionAt h = [] := by
      clear hcl hpre
      cases op <;> simp only [Op.handle] at hne <;> simp [Op.optionAt, hne]
    rw [hopt, List.append_nil, apply_eq, elemAt_update (ne_nil_of_elemAt hd)]
    refine Elem.sub_update_other hpre ?_ (sub_of_elemAt hd)
    by_cases hc : op.nodeOp = .clear
    · right
      intro hpre'
      cases op <;> simp [Op.nodeOp] at hc
      rename_i p
      exact hne (hcl p rfl hpre')
    · exact Or.inl hc

/-- Arbitrary interleavings: after any history that does not `clear()` an ancestor of the directive at `h`,
    that directive still has its arguments, and its options are the original ones followed by exactly the
    options added on handle `h`, in call order — irrespective of how `option` calls were interleaved with content
    calls, title changes and `clear()` on this or any other handle. -/
theorem C20_options_history (w : Doc) (ops : List Op) (h : List Nat) (name : Str) (args : List Str)
    (opts : List (Str × Str)) (body : List Elem) (hd : w.elemAt h = some (.directive name args opts body))
    (hcl : NoAncestorClear h ops) :
    ∃ name' body', (w.run ops).elemAt h = some (.directive name' args (opts ++ optsOf h ops) body') := by
  induction ops generalizing w name opts body with
  | nil => exact ⟨name, body, by simpa [optsOf, Doc.run_nil] using hd⟩
  | cons op ops ih =>
    obtain ⟨name₁, body₁, h₁⟩ := C20_options_any_step w op h name args opts body hd
      (fun p hp => hcl p (by simp [hp]))
    obtain ⟨name₂, body₂, h₂⟩ := ih (w.apply op) name₁ _ body₁ h₁
      (fun p hp => hcl p (List.mem_cons_of_mem _ hp))
    exact ⟨name₂, body₂, by rw [Doc.run_cons, h₂]; simp [optsOf]⟩

/-- The special case that makes the content explicit: a history consisting only of `option` calls and appending
    calls on the directive handle `h`, interleaved in any way, yields that directive with the options in call
    order and the added elements in call order. -/
theorem C20_options_interleaved (w : Doc) (ops : List Op) (h : List Nat) (name : Str) (args : List Str)
    (opts : List (Str × Str)) (body : List Elem) (hd : w.elemAt h = some (.directive name args opts body))
    (hops : ∀ op ∈ ops, op.handle = h ∧ (op.appended.isSome ∨ ∃ n v, op = .option h n v)) :
    (w.run ops).elemAt h =
      some (.directive name args (opts ++ optsOf h ops) (body ++ ops.filterMap Op.appended)) := by
  induction ops generalizing w opts body with
  | nil => simpa [optsOf, Doc.run_nil] using hd
  | cons op ops ih =>
    obtain ⟨hh, hk⟩ := hops op (by simp)
    have hrest := fun o ho => hops o (List.mem_cons_of_mem _ ho)
    rw [Doc.run_cons]
    rcases hk with ha | ⟨n, v, rfl⟩
    · obtain ⟨e, he⟩ := Option.isSome_iff_exists.1 ha
      have hop : op.nodeOp = .append e := by
        clear hops hrest hd ih
        cases op <;> simp_all [Op.appended, Op.nodeOp]
      have hopt : op.optionAt h = [] := by
        clear hops hrest hd ih hop
        cases op <;> simp_all [Op.appended, Op.optionAt]
      have := C20_content_step w op e hop name args opts body (hh ▸ hd)
      rw [hh] at this
      rw [ih (w.apply op) opts (body ++ [e]) this hrest]
      simp [optsOf, hopt, he]
    · have := C20_option_step w h n v name args opts body hd
      rw [ih _ (opts ++ [(n, v)]) body this hrest]
      have : Op.appended (.option h n v) = none := rfl
      simp [optsOf, Op.optionAt, this]

/-- … and therefore the serialised document contains that directive as heading, then all those options, then
    the content — the options sit between heading and content however the calls were interleaved. -/
theorem C20_options_history_render (w : Doc) (ops : List Op) (h : List Nat) (name : Str) (args : List Str)
    (opts : List (Str × Str)) (body : List Elem) (hd : w.elemAt h = some (.directive name args opts body))
    (hcl : NoAncestorClear h ops) :
    ∃ name' body' pre post, (w.run ops).render =
      pre ++ (renderDirHeading (h.length - 1) name' args ++ '\n' :: renderOpts (h.length - 1 + 1) (opts ++ optsOf h ops)
        ++ (if body'.isEmpty then [] else ['\n']) ++ renderElems (h.length - 1 + 1) body') ++ post := by
  obtain ⟨name', body', hr⟩ := C20_options_history w ops h name args opts body hd hcl
  obtain ⟨pre, post, hp⟩ := C20_subtree _ h _ hr
  exact ⟨name', body', pre, post, by rw [hp, render_directive]⟩

/-! ## 6. Order -/

/-- Elements are rendered one after the other in list order. -/
theorem C20_order (d : Nat) (es₁ es₂ : List Elem) :
    renderElems d (es₁ ++ es₂) = renderElems d es₁ ++ renderElems d es₂ := renderElems_append d es₁ es₂

/-- An appending call on the root appends the new element's text (and a newline) to the serialisation. -/
theorem C20_order_root (w : Doc) (op : Op) (e : Elem) (hop : op.nodeOp = .append e) (hh : op.handle = []) :
    (w.apply op).render = w.render ++ e.render 0 ++ ['\n'] := by
  simp [apply_eq, hop, hh, Doc.update, Doc.render, renderElems_append, renderElems_cons, renderElems_nil]

theorem C20_order_text (w : Doc) (t : Str) :
    (w.apply (.text [] t)).render = w.render ++ renderPara 0 t ++ ['\n'] := by
  rw [C20_order_root w _ (.para t) rfl rfl]; simp [Elem.render]

theorem C20_order_field (w : Doc) (n t : Str) :
    (w.apply (.field [] n t)).render = w.render ++ renderField 0 n t ++ ['\n'] := by
  rw [C20_order_root w _ (.field n t) rfl rfl]; simp [Elem.render]

theorem C20_order_list (w : Doc) (en : Bool) (items : List Str) :
    (w.apply (.list [] en items)).render = w.render ++ renderList 0 en items ++ ['\n'] := by
  rw [C20_order_root w _ (.list en items) rfl rfl]; simp [Elem.render]

theorem C20_order_directive (w : Doc) (name : Str) (args : List Str) :
    (w.apply (.directive [] name args)).render = w.render ++ renderDirHeading 0 name args ++ ['\n', '\n'] := by
  rw [C20_order_root w _ (.directive name args [] []) rfl rfl]
  simp [render_directive, renderOpts, renderElems_nil]

/-- A whole history of appending calls on the root: the serialisation grows by the added elements in call order. -/
theorem C20_order_history (w : Doc) (ops : List Op)
    (hops : ∀ op ∈ ops, op.handle = [] ∧ op.appended.isSome) :
    (w.run ops).render = w.render ++ renderElems 0 (ops.filterMap Op.appended) := by
  induction ops generalizing w with
  | nil => simp [Doc.run_nil, renderElems_nil]
  | cons op ops ih =>
    obtain ⟨hh, ha⟩ := hops op (by simp)
    obtain ⟨e, he⟩ := Option.isSome_iff_exists.1 ha
    have hop : op.nodeOp = .append e := by
      cases op <;> simp_all [Op.appended, Op.nodeOp]
    rw [Doc.run_cons, ih _ (fun o ho => hops o (List.mem_cons_of_mem _ ho)), C20_order_root w op e hop hh]
    simp [he, renderElems_cons]

/-! ## 7. `clear()` -/

/-- `clear()` on the root leaves just the framed title. -/
theorem C20_clear (w : Doc) : (w.apply (.clear [])).render = renderHeading w.hc w.title ++ ['\n'] := by
  simp [Doc.apply, Op.nodeOp, Op.handle, Doc.update, Doc.render, renderElems_nil]

/-- `clear()` on a directive handle empties exactly that directive's body: heading and options are kept,
    everything below is gone, and everything that is neither above nor below is untouched
    (ancestors: `C20_ancestors`). -/
theorem C20_clear_nested (w : Doc) (h : List Nat) (name : Str) (args : List Str) (opts : List (Str × Str))
    (body : List Elem) (hd : w.elemAt h = some (.directive name args opts body)) :
    (w.apply (.clear h)).elemAt h = some (.directive name args opts []) ∧
    (w.apply (.clear h)).childrenAt h = some [] ∧
    (∀ i q, (w.apply (.clear h)).elemAt (h ++ i :: q) = none) ∧
    (∀ p x, ¬ p <+: h → ¬ h <+: p → w.elemAt p = some x → (w.apply (.clear h)).elemAt p = some x) := by
  have h1 : (w.apply (.clear h)).elemAt h = some (.directive name args opts []) := by
    have := C20_ancestors_exact w (.clear h) h [] (ne_nil_of_elemAt hd) (by simp [Op.handle])
    rw [this, hd]
    simp [Op.nodeOp]
  refine ⟨h1, ?_, ?_, ?_⟩
  · cases h with
    | nil => exact absurd rfl (ne_nil_of_elemAt hd)
    | cons i p => simp [Doc.childrenAt, h1]
  · intro i q
    rw [elemAt_ne_nil (by simp), Elem.sub_append, ← elemAt_ne_nil (ne_nil_of_elemAt hd), h1]
    simp [Elem.sub_cons, Elem.children]
  · intro p x hp hp' hx
    exact C20_elsewhere w (.clear h) p x hp hp' hx

/-! ## Examples: every theorem instantiated on a concrete document -/

section Examples

/-- a history with a two-line paragraph, a directive with arguments, options added *after* content, a nested
    directive with a field and an enumerated list, a title change, and a bulleted list -/
private def exOps : List Op :=
  [.text [] (lit "a\n b"),
   .directive [] (lit "note") [lit "x", lit "y"],
   .text [1] (lit "in"),
   .option [1] (lit "k") (lit "v"),
   .directive [1] (lit "inner") [],
   .field [1, 1] (lit "f") (lit "g"),
   .setTitle [] (lit "Title"),
   .option [1] (lit "k2") [],
   .list [1, 1] true [lit "one", lit "two"],
   .list [] false [lit "p"]]

private def exDoc0 : Doc := { hc := ['#'], title := lit "T", body := [] }

private def exDoc : Doc := exDoc0.run exOps

private def exInnerBody : List Elem := [.field (lit "f") (lit "g"), .list true [lit "one", lit "two"]]
private def exNoteOpts : List (Str × Str) := [(lit "k", lit "v"), (lit "k2", [])]
private def exNoteBody : List Elem := [.para (lit "in"), .directive (lit "inner") [] [] exInnerBody]

example : exDoc.body =
    [.para (lit "a\n b"), .directive (lit "note") [lit "x", lit "y"] exNoteOpts exNoteBody, .list false [lit "p"]] := rfl

set_option maxRecDepth 4096 in
example : exDoc.render = lit
    "\n#####\nTitle\n#####\na\n b\n\n.. note:: x,y\n   :k: v\n   :k2: \n\n   in\n\n   .. inner:: \n\n\n      :f: g\n\n      1. one\n      2. two\n\n\n\n\n* p\n\n" := by
  rfl

-- 1
example : renderHeading ['#'] (lit "Title") = lit "\n#####\nTitle\n#####" := by
  rw [C20_frame]; decide
example : lastRootTitle exDoc0.title exOps = lit "Title" := by decide
example : exDoc.hc = ['#'] ∧ exDoc.title = lit "Title" := by
  have := C20_reframe exDoc0 exOps
  exact ⟨this.1, this.2⟩
example : ∃ rest, exDoc.render = lit "\n#####\nTitle\n#####\n" ++ rest :=
  ⟨_, by rw [exDoc, C20_reframe_render exDoc0 '#' rfl exOps]; rfl⟩

-- 2
example : splitNl (renderPara 2 (lit "a\n b")) = [lit "      a", lit "       b"] := by
  rw [C20_para_lines]; decide
example : renderField 1 (lit "f") (lit "g") = lit "\n   :f: g" := by rw [C20_field_line]; decide
example : renderList 1 true [lit "one", lit "two"] = lit "\n   1. one\n   2. two\n" := by
  rw [C20_item_lines]; decide
example : renderOpts 1 exNoteOpts = lit "   :k: v\n   :k2: \n" := by
  rw [C20_option_lines]; decide
example : renderDirHeading 1 (lit "inner") [lit "x", lit "y"] = lit "\n   .. inner:: x,y" := by
  rw [C20_heading_line]; decide
example : (indent 2).length = 6 := C20_indent_length 2
example : splitNl (renderList 1 true [lit "one", lit "two"]) = [[], lit "   1. one", lit "   2. two", []] := by
  rw [C20_item_lines_split _ _ _ (by decide)]; decide
-- the newline-freeness hypothesis of `C20_item_lines_split` is needed: continuation lines of an item are not indented
example : splitNl (renderList 1 false [lit "a\nb"]) = [[], lit "   * a", lit "b", []] := by decide

-- 3: the field sits inside two directives and is rendered at depth 2
example : exDoc.elemAt [1, 1, 0] = some (.field (lit "f") (lit "g")) := rfl
example : ∃ pre post, exDoc.render = pre ++ lit "\n      :f: g" ++ post :=
  C20_subtree exDoc [1, 1, 0] (.field (lit "f") (lit "g")) rfl
example : exDoc.elemAt [] = none ∧ exDoc.elemAt [0, 0] = none ∧ exDoc.elemAt [7] = none := ⟨rfl, rfl, rfl⟩
example : ∃ pre post, exDoc.render = pre ++ renderElems 2 exInnerBody ++ post :=
  C20_children_block exDoc [1, 1] exInnerBody rfl

-- 4: adding to the nested directive `[1, 1]`, which has two children, and elsewhere
example : (exDoc.apply (.text [1, 1] (lit "new"))).elemAt [1, 1, 2] = some (.para (lit "new")) :=
  (C20_added_text exDoc [1, 1] (lit "new") exInnerBody rfl).1
example : (exDoc.apply (.text [] (lit "new"))).elemAt [3] = some (.para (lit "new")) :=
  (C20_added_text exDoc [] (lit "new") exDoc.body rfl).1
example : (exDoc.apply (.field [1] (lit "a") (lit "b"))).elemAt [1, 2] = some (.field (lit "a") (lit "b")) :=
  (C20_added_field exDoc [1] (lit "a") (lit "b") exNoteBody rfl).1
example : (exDoc.apply (.list [1] false [lit "q"])).elemAt [1, 2] = some (.list false [lit "q"]) :=
  (C20_added_list exDoc [1] false [lit "q"] exNoteBody rfl).1
example : (exDoc.apply (.directive [1, 1] (lit "d") [])).childrenAt [1, 1, 2] = some [] :=
  (C20_added_directive exDoc [1, 1] (lit "d") [] exInnerBody rfl).2.2
example : (exDoc.apply (.text [1, 1] (lit "new"))).elemAt [1, 0] = some (.para (lit "in")) :=
  C20_added_preserves exDoc (.text [1, 1] (lit "new")) _ rfl [1, 0] _ (by decide) rfl
example : (exDoc.apply (.text [1, 1] (lit "new"))).elemAt [1, 1, 0] = some (.field (lit "f") (lit "g")) :=
  C20_added_preserves exDoc (.text [1, 1] (lit "new")) _ rfl [1, 1, 0] _ (by decide) rfl
example : ∃ b', (exDoc.apply (.text [1, 1] (lit "new"))).elemAt [1] =
    some (.directive (lit "note") [lit "x", lit "y"] exNoteOpts b') ∧ b'.length = 2 :=
  C20_ancestors exDoc (.text [1, 1] (lit "new")) [1] 1 [] rfl (lit "note") [lit "x", lit "y"] exNoteOpts exNoteBody rfl
example : (exDoc.apply (.clear [1, 1])).elemAt [0] = some (.para (lit "a\n b")) :=
  C20_elsewhere exDoc (.clear [1, 1]) [0] _ (by decide) (by decide) rfl

-- 5: in `exOps` the options `k`, `k2` on handle `[1]` are interleaved with content calls
example : optsOf [1] (exOps.drop 2) = exNoteOpts := by decide
example : NoAncestorClear [1] (exOps.drop 2) := by
  intro p hp; simp [exOps] at hp
example : ∃ name' body', exDoc.elemAt [1] = some (.directive name' [lit "x", lit "y"] ([] ++ exNoteOpts) body') := by
  have := C20_options_history (exDoc0.run (exOps.take 2)) (exOps.drop 2) [1] (lit "note") [lit "x", lit "y"] [] []
    rfl (by intro p hp; simp [exOps] at hp)
  rwa [← Doc.run_append] at this
-- `NoAncestorClear` is needed: after `clear()` on the root, `[0]` can come to denote a different, fresh directive
example :
    let w := exDoc0.run [.directive [] (lit "d") [], .option [0] (lit "k") []]
    let ops := [Op.clear [], .directive [] (lit "e") [lit "a"]]
    w.elemAt [0] = some (.directive (lit "d") [] [(lit "k", [])] []) ∧ optsOf [0] ops = [] ∧
    (w.run ops).elemAt [0] = some (.directive (lit "e") [lit "a"] [] []) ∧ ¬ NoAncestorClear [0] ops := by
  refine ⟨rfl, rfl, rfl, ?_⟩
  intro h
  exact absurd (h [] (by simp) List.nil_prefix) (by decide)
-- options and content interleaved on one handle: both come out in call order
example :
    let ops := [Op.text [0] (lit "c1"), .option [0] (lit "k1") (lit "v1"), .field [0] (lit "f") (lit "g"),
                .option [0] (lit "k2") []]
    ((exDoc0.apply (.directive [] (lit "d") [lit "a"])).run ops).elemAt [0] =
      some (.directive (lit "d") [lit "a"] ([] ++ [(lit "k1", lit "v1"), (lit "k2", [])])
        ([] ++ [.para (lit "c1"), .field (lit "f") (lit "g")])) := by
  intro ops
  exact C20_options_interleaved (exDoc0.apply (.directive [] (lit "d") [lit "a"])) ops [0] (lit "d") [lit "a"] [] [] rfl
    (by simp [ops, Op.handle, Op.appended])
example : (exDoc.apply (.option [1, 1] (lit "o") (lit "v"))).elemAt [1, 1] =
    some (.directive (lit "inner") [] ([] ++ [(lit "o", lit "v")]) exInnerBody) :=
  C20_option_step exDoc [1, 1] (lit "o") (lit "v") (lit "inner") [] [] exInnerBody rfl
example : (exDoc.apply (.text [1, 1] (lit "z"))).elemAt [1, 1] =
    some (.directive (lit "inner") [] [] (exInnerBody ++ [.para (lit "z")])) :=
  C20_content_step exDoc (.text [1, 1] (lit "z")) _ rfl (lit "inner") [] [] exInnerBody rfl

-- 6
example : (exDoc.apply (.text [] (lit "z"))).render = exDoc.render ++ lit "z\n" := by
  rw [C20_order_text]; rfl
example : (exDoc.apply (.directive [] (lit "z") [])).render = exDoc.render ++ lit "\n.. z:: \n\n" := by
  rw [C20_order_directive]; rfl
example : (exDoc0.run [.text [] (lit "1"), .field [] (lit "2") (lit "3"), .list [] true [lit "4"]]).render =
    exDoc0.render ++ lit "1\n\n:2: 3\n\n1. 4\n\n" := by
  rw [C20_order_history _ _ (by simp [Op.handle, Op.appended])]; rfl

-- 7
example : (exDoc.apply (.clear [])).render = lit "\n#####\nTitle\n#####\n" := by
  rw [C20_clear]; decide
example : (exDoc.apply (.clear [1])).elemAt [1] =
    some (.directive (lit "note") [lit "x", lit "y"] exNoteOpts []) :=
  (C20_clear_nested exDoc [1] (lit "note") [lit "x", lit "y"] exNoteOpts exNoteBody rfl).1
example : (exDoc.apply (.clear [1])).elemAt [1, 1, 0] = none :=
  (C20_clear_nested exDoc [1] (lit "note") [lit "x", lit "y"] exNoteOpts exNoteBody rfl).2.2.1 1 [0]

end Examples

end Cminx
