import CminxProps.C04
import CminxProps.C07
/-!
# C04, CRLF half — at the level of the generated page

*Statement (second sentence of C04).*  "Converting line endings between LF and CRLF changes at most line-ending
characters and whitespace-only lines of the output."

* `normPage` — the normalisation the sentence names: delete every `'\r'` of the page, split into lines, drop the
  whitespace-only lines (`normPage_eq`: the same as splitting first and deleting `'\r'` per line).
* `Module.toCrlf` — the decorated module with every line end converted: `SepAtom.nl`, the line end carried by a
  line comment, and the line ends inside every doccomment block (commands, blocks, declarations, dangling ones, the
  module doccomment).  Argument texts and bracket-comment texts are kept verbatim — arguments with embedded line
  breaks are outside this theorem.  `C04_crlf_render`: for an LF module without raw line breaks (`Module.lfPlain`)
  the printed text of `m.toCrlf` is the printed text of `m` with every `'\n'` replaced by `"\r\n"` (`crlfText`).
* `C04_crlf_entries` — the `documented` list of `m.toCrlf` is that of `m` with doc texts converted
  (`Entry.Crlf`): the text `t` of a documented entry/method/attribute becomes `crlfDoc t = "\r\n" ++ crlfText t`
  (`crlfDoc_canonical` ties this to `C04_crlf_partial`), an undocumented one keeps `""`, the module doccomment's text
  becomes `crlfText t` and its name is unchanged (`moduleName_cr`); everything else — names, parameters, the
  `**kwargs` flag, values — is identical.
* `C04_crlf_page` — both files are processed and `normPage out' = normPage out`.
  `C04_crlf_page_text` — the same for the text `crlfText m.render`, with validity of the converted file derived
  (`C04_crlf_valid`) for LF files that contain no `'\r'`.
  Read from right to left these are the CRLF → LF direction (the conclusion is symmetric).

*Side conditions, all explicit.*
* doccomments that reach the output are canonical (`Module.docsCanonical`: `DocC.Canonical` for commands, blocks,
  declarations; `DocC.ModCanonical` for the module doccomment; dangling doccomments are unconstrained);
* `ProbeOk cfg.trigger`: the `kwargs_doc_trigger_string` contains no `'\n'` and does not *end* in `'\r'` (weaker than
  "no `'\r'`, no `'\n'`", `ProbeOk.of_noCrNl`).  Both halves are needed: `"it\r"` is created, `"a\nb"` destroyed by
  the conversion (examples at the end, including a page whose normal form changes);
* the `:param p:` / `:type p:` probes of `MethodDocumentation.process` end in `':'`, so they only need `'\n' ∉ p`,
  which is part of `Entry.OneLine` (`methodFields_docRel`);
* `Entry.OneLine` for the entries and `'\n' ∉ modName` (hypotheses of `C07_page_lines`);
* `T_pipeline`'s hypotheses for `m`; for `m.toCrlf` well-formedness and the K1 guard are derived
  (`C04_crlf_guards`), validity is a hypothesis of `C04_crlf_page` and derived in `C04_crlf_page_text`.
-/
namespace Cminx

open C01

/-! ## 1. the normalisation the property names -/

/-- delete every `'\r'` -/
def noCr (s : Str) : Str := s.filter (fun c => c ≠ '\r')

/-- a whitespace-only line (the empty line included) -/
def isBlankLine (l : Str) : Bool := l.all (fun c => c = ' ' || c = '\t')

/-- **the normalisation of C04's second sentence**: delete every `'\r'` of the page, split into lines, drop the
    whitespace-only lines -/
def normPage (s : Str) : List Str := (splitNl (noCr s)).filter (fun l => !isBlankLine l)

/-- the same on a list of lines: delete `'\r'` in every line, drop the whitespace-only lines -/
def normLines (ls : List Str) : List Str := (ls.map noCr).filter (fun l => !isBlankLine l)

theorem noCr_nil : noCr [] = [] := rfl
theorem noCr_cons_cr (cs : Str) : noCr ('\r' :: cs) = noCr cs := by simp [noCr]
theorem noCr_cons_of_ne (c : Char) (cs : Str) (h : c ≠ '\r') : noCr (c :: cs) = c :: noCr cs := by simp [noCr, h]
theorem noCr_append (a b : Str) : noCr (a ++ b) = noCr a ++ noCr b := by simp [noCr]

theorem splitNl_cons_of_ne (c : Char) (cs : Str) (h : c ≠ '\n') :
    splitNl (c :: cs) = (c :: (splitNl cs).headD []) :: (splitNl cs).tail := by
  have hne := splitNl_ne_nil cs
  cases hs : splitNl cs with
  | nil => exact absurd hs hne
  | cons l ls => simp [splitNl, h, hs]

theorem splitNl_cons_nl (cs : Str) : splitNl ('\n' :: cs) = [] :: splitNl cs := by
  simp [splitNl]

/-- deleting `'\r'` commutes with splitting into lines -/
theorem splitNl_noCr (s : Str) : splitNl (noCr s) = (splitNl s).map noCr := by
  induction s with
  | nil => simp [noCr, splitNl]
  | cons c cs ih =>
    by_cases hn : c = '\n'
    · subst hn
      rw [noCr_cons_of_ne _ _ (by decide), splitNl_cons_nl, splitNl_cons_nl, ih]
      simp [noCr_nil]
    · have hne := splitNl_ne_nil cs
      rw [splitNl_cons_of_ne c cs hn]
      by_cases hr : c = '\r'
      · subst hr
        rw [noCr_cons_cr, ih]
        cases hs : splitNl cs with
        | nil => exact absurd hs hne
        | cons l ls => simp [noCr_cons_cr]
      · rw [noCr_cons_of_ne c cs hr, splitNl_cons_of_ne c _ hn, ih]
        cases hs : splitNl cs with
        | nil => exact absurd hs hne
        | cons l ls => simp [noCr_cons_of_ne c _ hr]

/-- `normPage`: "delete `'\r'`, split, drop blank lines" = "split, delete `'\r'` per line, drop blank lines" -/
theorem normPage_eq (s : Str) : normPage s = normLines (splitNl s) := by
  simp [normPage, normLines, splitNl_noCr]

theorem normLines_append (a b : List Str) : normLines (a ++ b) = normLines a ++ normLines b := by
  simp [normLines]

theorem normLines_cons_blank (l : Str) (ls : List Str) (h : isBlankLine (noCr l) = true) :
    normLines (l :: ls) = normLines ls := by
  simp [normLines, h]

/-! ## the effect of CRLF line ends on a cleaned doc text -/

/-- every `'\n'` replaced by `"\r\n"` -/
def crlfText (t : Str) : Str := t.flatMap (fun c => if c = '\n' then ['\r', '\n'] else [c])

/-- the cleaned text of a doccomment block after its line ends were converted to CRLF, in terms of the cleaned text
    `t` of the LF block: every line end becomes `"\r\n"`, and the opening line leaves one extra first line `"\r"` -/
def crlfDoc (t : Str) : Str := '\r' :: '\n' :: crlfText t

theorem crlfText_nil : crlfText [] = [] := rfl

theorem crlfText_append (a b : Str) : crlfText (a ++ b) = crlfText a ++ crlfText b := by
  simp [crlfText]

theorem crlfText_cons_nl (cs : Str) : crlfText ('\n' :: cs) = '\r' :: '\n' :: crlfText cs := by
  simp [crlfText]

theorem crlfText_cons_of_ne (c : Char) (cs : Str) (h : c ≠ '\n') : crlfText (c :: cs) = c :: crlfText cs := by
  simp [crlfText, h]

theorem crlfText_of_noNl {l : Str} (h : '\n' ∉ l) : crlfText l = l := by
  induction l with
  | nil => rfl
  | cons c cs ih =>
    simp only [List.mem_cons, not_or] at h
    rw [crlfText_cons_of_ne c cs (Ne.symm h.1), ih h.2]

theorem crlfText_isEmpty (t : Str) : (crlfText t).isEmpty = t.isEmpty := by
  cases t with
  | nil => rfl
  | cons c cs =>
    by_cases h : c = '\n'
    · subst h; rw [crlfText_cons_nl]; rfl
    · rw [crlfText_cons_of_ne c cs h]; rfl

theorem noCr_crlfText (t : Str) : noCr (crlfText t) = noCr t := by
  induction t with
  | nil => rfl
  | cons c cs ih =>
    by_cases h : c = '\n'
    · subst h
      rw [crlfText_cons_nl, noCr_cons_cr, noCr_cons_of_ne _ _ (by decide), noCr_cons_of_ne _ _ (by decide), ih]
    · rw [crlfText_cons_of_ne c cs h]
      by_cases hr : c = '\r'
      · subst hr; rw [noCr_cons_cr, noCr_cons_cr, ih]
      · rw [noCr_cons_of_ne c _ hr, noCr_cons_of_ne c _ hr, ih]

theorem noCr_crlfDoc (t : Str) : noCr (crlfDoc t) = '\n' :: noCr t := by
  rw [crlfDoc, noCr_cons_cr, noCr_cons_of_ne _ _ (by decide), noCr_crlfText]

/-- on `"\n".join(lines + [""])` with newline-free lines: every line gets a trailing `'\r'` -/
theorem crlfText_joinNl (ls : List Str) (h : ∀ l ∈ ls, '\n' ∉ l) :
    crlfText (joinNl (ls ++ [[]])) = joinNl (ls.map (· ++ ['\r']) ++ [[]]) := by
  induction ls with
  | nil => rfl
  | cons l ls ih =>
    have ih' := ih (fun x hx => h x (List.mem_cons_of_mem _ hx))
    rw [List.cons_append, joinNl_cons l (by simp), List.map_cons, List.cons_append, joinNl_cons _ (by simp),
      crlfText_append, crlfText_cons_nl, ih', crlfText_of_noNl (h l (by simp))]
    simp

/-- `crlfDoc` is what `C04_crlf_partial` computes: for a canonical doccomment `d`, the cleaned text of the CRLF block
    is `crlfDoc` of the cleaned text of the LF block -/
theorem crlfDoc_canonical (d : DocC) (hc : d.Canonical) :
    docTextOf (some { d with crlf := true }) = crlfDoc (docTextOf (some d)) := by
  obtain ⟨h1, h2⟩ := C04_crlf_partial d hc
  rw [h1, h2, crlfDoc, crlfText_joinNl d.lines hc.lines, List.cons_append, joinNl_cons _ (by simp)]
  rfl

/-! ### occurrences of a pattern -/

/-- the side condition on a probe string (`kwargs_doc_trigger_string`, `:param p:`, `:type p:`): it contains no line
    break and does not end in `'\r'` -/
def ProbeOk (pat : Str) : Prop := '\n' ∉ pat ∧ pat.getLast? ≠ some '\r'

theorem ProbeOk.of_noCrNl {pat : Str} (hn : '\n' ∉ pat) (hr : '\r' ∉ pat) : ProbeOk pat := by
  refine ⟨hn, fun h => hr ?_⟩
  exact List.mem_of_getLast? h

theorem ProbeOk.tail {p : Char} {ps : Str} (h : ProbeOk (p :: ps)) (hne : ps ≠ []) : ProbeOk ps := by
  obtain ⟨h1, h2⟩ := h
  refine ⟨fun hm => h1 (List.mem_cons_of_mem _ hm), ?_⟩
  cases ps with
  | nil => exact absurd rfl hne
  | cons q qs => simpa [List.getLast?_cons_cons] using h2

theorem isInfix_nil (s : Str) : isInfix [] s = true := by
  cases s <;> simp [isInfix]

theorem isPrefixOf_cons_nl_of_noNl {pat : Str} (h : '\n' ∉ pat) (s : Str) :
    pat.isPrefixOf ('\n' :: s) = pat.isEmpty := by
  cases pat with
  | nil => rfl
  | cons p ps =>
    simp only [List.mem_cons, not_or] at h
    simp [List.isPrefixOf, Ne.symm h.1]

/-- converting line ends does not change whether the text *starts* with the probe -/
theorem isPrefixOf_crlfText : ∀ (s pat : Str), ProbeOk pat → pat.isPrefixOf (crlfText s) = pat.isPrefixOf s
  | _, [], _ => by simp
  | [], _ :: _, _ => by simp [crlfText]
  | c :: cs, p :: ps, h => by
    by_cases hc : c = '\n'
    · subst hc
      have hp : (p == '\n') = false := by
        have : p ≠ '\n' := fun e => h.1 (by simp [e])
        simpa using this
      rw [crlfText_cons_nl]
      cases ps with
      | nil =>
        have hr : (p == '\r') = false := by
          have : p ≠ '\r' := fun e => h.2 (by simp [e])
          simpa using this
        simp [List.isPrefixOf, hp, hr]
      | cons q qs =>
        have hq : (q == '\n') = false := by
          have : q ≠ '\n' := fun e => h.1 (by simp [e])
          simpa using this
        simp [List.isPrefixOf, hp, hq]
    · rw [crlfText_cons_of_ne c cs hc]
      cases ps with
      | nil => simp [List.isPrefixOf]
      | cons q qs =>
        have ih := isPrefixOf_crlfText cs (q :: qs) (h.tail (by simp))
        simp only [List.isPrefixOf] at ih ⊢
        rw [ih]

/-- converting line ends neither creates nor destroys an occurrence of the probe: an occurrence cannot span lines
    (no `'\n'` in the probe), and within a line only a trailing `'\r'` is new (the probe does not end in `'\r'`) -/
theorem isInfix_crlfText (pat : Str) (h : ProbeOk pat) (s : Str) : isInfix pat (crlfText s) = isInfix pat s := by
  induction s with
  | nil => rfl
  | cons c cs ih =>
    have hp := isPrefixOf_crlfText (c :: cs) pat h
    by_cases hc : c = '\n'
    · subst hc
      rw [crlfText_cons_nl] at hp ⊢
      simp only [isInfix, hp, ih, isPrefixOf_cons_nl_of_noNl h.1]
      cases pat with
      | nil => simp
      | cons p ps => simp
    · rw [crlfText_cons_of_ne c cs hc] at hp ⊢
      simp only [isInfix, hp, ih]

/-- the same with the extra first line `"\r"` -/
theorem isInfix_crlfDoc (pat : Str) (h : ProbeOk pat) (t : Str) : isInfix pat (crlfDoc t) = isInfix pat t := by
  have h1 := isInfix_crlfText pat h t
  cases pat with
  | nil => simp [isInfix_nil]
  | cons p ps =>
    simp only [crlfDoc, isInfix, h1, isPrefixOf_cons_nl_of_noNl h.1]
    cases ps with
    | nil =>
      have hr : (p == '\r') = false := by
        have : p ≠ '\r' := fun e => h.2 (by simp [e])
        simpa using this
      simp [List.isPrefixOf, hr]
    | cons q qs =>
      have hq : (q == '\n') = false := by
        have : q ≠ '\n' := fun e => h.1 (by simp [e])
        simpa using this
      simp [List.isPrefixOf, hq]

/-! ### the name of the module doccomment: the `'\r'` left on the opening line is stripped -/

theorem isPrefixOf_append_singleton {c : Char} : ∀ (pat s : Str), c ∉ pat → pat.isPrefixOf (s ++ [c]) = pat.isPrefixOf s
  | [], _, _ => by simp
  | p :: ps, [], h => by
    have : (p == c) = false := by
      have : p ≠ c := fun e => h (by simp [e])
      simpa using this
    simp [List.isPrefixOf, this]
  | p :: ps, a :: as, h => by
    have ih := isPrefixOf_append_singleton ps as (fun hm => h (List.mem_cons_of_mem _ hm))
    simp only [List.cons_append, List.isPrefixOf, ih]

/-- a character that does not occur in the pattern, appended to the text, is copied by `str.replace` -/
theorem replaceAll_append_singleton (pat rep : Str) (hp : pat ≠ []) (c : Char) (hc : c ∉ pat) :
    ∀ (n : Nat) (s : Str), s.length ≤ n → replaceAll pat rep (s ++ [c]) = replaceAll pat rep s ++ [c] := by
  have hpe : pat.isEmpty = false := by cases pat <;> simp_all
  have hnil : replaceAll pat rep [] = [] := by simp [replaceAll, hpe, replaceAux]
  have hlen : 0 < pat.length := List.length_pos_iff.mpr hp
  intro n
  induction n with
  | zero =>
    intro s hs
    have : s = [] := List.eq_nil_of_length_eq_zero (by omega)
    subst this
    have hnp : pat.isPrefixOf ([] ++ [c]) = false := by
      rw [isPrefixOf_append_singleton pat [] hc]; cases pat <;> simp_all
    rw [List.nil_append] at hnp ⊢
    rw [replaceAll_cons_of_not_prefix pat rep c [] hp hnp, hnil]; rfl
  | succ n ih =>
    intro s hs
    cases s with
    | nil =>
      have hnp : pat.isPrefixOf ([] ++ [c]) = false := by
        rw [isPrefixOf_append_singleton pat [] hc]; cases pat <;> simp_all
      rw [List.nil_append] at hnp ⊢
      rw [replaceAll_cons_of_not_prefix pat rep c [] hp hnp, hnil]; rfl
    | cons a as =>
      by_cases hpre : pat.isPrefixOf (a :: as) = true
      · obtain ⟨s', hs'⟩ := List.isPrefixOf_iff_prefix.1 hpre
        have hl : s'.length ≤ n := by
          have := congrArg List.length hs'
          simp only [List.length_append, List.length_cons] at this hs
          omega
        rw [← hs', List.append_assoc, replaceAll_pat_append _ _ _ hp, replaceAll_pat_append _ _ _ hp, ih s' hl,
          List.append_assoc]
      · have hpre' : pat.isPrefixOf (a :: as) = false := Bool.eq_false_iff.2 hpre
        have hnp : pat.isPrefixOf (a :: (as ++ [c])) = false := by
          rw [← List.cons_append, isPrefixOf_append_singleton pat _ hc]; exact hpre'
        rw [List.cons_append, replaceAll_cons_of_not_prefix pat rep a _ hp hnp,
          replaceAll_cons_of_not_prefix pat rep a _ hp hpre', ih as (by simpa using hs)]
        rfl

/-- `(x + "\r").strip() == x.strip()` -/
theorem stripWs_append_cr (x : Str) : stripWs (x ++ ['\r']) = stripWs x := by
  have hcr : pyIsSpace '\r' = true := by decide
  simp only [stripWs, lstripWs, rstripWs, List.dropWhile_append]
  split
  · rename_i h
    have : List.dropWhile pyIsSpace x = [] := by simpa using h
    simp [this, hcr]
  · simp [hcr]

/-- the module name does not feel the `'\r'` at the end of the opening line -/
theorem moduleName_cr (rest : Str) :
    stripWs (replaceAll (lit "@module") [] (rest ++ ['\r'])) = stripWs (replaceAll (lit "@module") [] rest) := by
  rw [replaceAll_append_singleton (lit "@module") [] litModule_ne_nil '\r' (by rw [litModule_eq]; decide)
    rest.length rest (Nat.le_refl _), stripWs_append_cr]

/-! ## 2. the CRLF conversion of a decorated module -/

/-- a line break becomes CRLF; a line comment that carries its line end gets a CRLF one -/
def SepAtom.toCrlf : SepAtom → SepAtom
  | .nl _ => .nl true
  | .lineComment t (some _) => .lineComment t (some true)
  | a => a

def sepToCrlf (s : Sep) : Sep := s.map SepAtom.toCrlf

mutual
/-- argument tokens are kept verbatim (arguments with embedded line breaks are a separate matter) -/
def SArg.toCrlf : SArg → SArg
  | .tok pre t => .tok (sepToCrlf pre) t
  | .group pre args close => .group (sepToCrlf pre) (sargsToCrlf args) (sepToCrlf close)
def sargsToCrlf : List SArg → List SArg
  | [] => []
  | a :: as => a.toCrlf :: sargsToCrlf as
end

def Call.toCrlf (c : Call) : Call :=
  { c with pre := sepToCrlf c.pre, args := sargsToCrlf c.args, close := sepToCrlf c.close }

/-- the block with CRLF line ends (and CRLF line ends in the filler before it) -/
def DocC.toCrlf (d : DocC) : DocC := { d with pre := sepToCrlf d.pre, crlf := true }

mutual
def Item.toCrlf : Item → Item
  | .cmd doc call => .cmd (doc.map DocC.toCrlf) call.toCrlf
  | .block doc o body c => .block (doc.map DocC.toCrlf) o.toCrlf (itemsToCrlf body) c.toCrlf
  | .decl doc d i body c => .decl (doc.map DocC.toCrlf) d.toCrlf i.toCrlf (itemsToCrlf body) c.toCrlf
  | .dangling d => .dangling d.toCrlf
def itemsToCrlf : List Item → List Item
  | [] => []
  | i :: is => i.toCrlf :: itemsToCrlf is
end

/-- **the module with all its line ends converted to CRLF**: every line break between tokens, the line end of
    every line comment, and the line ends inside every doccomment block (of commands, blocks, declarations, dangling
    ones, and the module doccomment).  Argument texts and bracket-comment texts are kept. -/
def Module.toCrlf (m : Module) : Module :=
  { m with modDoc := m.modDoc.map DocC.toCrlf, items := itemsToCrlf m.items, tail := sepToCrlf m.tail }

mutual
theorem SArg.toCrlf_toArg : (a : SArg) → a.toCrlf.toArg = a.toArg
  | .tok _ _ => by simp [SArg.toCrlf, SArg.toArg]
  | .group _ args _ => by simp [SArg.toCrlf, SArg.toArg, sargsToCrlf_toArgs args]
theorem sargsToCrlf_toArgs : (as : List SArg) → toArgs (sargsToCrlf as) = toArgs as
  | [] => by simp [sargsToCrlf, toArgs]
  | a :: as => by simp [sargsToCrlf, toArgs, SArg.toCrlf_toArg a, sargsToCrlf_toArgs as]
end

@[simp] theorem Call.toCrlf_toCmd (c : Call) : c.toCrlf.toCmd = c.toCmd := by
  simp [Call.toCrlf, Call.toCmd, sargsToCrlf_toArgs]
@[simp] theorem Call.toCrlf_lname (c : Call) : c.toCrlf.lname = c.lname := rfl
@[simp] theorem Call.toCrlf_singles (c : Call) : c.toCrlf.singles = c.singles := by
  simp [Call.singles]
@[simp] theorem Call.toCrlf_allTexts (c : Call) : c.toCrlf.allTexts = c.allTexts := by
  simp [Call.allTexts]

theorem Call.toCrlf_sim (c : Call) : Call.Sim c c.toCrlf :=
  ⟨rfl, by simp [Call.toCrlf, sargsToCrlf_toArgs]⟩

theorem DocC.toCrlf_tokenText (d : DocC) : d.toCrlf.tokenText = { d with crlf := true }.tokenText := rfl

mutual
theorem Item.toCrlf_cpaDirect : (i : Item) → i.toCrlf.cpaDirect = i.cpaDirect
  | .cmd _ _ => by simp only [Item.toCrlf, Item.cpaDirect]; rfl
  | .block _ _ body _ => by simp only [Item.toCrlf, Item.cpaDirect, itemsToCrlf_cpaDirect body]; rfl
  | .decl .. => by simp [Item.toCrlf, Item.cpaDirect]
  | .dangling _ => by simp [Item.toCrlf, Item.cpaDirect]
theorem itemsToCrlf_cpaDirect : (is : List Item) → itemsCpaDirect (itemsToCrlf is) = itemsCpaDirect is
  | [] => by simp [itemsToCrlf, itemsCpaDirect]
  | i :: is => by simp [itemsToCrlf, itemsCpaDirect, Item.toCrlf_cpaDirect i, itemsToCrlf_cpaDirect is]
end

/-! ## 3. the entries of the converted module -/

/-- corresponding elements of two lists of the same length are related -/
inductive ListRel {α β : Type} (R : α → β → Prop) : List α → List β → Prop
  | nil : ListRel R [] []
  | cons {a : α} {b : β} {as : List α} {bs : List β} : R a b → ListRel R as bs → ListRel R (a :: as) (b :: bs)

/-- how the doc text of an entry changes: an undocumented entry keeps its empty text, the text of a documented one
    becomes `crlfDoc` of it -/
def DocRel (t t' : Str) : Prop := (t = [] ∧ t' = []) ∨ t' = crlfDoc t

/-- the same method with its doc text converted -/
def Method.Crlf (m m' : Method) : Prop := ∃ t', DocRel m.doc t' ∧ m' = { m with doc := t' }

/-- the same attribute with its doc text converted -/
def Attr.Crlf (a a' : Attr) : Prop := ∃ t', DocRel a.doc t' ∧ a' = { a with doc := t' }

/-- the same entry with its doc text — and the doc texts of its methods and attributes — converted; everything
    else (names, parameters, flags, values, …) identical.  The module doccomment's text has no extra first line
    (its opening line holds the name). -/
inductive Entry.Crlf : Entry → Entry → Prop
  | module {n t : Str} : Entry.Crlf (.module n t) (.module n (crlfText t))
  | func {m : Bool} {n t t' : Str} {ps : List Str} {kw : Bool} (h : DocRel t t') :
      Entry.Crlf (.func m n t ps kw) (.func m n t' ps kw)
  | var {n t t' : Str} {ty : VarType} {v : Option Str} (h : DocRel t t') : Entry.Crlf (.var n t ty v) (.var n t' ty v)
  | opt {n t t' help : Str} {d : Option Str} (h : DocRel t t') : Entry.Crlf (.opt n t help d) (.opt n t' help d)
  | generic {n t t' : Str} {args : List Str} (h : DocRel t t') : Entry.Crlf (.generic n t args) (.generic n t' args)
  | ctest {n t t' : Str} {ps : List Str} (h : DocRel t t') : Entry.Crlf (.ctest n t ps) (.ctest n t' ps)
  | test {s : Bool} {n t t' : Str} {ef : Bool} {ps : List Str} {m : Bool} (h : DocRel t t') :
      Entry.Crlf (.test s n t ef ps m) (.test s n t' ef ps m)
  | cls {n t t' : Str} {sup inner : List Str} {cs cs' ms ms' : List Method} {as as' : List Attr}
      (h : DocRel t t') (hc : ListRel Method.Crlf cs cs') (hm : ListRel Method.Crlf ms ms')
      (ha : ListRel Attr.Crlf as as') :
      Entry.Crlf (.cls n t sup inner cs ms as) (.cls n t' sup inner cs' ms' as')

theorem forall₂_append {α β : Type} {R : α → β → Prop} {a : List α} {a' : List β} {b : List α} {b' : List β}
    (h₁ : ListRel R a a') (h₂ : ListRel R b b') : ListRel R (a ++ b) (a' ++ b') := by
  induction h₁ with
  | nil => exact h₂
  | cons h _ ih => exact .cons h ih

/-- what a list of items contributes, related field by field -/
structure Contrib.Crlf (a b : Contrib) : Prop where
  top : ListRel Entry.Crlf a.top b.top
  inner : b.inner = a.inner
  ctors : ListRel Method.Crlf a.ctors b.ctors
  members : ListRel Method.Crlf a.members b.members
  attrs : ListRel Attr.Crlf a.attrs b.attrs

theorem Contrib.Crlf.nil : Contrib.Crlf {} {} := ⟨.nil, rfl, .nil, .nil, .nil⟩

theorem Contrib.Crlf.ite {c : Prop} [Decidable c] {a b a' b' : Contrib} (h₁ : Contrib.Crlf a a')
    (h₂ : Contrib.Crlf b b') : Contrib.Crlf (if c then a else b) (if c then a' else b') := by
  split
  · exact h₁
  · exact h₂

theorem Contrib.Crlf.append {a b a' b' : Contrib} (h₁ : Contrib.Crlf a a') (h₂ : Contrib.Crlf b b') :
    Contrib.Crlf (a ++ b) (a' ++ b') :=
  ⟨forall₂_append h₁.top h₂.top, by show a'.inner ++ b'.inner = a.inner ++ b.inner; rw [h₁.inner, h₂.inner],
   forall₂_append h₁.ctors h₂.ctors, forall₂_append h₁.members h₂.members, forall₂_append h₁.attrs h₂.attrs⟩

theorem Contrib.Crlf.single {e e' : Entry} (h : Entry.Crlf e e') : Contrib.Crlf { top := [e] } { top := [e'] } :=
  ⟨.cons h .nil, rfl, .nil, .nil, .nil⟩

theorem Contrib.Crlf.attr {x x' : Attr} (h : Attr.Crlf x x') : Contrib.Crlf { attrs := [x] } { attrs := [x'] } :=
  ⟨.nil, rfl, .nil, .nil, .cons h .nil⟩

theorem Contrib.Crlf.ctor {x x' : Method} (h : Method.Crlf x x') : Contrib.Crlf { ctors := [x] } { ctors := [x'] } :=
  ⟨.nil, rfl, .cons h .nil, .nil, .nil⟩

theorem Contrib.Crlf.member {x x' : Method} (h : Method.Crlf x x') :
    Contrib.Crlf { members := [x] } { members := [x'] } :=
  ⟨.nil, rfl, .nil, .cons h .nil, .nil⟩

theorem Contrib.Crlf.topOnly {a a' : Contrib} (h : Contrib.Crlf a a') : Contrib.Crlf { top := a.top } { top := a'.top } :=
  ⟨h.top, rfl, .nil, .nil, .nil⟩

theorem Contrib.Crlf.cls {n t t' : Str} {sup inn : List Str} {b b' : Contrib} (hd : DocRel t t') (hb : Contrib.Crlf b b') :
    Contrib.Crlf { top := .cls n t sup b.inner b.ctors b.members b.attrs :: b.top, inner := inn }
      { top := .cls n t' sup b'.inner b'.ctors b'.members b'.attrs :: b'.top, inner := inn } := by
  refine ⟨.cons ?_ hb.top, rfl, .nil, .nil, .nil⟩
  rw [hb.inner]
  exact .cls hd hb.ctors hb.members hb.attrs

/-- an optional doccomment is canonical (`DocC.Canonical`, `C04.lean`) when present -/
def docOptCanonical : Option DocC → Prop
  | some d => d.Canonical
  | none => True

mutual
/-- every doccomment that documents a command, a block or a declaration is canonical (dangling doccomments are
    not constrained: they never reach the output) -/
def Item.docsCanonical : Item → Prop
  | .cmd doc _ => docOptCanonical doc
  | .block doc _ body _ => docOptCanonical doc ∧ itemsDocsCanonical body
  | .decl doc _ _ body _ => docOptCanonical doc ∧ itemsDocsCanonical body
  | .dangling _ => True
def itemsDocsCanonical : List Item → Prop
  | [] => True
  | i :: is => i.docsCanonical ∧ itemsDocsCanonical is
end

theorem docRel_of_canonical (doc : Option DocC) (h : docOptCanonical doc) :
    DocRel (docTextOf doc) (docTextOf (doc.map DocC.toCrlf)) := by
  cases doc with
  | none => exact Or.inl ⟨rfl, rfl⟩
  | some d => exact Or.inr (crlfDoc_canonical d h)

theorem isSome_map_toCrlf (doc : Option DocC) : (doc.map DocC.toCrlf).isSome = doc.isSome := by
  cases doc <;> rfl

/-- the flags computed from the doc text do not change -/
theorem DocRel.isInfix {t t' : Str} (h : DocRel t t') (pat : Str) (hp : ProbeOk pat) : isInfix pat t' = isInfix pat t := by
  rcases h with ⟨rfl, rfl⟩ | rfl
  · rfl
  · exact isInfix_crlfDoc pat hp t

theorem defEntry_crlf (cfg : Cfg) (htr : ProbeOk cfg.trigger) (isMacro : Bool) (doc : Option DocC)
    (h : docOptCanonical doc) (o : Call) (body : List Item) :
    Entry.Crlf (defEntry cfg isMacro doc o body)
      (defEntry cfg isMacro (doc.map DocC.toCrlf) o.toCrlf (itemsToCrlf body)) := by
  have hd := docRel_of_canonical doc h
  simp only [defEntry, Call.toCrlf_singles, itemsToCrlf_cpaDirect, hd.isInfix cfg.trigger htr]
  exact .func hd

mutual
theorem Item.spec_crlf (cfg : Cfg) (htr : ProbeOk cfg.trigger) (ctx : ClsCtx) :
    (i : Item) → i.docsCanonical → Contrib.Crlf (i.spec cfg ctx) (i.toCrlf.spec cfg ctx)
  | .cmd doc call, h => by
    simp only [Item.docsCanonical] at h
    have hd := docRel_of_canonical doc h
    simp only [Item.toCrlf, Item.spec, Call.toCrlf_lname, Call.toCrlf_singles, Call.toCrlf_allTexts, Call.toCrlf_toCmd, isSome_map_toCrlf]
    generalize docTextOf (doc.map DocC.toCrlf) = t' at hd ⊢
    generalize docTextOf doc = t at hd ⊢
    repeat' first
      | exact Contrib.Crlf.nil
      | apply Contrib.Crlf.ite
      | apply Contrib.Crlf.single
      | apply Contrib.Crlf.attr
    all_goals first
      | exact .opt hd | exact .ctest hd | exact .generic hd | exact ⟨t', hd, rfl⟩ | (split <;> exact .var hd)
  | .block doc o body c, h => by
    simp only [Item.docsCanonical] at h
    have hd := docRel_of_canonical doc h.1
    have hdef := fun b => defEntry_crlf cfg htr b doc h.1 o body
    have ih := fun ctx' => itemsSpec_crlf cfg htr ctx' body h.2
    simp only [Item.toCrlf, Item.spec, Call.toCrlf_lname, Call.toCrlf_singles, Call.toCrlf_toCmd, isSome_map_toCrlf]
    generalize docTextOf (doc.map DocC.toCrlf) = t' at hd ⊢
    generalize docTextOf doc = t at hd ⊢
    repeat' first
      | exact Contrib.Crlf.nil
      | exact ih _
      | exact hdef _
      | exact Contrib.Crlf.cls hd (ih _)
      | exact Contrib.Crlf.topOnly (ih _)
      | apply Contrib.Crlf.ite
      | apply Contrib.Crlf.append
      | apply Contrib.Crlf.single
    all_goals exact .generic hd
  | .decl doc d i body c, h => by
    simp only [Item.docsCanonical] at h
    have hd := docRel_of_canonical doc h.1
    have hdef := fun b => defEntry_crlf cfg htr b none trivial i body
    have ih := fun ctx' => itemsSpec_crlf cfg htr ctx' body h.2
    simp only [Item.toCrlf, Item.spec, Call.toCrlf_lname, Call.toCrlf_singles, isSome_map_toCrlf]
    generalize docTextOf (doc.map DocC.toCrlf) = t' at hd ⊢
    generalize docTextOf doc = t at hd ⊢
    repeat' first
      | exact Contrib.Crlf.nil
      | exact ih _
      | exact hdef _
      | apply Contrib.Crlf.ite
      | apply Contrib.Crlf.append
      | apply Contrib.Crlf.single
      | apply Contrib.Crlf.ctor
      | apply Contrib.Crlf.member
    all_goals first | exact .test hd | exact ⟨t', hd, rfl⟩
  | .dangling _, _ => by
    simp only [Item.toCrlf, Item.spec]
    exact Contrib.Crlf.nil
theorem itemsSpec_crlf (cfg : Cfg) (htr : ProbeOk cfg.trigger) (ctx : ClsCtx) :
    (is : List Item) → itemsDocsCanonical is → Contrib.Crlf (itemsSpec cfg ctx is) (itemsSpec cfg ctx (itemsToCrlf is))
  | [], _ => by simp only [itemsToCrlf, itemsSpec]; exact Contrib.Crlf.nil
  | i :: is, h => by
    simp only [itemsDocsCanonical] at h
    simp only [itemsToCrlf, itemsSpec]
    exact (Item.spec_crlf cfg htr ctx i h.1).append (itemsSpec_crlf cfg htr ctx is h.2)
end

/-- the module doccomment in the prescribed form: `#`-led body lines, LF line ends, `#[[[<blanks>@module<rest>` on the
    opening line, indentation of blanks and tabs, no line break inside a line text -/
structure DocC.ModCanonical (d : DocC) : Prop where
  leader : d.leader = true
  lf : d.crlf = false
  ind : IndOk d.ind
  opening : ∃ sp rest, d.openSuffix = sp ++ lit "@module" ++ rest ∧ IndOk sp ∧ NoNl rest
  lines : ∀ t ∈ d.lines, NoNl t

/-- all doccomments that reach the output are in the prescribed form -/
def Module.docsCanonical (m : Module) : Prop :=
  (∀ d, m.modDoc = some d → d.ModCanonical) ∧ itemsDocsCanonical m.items

/-- the module doccomment with CRLF line ends: same name, every line end of the doc text becomes `"\r\n"` -/
theorem moduleNameDoc_crlf (d : DocC) (hc : d.ModCanonical) :
    moduleNameDoc d.toCrlf.tokenText = ((moduleNameDoc d.tokenText).1, crlfText (moduleNameDoc d.tokenText).2) := by
  obtain ⟨sp, rest, ho, hsp, hr⟩ := hc.opening
  rw [C01_module_doc d sp rest hc.leader hc.lf hc.ind ho hsp hr hc.lines,
    C01_module_doc_crlf d.toCrlf sp rest hc.leader rfl hc.ind ho hsp hr hc.lines, moduleName_cr,
    crlfText_joinNl d.lines hc.lines]
  rfl

/-- **C04, CRLF half, entries**: converting every line end of a module with canonical doccomments to CRLF changes
    the expected `documented` list in the doc texts only, and there exactly by `crlfDoc` (`crlfText` for the module
    doccomment) — provided the `kwargs_doc_trigger_string` contains no line break and does not end in `'\r'`, so that
    the `**kwargs` flags are unchanged. -/
theorem C04_crlf_entries (cfg : Cfg) (htr : ProbeOk cfg.trigger) (m : Module) (hc : m.docsCanonical) :
    ListRel Entry.Crlf (m.entries cfg) (m.toCrlf.entries cfg) := by
  rw [C02_entries, C02_entries]
  apply forall₂_append
  · show ListRel Entry.Crlf _ (match m.modDoc.map DocC.toCrlf with
      | some d => [Entry.module (moduleNameDoc d.tokenText).1 (moduleNameDoc d.tokenText).2]
      | none => [])
    cases hm : m.modDoc with
    | none => exact .nil
    | some d =>
      simp only [Option.map_some, moduleNameDoc_crlf d (hc.1 d hm)]
      exact .cons .module .nil
  · exact (itemsSpec_crlf cfg htr .none m.items hc.2).top

/-! ### well-formedness and the K1 guard are preserved -/

mutual
theorem Item.toCrlf_rel : (i : Item) → i.Rel Call.Sim (fun _ _ => True) i.toCrlf
  | .cmd _ c => by simp only [Item.toCrlf, Item.Rel]; exact ⟨trivial, c.toCrlf_sim⟩
  | .block _ o body c => by
    simp only [Item.toCrlf, Item.Rel]; exact ⟨trivial, o.toCrlf_sim, itemsToCrlf_rel body, c.toCrlf_sim⟩
  | .decl _ d i body c => by
    simp only [Item.toCrlf, Item.Rel]
    exact ⟨trivial, d.toCrlf_sim, i.toCrlf_sim, itemsToCrlf_rel body, c.toCrlf_sim⟩
  | .dangling _ => by simp only [Item.toCrlf, Item.Rel]
theorem itemsToCrlf_rel : (is : List Item) → itemsRel Call.Sim (fun _ _ => True) is (itemsToCrlf is)
  | [] => by simp only [itemsToCrlf, itemsRel]
  | i :: is => by simp only [itemsToCrlf, itemsRel]; exact ⟨Item.toCrlf_rel i, itemsToCrlf_rel is⟩
end

/-- block balance (`itemsWf`) does not look at line ends -/
theorem C04_crlf_wf (inClass : Bool) (is : List Item) : itemsWf inClass (itemsToCrlf is) = itemsWf inClass is :=
  (itemsWf_rel inClass _ _ (itemsToCrlf_rel is)).symm

mutual
theorem Item.toCrlf_hasDocumentedClass : (i : Item) → i.toCrlf.hasDocumentedClass = i.hasDocumentedClass
  | .cmd _ _ => by simp only [Item.toCrlf, Item.hasDocumentedClass]
  | .block _ _ body _ => by
    simp only [Item.toCrlf, Item.hasDocumentedClass, itemsToCrlf_hasDocumentedClass body, isSome_map_toCrlf]; rfl
  | .decl _ _ _ body _ => by simp only [Item.toCrlf, Item.hasDocumentedClass, itemsToCrlf_hasDocumentedClass body]
  | .dangling _ => by simp only [Item.toCrlf, Item.hasDocumentedClass]
theorem itemsToCrlf_hasDocumentedClass :
    (is : List Item) → itemsHaveDocumentedClass (itemsToCrlf is) = itemsHaveDocumentedClass is
  | [] => by simp only [itemsToCrlf, itemsHaveDocumentedClass]
  | i :: is => by
    simp only [itemsToCrlf, itemsHaveDocumentedClass, Item.toCrlf_hasDocumentedClass i,
      itemsToCrlf_hasDocumentedClass is]
end

/-- the hypotheses `hwf`, `hk1` of `T_pipeline` carry over to the converted module -/
theorem C04_crlf_guards (m : Module) :
    itemsWf false m.toCrlf.items = itemsWf false m.items ∧
      itemsHaveDocumentedClass m.toCrlf.items = itemsHaveDocumentedClass m.items :=
  ⟨C04_crlf_wf false m.items, itemsToCrlf_hasDocumentedClass m.items⟩

/-! ## 4. the page -/

/-- two paragraph texts that agree up to `'\r'` characters and one leading empty line -/
def ParaRel (t t' : Str) : Prop := noCr t' = noCr t ∨ noCr t' = '\n' :: noCr t

theorem DocRel.para {t t' : Str} (h : DocRel t t') : ParaRel t t' := by
  rcases h with ⟨rfl, rfl⟩ | rfl
  · exact Or.inl rfl
  · exact Or.inr (noCr_crlfDoc t)

mutual
/-- the same element tree up to `ParaRel` on paragraph texts -/
def ElemCrlf : Elem → Elem → Prop
  | .para t, e' => ∃ t', ParaRel t t' ∧ e' = .para t'
  | .field n t, e' => e' = .field n t
  | .list en it, e' => e' = .list en it
  | .directive n a o b, e' => ∃ b', ElemsCrlf b b' ∧ e' = .directive n a o b'
def ElemsCrlf : List Elem → List Elem → Prop
  | [], es' => es' = []
  | e :: es, es' => ∃ e' es'', ElemCrlf e e' ∧ ElemsCrlf es es'' ∧ es' = e' :: es''
end

theorem ElemCrlf.ofPara {t t' : Str} (h : ParaRel t t') : ElemCrlf (.para t) (.para t') := by
  simp only [ElemCrlf]; exact ⟨t', h, rfl⟩

theorem ElemCrlf.dir {n : Str} {a : List Str} {o : List (Str × Str)} {b b' : List Elem} (h : ElemsCrlf b b') :
    ElemCrlf (.directive n a o b) (.directive n a o b') := by
  simp only [ElemCrlf]; exact ⟨b', h, rfl⟩

theorem ElemsCrlf.nil : ElemsCrlf [] [] := by simp only [ElemsCrlf]

theorem ElemsCrlf.cons {e e' : Elem} {es es' : List Elem} (h₁ : ElemCrlf e e') (h₂ : ElemsCrlf es es') :
    ElemsCrlf (e :: es) (e' :: es') := by
  simp only [ElemsCrlf]; exact ⟨e', es', h₁, h₂, rfl⟩

mutual
theorem ElemCrlf.refl : (e : Elem) → ElemCrlf e e
  | .para t => .ofPara (Or.inl rfl)
  | .field _ _ => by simp only [ElemCrlf]
  | .list _ _ => by simp only [ElemCrlf]
  | .directive _ _ _ b => .dir (ElemsCrlf.refl b)
theorem ElemsCrlf.refl : (es : List Elem) → ElemsCrlf es es
  | [] => .nil
  | e :: es => .cons (ElemCrlf.refl e) (ElemsCrlf.refl es)
end

theorem ElemsCrlf.append : ∀ {a a' b b' : List Elem}, ElemsCrlf a a' → ElemsCrlf b b' → ElemsCrlf (a ++ b) (a' ++ b')
  | [], _, _, _, h₁, h₂ => by
    simp only [ElemsCrlf] at h₁; subst h₁; exact h₂
  | e :: es, _, _, _, h₁, h₂ => by
    simp only [ElemsCrlf] at h₁
    obtain ⟨e', es'', he, hes, rfl⟩ := h₁
    exact .cons he (ElemsCrlf.append hes h₂)

theorem ElemsCrlf.isEmpty : ∀ {a a' : List Elem}, ElemsCrlf a a' → a'.isEmpty = a.isEmpty
  | [], _, h => by simp only [ElemsCrlf] at h; subst h; rfl
  | _ :: _, _, h => by
    simp only [ElemsCrlf] at h
    obtain ⟨_, _, _, _, rfl⟩ := h
    rfl

/-- the normalised lines of tagged lines placed at depth `d` -/
def normT (d : Nat) (ls : List (Bool × Str)) : List Str := normLines (ls.map (place d))

theorem normT_append (d : Nat) (a b : List (Bool × Str)) : normT d (a ++ b) = normT d a ++ normT d b := by
  simp [normT, normLines_append]

theorem normT_shift (d : Nat) (ls : List (Bool × Str)) : normT d (shiftT ls) = normT (d + 1) ls := by
  simp [normT, C07_place_shift]

theorem noCr_indent (d : Nat) : noCr (indent d) = indent d := by
  simp [noCr, indent]

theorem isBlankLine_indent (d : Nat) : isBlankLine (indent d) = true := by
  simp [isBlankLine, indent]

/-- the normalised lines of a paragraph at depth `d`, from its text without `'\r'` -/
def paraNorm (d : Nat) (u : Str) : List Str :=
  ((splitNl u).map (indent d ++ ·)).filter (fun l => !isBlankLine l)

theorem normT_para (d : Nat) (t : Str) : normT d (Elem.para t).tlines = paraNorm d (noCr t) := by
  simp only [normT, normLines, Elem.tlines, paraNorm, splitNl_noCr, List.map_map]
  congr 1
  apply List.map_congr_left
  intro l _
  simp [place, noCr_append, noCr_indent]

/-- a leading empty line of a paragraph becomes the whitespace-only line `indent d` and is dropped -/
theorem paraNorm_nl (d : Nat) (u : Str) : paraNorm d ('\n' :: u) = paraNorm d u := by
  simp [paraNorm, splitNl_cons_nl, isBlankLine_indent]

mutual
/-- related element trees have the same normalised lines at every depth -/
theorem ElemCrlf.normT_eq : (e e' : Elem) → ElemCrlf e e' → ∀ d, normT d e'.tlines = normT d e.tlines
  | .para t, e', h => by
    simp only [ElemCrlf] at h
    obtain ⟨t', hp, rfl⟩ := h
    intro d
    rw [normT_para, normT_para]
    rcases hp with hp | hp
    · rw [hp]
    · rw [hp, paraNorm_nl]
  | .field _ _, e', h => by simp only [ElemCrlf] at h; subst h; intro; rfl
  | .list _ _, e', h => by simp only [ElemCrlf] at h; subst h; intro; rfl
  | .directive n a o b, e', h => by
    simp only [ElemCrlf] at h
    obtain ⟨b', hb, rfl⟩ := h
    intro d
    simp only [Elem.tlines, hb.isEmpty, normT_append, normT_shift, ElemsCrlf.normT_eq b b' hb (d + 1)]
theorem ElemsCrlf.normT_eq : (es es' : List Elem) → ElemsCrlf es es' → ∀ d, normT d (tlinesList es') = normT d (tlinesList es)
  | [], es', h => by simp only [ElemsCrlf] at h; subst h; intro; rfl
  | e :: es, es', h => by
    simp only [ElemsCrlf] at h
    obtain ⟨e', es'', h₁, h₂, rfl⟩ := h
    intro d
    simp only [tlinesList, normT_append, ElemCrlf.normT_eq e e' h₁ d, ElemsCrlf.normT_eq es es'' h₂ d]
end

/-! ### from related entries to related element trees -/

theorem probeOk_field (pfx p : Str) (hx : '\n' ∉ pfx) (hp : '\n' ∉ p) : ProbeOk (pfx ++ p ++ [':']) := by
  refine ⟨by simp [hx, hp], ?_⟩
  rw [List.getLast?_append]
  simp

/-- the `:param p:` / `:type p:` probes of `MethodDocumentation.process` give the same answers on the converted doc
    text when the parameter names contain no line break -/
theorem methodFields_docRel {t t' : Str} (h : DocRel t t') :
    ∀ (tys ps : List Str), (∀ p ∈ ps, '\n' ∉ p) → methodFields t' tys ps = methodFields t tys ps
  | ty :: tys, p :: ps, hp => by
    have hp' : '\n' ∉ p := hp p (by simp)
    have h1 := h.isInfix _ (probeOk_field (lit ":param ") p (by simp [lit]) hp')
    have h2 := h.isInfix _ (probeOk_field (lit ":type ") p (by simp [lit]) hp')
    simp only [methodFields, h1, h2, methodFields_docRel h tys ps (fun q hq => hp q (List.mem_cons_of_mem _ hq))]
  | [], _, _ => by simp [methodFields]
  | _ :: _, [], _ => by simp [methodFields]

theorem Method.Crlf.toElem {m m' : Method} (h : Method.Crlf m m') (hp : ∀ p ∈ m.params, '\n' ∉ p) :
    ElemCrlf m.toElem m'.toElem := by
  obtain ⟨t', hd, rfl⟩ := h
  simp only [Method.toElem, methodFields_docRel hd m.paramTypes m.params hp]
  exact .dir (.append (.append (ElemsCrlf.refl _) (.cons (.ofPara hd.para) .nil)) (ElemsCrlf.refl _))

theorem Attr.Crlf.toElem {a a' : Attr} (h : Attr.Crlf a a') : ElemCrlf a.toElem a'.toElem := by
  obtain ⟨t', hd, rfl⟩ := h
  simp only [Attr.toElem]
  exact .dir (.cons (.ofPara hd.para) .nil)

theorem methods_toElem {cs cs' : List Method} (h : ListRel Method.Crlf cs cs')
    (ho : ∀ m ∈ cs, m.OneLine) : ElemsCrlf (cs.map Method.toElem) (cs'.map Method.toElem) := by
  induction h with
  | nil => exact .nil
  | cons hab _ ih =>
    exact .cons (hab.toElem (ho _ (by simp)).2.1) (ih (fun m hm => ho m (List.mem_cons_of_mem _ hm)))

theorem attrs_toElem {as as' : List Attr} (h : ListRel Attr.Crlf as as') :
    ElemsCrlf (as.map Attr.toElem) (as'.map Attr.toElem) := by
  induction h with
  | nil => exact .nil
  | cons hab _ ih => exact .cons hab.toElem ih

theorem section_crlf (title : Str) {xs xs' : List Elem} (h : ElemsCrlf xs xs') :
    ElemsCrlf (section? title xs) (section? title xs') := by
  simp only [section?, h.isEmpty]
  split
  · exact .nil
  · exact .cons (ElemCrlf.refl _) h

/-- related entries are rendered as related element trees (for a class: when its methods' parameter names contain
    no line break, which `Entry.OneLine` says) -/
theorem Entry.Crlf.toElem {e e' : Entry} (h : Entry.Crlf e e') (ho : e.OneLine) : ElemCrlf e.toElem e'.toElem := by
  cases h with
  | @module n t =>
    simp only [Entry.toElem, crlfText_isEmpty]
    refine .dir ?_
    split
    · exact .nil
    · exact .cons (.ofPara (Or.inl (noCr_crlfText t))) .nil
  | func hd =>
    simp only [Entry.toElem]
    exact .dir (.append (ElemsCrlf.refl _) (.cons (.ofPara hd.para) .nil))
  | var hd =>
    simp only [Entry.toElem]
    exact .dir (.cons (.ofPara hd.para) (ElemsCrlf.refl _))
  | opt hd =>
    simp only [Entry.toElem]
    exact .dir (.cons (ElemCrlf.refl _) (.cons (.ofPara hd.para) (ElemsCrlf.refl _)))
  | generic hd =>
    simp only [Entry.toElem]
    exact .dir (.cons (ElemCrlf.refl _) (.cons (.ofPara hd.para) .nil))
  | ctest hd =>
    simp only [Entry.toElem]
    exact .dir (.cons (ElemCrlf.refl _) (.cons (.ofPara hd.para) .nil))
  | test hd =>
    simp only [Entry.toElem]
    exact .dir (.cons (ElemCrlf.refl _) (.cons (.ofPara hd.para) .nil))
  | cls hd hc hm ha =>
    simp only [Entry.OneLine] at ho
    obtain ⟨-, -, hoc, hom, -⟩ := ho
    simp only [Entry.toElem]
    refine .dir (.append (.append (.append (.append (.append (ElemsCrlf.refl _) (.cons (.ofPara hd.para) .nil)) ?_) ?_) ?_)
      (ElemsCrlf.refl _))
    · exact section_crlf _ (methods_toElem hc hoc)
    · exact section_crlf _ (methods_toElem hm hom)
    · exact section_crlf _ (attrs_toElem ha)

theorem ListRel.forall_right {α β : Type} {R : α → β → Prop} {P : α → Prop} {Q : β → Prop} {as : List α} {bs : List β}
    (h : ListRel R as bs) (hR : ∀ a b, R a b → P a → Q b) (hP : ∀ a ∈ as, P a) : ∀ b ∈ bs, Q b := by
  induction h with
  | nil => intro b hb; simp at hb
  | cons hab _ ih =>
    intro b hb
    rcases List.mem_cons.1 hb with rfl | hb
    · exact hR _ _ hab (hP _ (by simp))
    · exact ih (fun a ha => hP a (List.mem_cons_of_mem _ ha)) b hb

theorem Method.Crlf.oneLine {m m' : Method} (h : Method.Crlf m m') (ho : m.OneLine) : m'.OneLine := by
  obtain ⟨t', _, rfl⟩ := h; exact ho

theorem Attr.Crlf.oneLine {a a' : Attr} (h : Attr.Crlf a a') (ho : a.OneLine) : a'.OneLine := by
  obtain ⟨t', _, rfl⟩ := h; exact ho

/-- "argument values contain no line breaks" does not depend on the doc texts -/
theorem Entry.Crlf.oneLine {e e' : Entry} (h : Entry.Crlf e e') (ho : e.OneLine) : e'.OneLine := by
  cases h with
  | cls hd hc hm ha =>
    simp only [Entry.OneLine] at ho ⊢
    obtain ⟨h1, h2, h3, h4, h5⟩ := ho
    exact ⟨h1, h2, hc.forall_right (fun _ _ => Method.Crlf.oneLine) h3,
      hm.forall_right (fun _ _ => Method.Crlf.oneLine) h4, ha.forall_right (fun _ _ => Attr.Crlf.oneLine) h5⟩
  | _ => exact ho

theorem Entry.Crlf.isModule {e e' : Entry} (h : Entry.Crlf e e') : isModule e' = isModule e := by
  cases h <;> rfl

theorem Entry.Crlf.nameModule {e e' : Entry} (modName : Str) (h : Entry.Crlf e e') :
    Entry.Crlf (nameModule modName e) (nameModule modName e') := by
  cases h with
  | @module n t =>
    simp only [Cminx.nameModule]
    split <;> exact .module
  | func hd => exact .func hd
  | var hd => exact .var hd
  | opt hd => exact .opt hd
  | generic hd => exact .generic hd
  | ctest hd => exact .ctest hd
  | test hd => exact .test hd
  | cls hd hc hm ha => exact .cls hd hc hm ha

theorem ListRel.any_isModule {es es' : List Entry} (h : ListRel Entry.Crlf es es') :
    es'.any isModule = es.any isModule := by
  induction h with
  | nil => rfl
  | cons hab _ ih => simp only [List.any_cons, hab.isModule, ih]

theorem ListRel.map_nameModule {es es' : List Entry} (modName : Str) (h : ListRel Entry.Crlf es es') :
    ListRel Entry.Crlf (es.map (nameModule modName)) (es'.map (nameModule modName)) := by
  induction h with
  | nil => exact .nil
  | cons hab _ ih => exact .cons (hab.nameModule modName) ih

/-- the page title is computed from the module names, which do not change -/
theorem ListRel.titleOf {es es' : List Entry} (h : ListRel Entry.Crlf es es') (title : Str) :
    titleOf title es' = titleOf title es := by
  induction h generalizing title with
  | nil => rfl
  | cons hab _ ih =>
    cases hab with
    | @module n t => simp only [Cminx.titleOf, ih]
    | _ => simp only [Cminx.titleOf, ih]

theorem renderedDocs_crlf (modName : Str) {es es' : List Entry} (h : ListRel Entry.Crlf es es') :
    ListRel Entry.Crlf (renderedDocs modName es) (renderedDocs modName es') := by
  simp only [renderedDocs, h.any_isModule]
  split
  · exact h.map_nameModule modName
  · exact ListRel.map_nameModule modName (.cons (.module (t := [])) h)

theorem entries_toElem {es es' : List Entry} (h : ListRel Entry.Crlf es es') (ho : ∀ e ∈ es, e.OneLine) :
    ElemsCrlf (es.map Entry.toElem) (es'.map Entry.toElem) := by
  induction h with
  | nil => exact .nil
  | cons hab _ ih => exact .cons (hab.toElem (ho _ (by simp))) (ih (fun e he => ho e (List.mem_cons_of_mem _ he)))

/-- **the two pages of related `documented` lists agree after the normalisation** -/
theorem C04_crlf_pages (hc title modName : Str) (hm : '\n' ∉ modName) {es es' : List Entry}
    (h : ListRel Entry.Crlf es es') (ho : ∀ e ∈ es, e.OneLine) :
    normPage (processDocs hc title modName es').render = normPage (processDocs hc title modName es).render := by
  have ho' : ∀ e ∈ es', e.OneLine := h.forall_right (fun _ _ => Entry.Crlf.oneLine) ho
  have hr := renderedDocs_crlf modName h
  have hor : ∀ e ∈ renderedDocs modName es, e.OneLine := by
    intro e he
    simp only [renderedDocs, List.mem_map] at he
    obtain ⟨e₀, he₀, rfl⟩ := he
    apply C07_nameModule_one_line modName hm
    split at he₀
    · exact ho e₀ he₀
    · rcases List.mem_cons.1 he₀ with rfl | he₀
      · exact hm
      · exact ho e₀ he₀
  have hel := entries_toElem hr hor
  have hn := ElemsCrlf.normT_eq _ _ hel 0
  rw [normPage_eq, normPage_eq, C07_page_lines hc title modName es' hm ho', C07_page_lines hc title modName es hm ho,
    normLines_append, normLines_append, h.titleOf title]
  congr 1
  simp only [normT] at hn
  have hz : ∀ ls : List (Bool × Str), ls.map (place 0) = ls.map (·.2) :=
    fun ls => List.map_congr_left (fun bl _ => C07_place_zero bl)
  rw [hz, hz] at hn
  exact hn

/-- **C04, CRLF half, at the level of the generated page.**  `m`: a valid, well-formed module (outside K1) all of
    whose doccomments are canonical; `m.toCrlf`: the same module with every line end converted to CRLF (valid as
    well).  If the trigger string contains no line break and does not end in `'\r'` and the argument values that
    the templates put on one line contain no line break, then both files are processed to a page, and the two pages
    are equal after deleting every `'\r'` and dropping the whitespace-only lines. -/
theorem C04_crlf_page (cfg : Cfg) (hc : Str) (hs : List Str) (title modName : Str) (m : Module)
    (hv : m.valid = true) (hv' : m.toCrlf.valid = true) (hwf : itemsWf false m.items = true)
    (hk1 : cfg.inclCppClass = true ∨ itemsHaveDocumentedClass m.items = false)
    (hcan : m.docsCanonical) (htr : ProbeOk cfg.trigger) (hm : '\n' ∉ modName)
    (hone : ∀ e ∈ m.entries cfg, e.OneLine) :
    ∃ out out', pipeline cfg (hc :: hs) title modName m.render = .ok out ∧
      pipeline cfg (hc :: hs) title modName m.toCrlf.render = .ok out' ∧ normPage out' = normPage out := by
  obtain ⟨g1, g2⟩ := C04_crlf_guards m
  refine ⟨_, _, T_pipeline cfg hc hs title modName m hv hwf hk1,
    T_pipeline cfg hc hs title modName m.toCrlf hv' (g1 ▸ hwf) (g2 ▸ hk1), ?_⟩
  exact C04_crlf_pages hc title modName hm (C04_crlf_entries cfg htr m hcan) hone

/-! ## `Module.toCrlf` is the conversion of the file text

For an LF module whose raw texts (comment texts, argument texts, doccomment lines, names) contain no line break,
the printed text of `m.toCrlf` is the printed text of `m` with every `'\n'` replaced by `"\r\n"`. -/

def noNlB (s : Str) : Bool := !s.contains '\n'

theorem noNl_of_noNlB {s : Str} (h : noNlB s = true) : '\n' ∉ s := by
  simpa [noNlB] using h

def SepAtom.lfPlain : SepAtom → Bool
  | .spaces _ => true
  | .tabs _ => true
  | .nl crlf => !crlf
  | .lineComment t eol => noNlB t && eol != some true
  | .bracketComment _ t => noNlB t

def sepLfPlain : Sep → Bool
  | [] => true
  | a :: as => a.lfPlain && sepLfPlain as

def ArgTok.lfPlain : ArgTok → Bool
  | .bare s => noNlB s
  | .quoted s => noNlB s
  | .bracket _ s => noNlB s

mutual
def SArg.lfPlain : SArg → Bool
  | .tok pre t => sepLfPlain pre && t.lfPlain
  | .group pre args close => sepLfPlain pre && sargsLfPlain args && sepLfPlain close
def sargsLfPlain : List SArg → Bool
  | [] => true
  | a :: as => a.lfPlain && sargsLfPlain as
end

def Call.lfPlain (c : Call) : Bool := sepLfPlain c.pre && noNlB c.name && sargsLfPlain c.args && sepLfPlain c.close

def DocC.lfPlain (d : DocC) : Bool :=
  sepLfPlain d.pre && noNlB d.ind && noNlB d.openSuffix && d.lines.all noNlB && !d.crlf

def docOptLfPlain : Option DocC → Bool
  | some d => d.lfPlain
  | none => true

mutual
def Item.lfPlain : Item → Bool
  | .cmd doc call => docOptLfPlain doc && call.lfPlain
  | .block doc o body c => docOptLfPlain doc && o.lfPlain && itemsLfPlain body && c.lfPlain
  | .decl doc d i body c => docOptLfPlain doc && d.lfPlain && i.lfPlain && itemsLfPlain body && c.lfPlain
  | .dangling d => d.lfPlain
def itemsLfPlain : List Item → Bool
  | [] => true
  | i :: is => i.lfPlain && itemsLfPlain is
end

/-- an LF file: every line end is LF, and no comment text, argument text, doccomment line or name contains a line
    break of its own -/
def Module.lfPlain (m : Module) : Bool := docOptLfPlain m.modDoc && itemsLfPlain m.items && sepLfPlain m.tail

theorem noNl_replicate {n : Nat} {c : Char} (h : c ≠ '\n') : '\n' ∉ List.replicate n c := by
  intro hm
  exact h (List.eq_of_mem_replicate hm).symm

theorem noNl_bracketOpen (lvl : Nat) : '\n' ∉ bracketOpen lvl := by
  have := @noNl_replicate lvl '=' (by decide)
  simp [bracketOpen, this]

theorem noNl_bracketClose (lvl : Nat) : '\n' ∉ bracketClose lvl := by
  have := @noNl_replicate lvl '=' (by decide)
  simp [bracketClose, this]

theorem SepAtom.render_toCrlf (a : SepAtom) (h : a.lfPlain = true) : a.toCrlf.render = crlfText a.render := by
  cases a with
  | spaces n => exact (crlfText_of_noNl (noNl_replicate (by decide))).symm
  | tabs n => exact (crlfText_of_noNl (noNl_replicate (by decide))).symm
  | nl crlf =>
    simp only [SepAtom.lfPlain, Bool.not_eq_true'] at h
    subst h; rfl
  | lineComment t eol =>
    simp only [SepAtom.lfPlain, Bool.and_eq_true] at h
    have ht := noNl_of_noNlB h.1
    cases eol with
    | none =>
      simp only [SepAtom.toCrlf, SepAtom.render, List.append_nil]
      exact (crlfText_of_noNl (by simp [ht])).symm
    | some b =>
      cases b with
      | true => simp at h
      | false =>
        show '#' :: (t ++ ['\r', '\n']) = crlfText ('#' :: (t ++ ['\n']))
        rw [crlfText_cons_of_ne _ _ (by decide), crlfText_append, crlfText_of_noNl ht]
        rfl
  | bracketComment lvl t =>
    simp only [SepAtom.lfPlain] at h
    have ht := noNl_of_noNlB h
    have h1 := noNl_bracketOpen lvl
    have h2 := noNl_bracketClose lvl
    exact (crlfText_of_noNl (by simp [SepAtom.toCrlf, SepAtom.render, ht, h1, h2])).symm

theorem renderSep_toCrlf : (s : Sep) → sepLfPlain s = true → renderSep (sepToCrlf s) = crlfText (renderSep s)
  | [], _ => rfl
  | a :: as, h => by
    simp only [sepLfPlain, Bool.and_eq_true] at h
    simp only [sepToCrlf, List.map_cons, renderSep, crlfText_append, SepAtom.render_toCrlf a h.1]
    rw [← renderSep_toCrlf as h.2]; rfl

theorem ArgTok.text_noNl (t : ArgTok) (h : t.lfPlain = true) : '\n' ∉ t.text := by
  cases t with
  | bare s => exact noNl_of_noNlB h
  | quoted s => have := noNl_of_noNlB (s := s) h; simp [ArgTok.text, this]
  | bracket lvl s =>
    have := noNl_of_noNlB (s := s) h
    have h1 := noNl_bracketOpen lvl
    have h2 := noNl_bracketClose lvl
    simp [ArgTok.text, this, h1, h2]

mutual
theorem SArg.render_toCrlf : (a : SArg) → a.lfPlain = true → a.toCrlf.render = crlfText a.render
  | .tok pre t, h => by
    simp only [SArg.lfPlain, Bool.and_eq_true] at h
    simp only [SArg.toCrlf, SArg.render, crlfText_append, renderSep_toCrlf pre h.1,
      crlfText_of_noNl (t.text_noNl h.2)]
  | .group pre args close, h => by
    simp only [SArg.lfPlain, Bool.and_eq_true] at h
    simp only [SArg.toCrlf, SArg.render, crlfText_append, renderSep_toCrlf pre h.1.1, renderSep_toCrlf close h.2,
      renderSArgs_toCrlf args h.1.2]
    rw [crlfText_cons_of_ne _ _ (by decide), crlfText_append, crlfText_append]
    rfl
theorem renderSArgs_toCrlf : (as : List SArg) → sargsLfPlain as = true →
    renderSArgs (sargsToCrlf as) = crlfText (renderSArgs as)
  | [], _ => rfl
  | a :: as, h => by
    simp only [sargsLfPlain, Bool.and_eq_true] at h
    simp only [sargsToCrlf, renderSArgs, crlfText_append, SArg.render_toCrlf a h.1, renderSArgs_toCrlf as h.2]
end

theorem Call.render_toCrlf (c : Call) (h : c.lfPlain = true) : c.toCrlf.render = crlfText c.render := by
  simp only [Call.lfPlain, Bool.and_eq_true] at h
  obtain ⟨⟨⟨h1, h2⟩, h3⟩, h4⟩ := h
  simp only [Call.toCrlf, Call.render, crlfText_append, renderSep_toCrlf _ h1, renderSep_toCrlf _ h4,
    renderSArgs_toCrlf _ h3, crlfText_of_noNl (noNl_of_noNlB h2),
    crlfText_of_noNl (noNl_replicate (n := c.sp) (c := ' ') (by decide))]
  rw [crlfText_cons_of_ne _ _ (by decide), crlfText_append, crlfText_append]
  rfl

theorem crlfText_flatten (ls : List Str) : crlfText ls.flatten = (ls.map crlfText).flatten := by
  induction ls with
  | nil => rfl
  | cons l ls ih => simp only [List.flatten_cons, List.map_cons, crlfText_append, ih]

theorem DocC.render_toCrlf (d : DocC) (h : d.lfPlain = true) : d.toCrlf.render = crlfText d.render := by
  simp only [DocC.lfPlain, Bool.and_eq_true, Bool.not_eq_true', List.all_eq_true] at h
  obtain ⟨⟨⟨⟨h1, h2⟩, h3⟩, h4⟩, h5⟩ := h
  have hi := noNl_of_noNlB h2
  have hstart : '\n' ∉ docStart := by rw [docStart_eq]; decide
  have hend : '\n' ∉ docEnd := by rw [docEnd_eq]; decide
  have hlines : (d.lines.map (fun t => d.bodyLine t ++ eolStr false)).map crlfText
      = d.lines.map (fun t => d.toCrlf.bodyLine t ++ eolStr true) := by
    rw [List.map_map]
    apply List.map_congr_left
    intro t ht
    simp only [Function.comp, crlfText_append, crlfText_of_noNl (d.bodyLine_noNl t hi (noNl_of_noNlB (h4 t ht)))]
    rfl
  simp only [DocC.render, DocC.tokenText, h5, crlfText_append, crlfText_flatten, hlines, crlfText_of_noNl hi,
    crlfText_of_noNl hstart, crlfText_of_noNl hend, crlfText_of_noNl (noNl_of_noNlB h3), ← renderSep_toCrlf _ h1]
  rfl

theorem renderDocOpt_toCrlf (doc : Option DocC) (h : docOptLfPlain doc = true) :
    renderDocOpt (doc.map DocC.toCrlf) = crlfText (renderDocOpt doc) := by
  cases doc with
  | none => rfl
  | some d => exact d.render_toCrlf h

mutual
theorem Item.render_toCrlf : (i : Item) → i.lfPlain = true → i.toCrlf.render = crlfText i.render
  | .cmd doc call, h => by
    simp only [Item.lfPlain, Bool.and_eq_true] at h
    simp only [Item.toCrlf, Item.render, crlfText_append, renderDocOpt_toCrlf doc h.1, call.render_toCrlf h.2]
  | .block doc o body c, h => by
    simp only [Item.lfPlain, Bool.and_eq_true] at h
    simp only [Item.toCrlf, Item.render, crlfText_append, renderDocOpt_toCrlf doc h.1.1.1, o.render_toCrlf h.1.1.2,
      renderSrcItems_toCrlf body h.1.2, c.render_toCrlf h.2]
  | .decl doc d i body c, h => by
    simp only [Item.lfPlain, Bool.and_eq_true] at h
    simp only [Item.toCrlf, Item.render, crlfText_append, renderDocOpt_toCrlf doc h.1.1.1.1, d.render_toCrlf h.1.1.1.2,
      i.render_toCrlf h.1.1.2, renderSrcItems_toCrlf body h.1.2, c.render_toCrlf h.2]
  | .dangling d, h => by
    simp only [Item.lfPlain] at h
    simp only [Item.toCrlf, Item.render, d.render_toCrlf h]
theorem renderSrcItems_toCrlf : (is : List Item) → itemsLfPlain is = true →
    renderSrcItems (itemsToCrlf is) = crlfText (renderSrcItems is)
  | [], _ => rfl
  | i :: is, h => by
    simp only [itemsLfPlain, Bool.and_eq_true] at h
    simp only [itemsToCrlf, renderSrcItems, crlfText_append, Item.render_toCrlf i h.1, renderSrcItems_toCrlf is h.2]
end

/-- **`Module.toCrlf` converts the text**: the printed text of the converted module is the printed text of the module
    with every `'\n'` replaced by `"\r\n"` -/
theorem C04_crlf_render (m : Module) (h : m.lfPlain = true) : m.toCrlf.render = crlfText m.render := by
  simp only [Module.lfPlain, Bool.and_eq_true] at h
  simp only [Module.toCrlf, Module.render, crlfText_append, renderDocOpt_toCrlf _ h.1.1, renderSrcItems_toCrlf _ h.1.2,
    renderSep_toCrlf _ h.2]
  have hb : '\n' ∉ (if m.bom = true then [Char.ofNat 0xFEFF] else []) := by split <;> decide
  rw [crlfText_of_noNl hb]
  rfl

/-! ## validity is preserved (for LF files without any `'\r'`)

`Module.valid` (`TLex.lean`) judges every token and filler atom in the context of the text that follows it.  For
an LF module (`Module.lfPlain`) whose text contains no `'\r'` at all, the converted module is valid again. -/

theorem findAfter_none_iff (pat : Str) : ∀ s : Str, findAfter pat s = none ↔ isInfix pat s = false
  | [] => by cases h : pat.isEmpty <;> simp [findAfter, isInfix, h]
  | c :: cs => by
    have ih := findAfter_none_iff pat cs
    cases hp : pat.isPrefixOf (c :: cs) <;> simp [findAfter, isInfix, hp, ih]

theorem findAfter_crlfText_none (pat : Str) (hp : ProbeOk pat) (s : Str) (h : findAfter pat s = none) :
    findAfter pat (crlfText s) = none := by
  rw [findAfter_none_iff] at h ⊢
  rw [isInfix_crlfText pat hp, h]

/-- if the first occurrence of the probe in `X ++ probe` is the one at the end, the same holds after conversion -/
theorem findAfter_end_crlfText (pat : Str) (hp : ProbeOk pat) (hne : pat ≠ []) :
    ∀ X : Str, findAfter pat (X ++ pat) = some (X.length + pat.length) →
      findAfter pat (crlfText X ++ pat) = some ((crlfText X).length + pat.length)
  | [], h => h
  | c :: cs, h => by
    have hpe : pat.isEmpty = false := by cases pat <;> simp_all
    have hpat : crlfText pat = pat := crlfText_of_noNl hp.1
    have hpre := isPrefixOf_crlfText (c :: cs ++ pat) pat hp
    simp only [List.cons_append, findAfter] at h
    split at h
    · simp only [Option.some.injEq, List.length_cons] at h; omega
    · rename_i hnp
      have hnp' : pat.isPrefixOf (c :: (cs ++ pat)) = false := Bool.eq_false_iff.2 hnp
      cases hf : findAfter pat (cs ++ pat) with
      | none => simp [hf] at h
      | some k =>
        simp only [hf, Option.map_some, Option.some.injEq, List.length_cons] at h
        have hk : k = cs.length + pat.length := by omega
        subst hk
        have ih := findAfter_end_crlfText pat hp hne cs hf
        rw [List.cons_append, hnp'] at hpre
        by_cases hc : c = '\n'
        · subst hc
          rw [crlfText_cons_nl, crlfText_append, hpat] at hpre
          rw [crlfText_cons_nl]
          simp only [List.cons_append, findAfter, hpre, isPrefixOf_cons_nl_of_noNl hp.1, hpe, Bool.false_eq_true,
            if_false, ih, Option.map_some, List.length_cons]
          congr 1; omega
        · rw [crlfText_cons_of_ne c _ hc, crlfText_append, hpat] at hpre
          rw [crlfText_cons_of_ne c cs hc]
          simp only [List.cons_append, findAfter, hpre, Bool.false_eq_true, if_false, ih, Option.map_some,
            List.length_cons]
          congr 1; omega

theorem stopHead_crlfText (s : Str) : stopHead (crlfText s) = stopHead s := by
  cases s with
  | nil => rfl
  | cons c cs =>
    by_cases hc : c = '\n'
    · subst hc; rw [crlfText_cons_nl]; rfl
    · rw [crlfText_cons_of_ne c cs hc]; rfl

theorem startsWithEol_crlfText (s : Str) (hcr : '\r' ∉ s) (h : startsWithEol s = true) :
    startsWithEol (crlfText s) = true := by
  cases s with
  | nil => simp [startsWithEol] at h
  | cons c cs =>
    by_cases hc : c = '\n'
    · subst hc; rw [crlfText_cons_nl]; rfl
    · have hr : c ≠ '\r' := fun e => hcr (by simp [e])
      exfalso
      unfold startsWithEol at h
      split at h
      · exact hc (by simp_all)
      · exact hr (by simp_all)
      · simp at h

theorem probeOk_docEnd : ProbeOk docEnd := by
  rw [docEnd_eq]; exact ⟨by decide, by decide⟩

theorem SepAtom.valid_toCrlf (a : SepAtom) (follow : Str) (hp : a.lfPlain = true) (hcr : '\r' ∉ follow)
    (hv : a.valid follow = true) : a.toCrlf.valid (crlfText follow) = true := by
  cases a with
  | spaces n => rfl
  | tabs n => rfl
  | nl crlf => rfl
  | lineComment t eol =>
    simp only [SepAtom.valid, Bool.and_eq_true, Bool.or_eq_true] at hv
    obtain ⟨⟨h1, h2⟩, h3⟩ := hv
    cases eol with
    | some b => simp [SepAtom.toCrlf, SepAtom.valid, h1, h2]
    | none =>
      simp only [SepAtom.toCrlf, SepAtom.valid, Bool.and_eq_true, Bool.or_eq_true]
      refine ⟨⟨h1, h2⟩, ?_⟩
      rcases h3 with (h3 | h3) | h3
      · simp at h3
      · exact Or.inl (Or.inr (by rw [crlfText_isEmpty]; exact h3))
      · exact Or.inr (startsWithEol_crlfText follow hcr h3)
  | bracketComment lvl t =>
    simp only [SepAtom.lfPlain] at hp
    have ht := noNl_of_noNlB hp
    simp only [SepAtom.valid, Bool.and_eq_true, Bool.or_eq_true] at hv
    simp only [SepAtom.toCrlf, SepAtom.valid, Bool.and_eq_true, Bool.or_eq_true]
    refine ⟨hv.1, ?_⟩
    rcases hv.2 with h | h
    · exact Or.inl h
    · right
      have e : t ++ (bracketClose lvl ++ crlfText follow) = crlfText (t ++ (bracketClose lvl ++ follow)) := by
        rw [crlfText_append, crlfText_append, crlfText_of_noNl ht, crlfText_of_noNl (noNl_bracketClose lvl)]
      rw [e]
      have h' : findAfter docEnd (t ++ (bracketClose lvl ++ follow)) = none := by simpa using h
      rw [findAfter_crlfText_none docEnd probeOk_docEnd _ h']
      rfl

theorem sepValid_toCrlf : (s : Sep) → (follow : Str) → sepLfPlain s = true → '\r' ∉ renderSep s ++ follow →
    sepValid follow s = true → sepValid (crlfText follow) (sepToCrlf s) = true
  | [], _, _, _, _ => rfl
  | a :: as, follow, hp, hcr, hv => by
    simp only [sepLfPlain, Bool.and_eq_true] at hp
    simp only [sepValid, Bool.and_eq_true] at hv
    simp only [renderSep, List.append_assoc, List.mem_append, not_or] at hcr
    have hcr' : '\r' ∉ renderSep as ++ follow := by simp only [List.mem_append, not_or]; exact hcr.2
    simp only [sepToCrlf, List.map_cons, sepValid, Bool.and_eq_true]
    refine ⟨?_, sepValid_toCrlf as follow hp.2 hcr' hv.2⟩
    have e : renderSep (List.map SepAtom.toCrlf as) ++ crlfText follow = crlfText (renderSep as ++ follow) := by
      rw [crlfText_append, ← renderSep_toCrlf as hp.2]; rfl
    rw [e]
    exact a.valid_toCrlf _ hp.1 hcr' hv.1

theorem ArgTok.valid_crlfText (t : ArgTok) (follow : Str) (hv : t.valid follow = true) :
    t.valid (crlfText follow) = true := by
  cases t <;> simpa only [ArgTok.valid, stopHead_crlfText] using hv

mutual
theorem SArg.valid_toCrlf : (a : SArg) → (follow : Str) → a.lfPlain = true → '\r' ∉ a.render ++ follow →
    a.valid follow = true → a.toCrlf.valid (crlfText follow) = true
  | .tok pre t, follow, hp, hcr, hv => by
    simp only [SArg.lfPlain, Bool.and_eq_true] at hp
    simp only [SArg.valid, Bool.and_eq_true] at hv
    simp only [SArg.render, List.append_assoc] at hcr
    simp only [SArg.toCrlf, SArg.valid, Bool.and_eq_true]
    refine ⟨?_, t.valid_crlfText follow hv.2⟩
    have e : t.text ++ crlfText follow = crlfText (t.text ++ follow) := by
      rw [crlfText_append, crlfText_of_noNl (t.text_noNl hp.2)]
    rw [e]
    exact sepValid_toCrlf pre _ hp.1 hcr hv.1
  | .group pre args close, follow, hp, hcr, hv => by
    simp only [SArg.lfPlain, Bool.and_eq_true] at hp
    simp only [SArg.valid, Bool.and_eq_true] at hv
    simp only [SArg.render, List.append_assoc, List.cons_append] at hcr
    simp only [SArg.toCrlf, SArg.valid, Bool.and_eq_true]
    have e1 : '(' :: (renderSArgs (sargsToCrlf args) ++ (renderSep (sepToCrlf close) ++ ')' :: crlfText follow)) =
        crlfText ('(' :: (renderSArgs args ++ (renderSep close ++ ')' :: follow))) := by
      rw [crlfText_cons_of_ne _ _ (by decide), crlfText_append, crlfText_append, crlfText_cons_of_ne _ _ (by decide),
        renderSArgs_toCrlf args hp.1.2, renderSep_toCrlf close hp.2]
    have e2 : renderSep (sepToCrlf close) ++ ')' :: crlfText follow = crlfText (renderSep close ++ ')' :: follow) := by
      rw [crlfText_append, crlfText_cons_of_ne _ _ (by decide), renderSep_toCrlf close hp.2]
    have e3 : ')' :: crlfText follow = crlfText (')' :: follow) := by
      rw [crlfText_cons_of_ne _ _ (by decide)]
    rw [e1, e2, e3]
    refine ⟨⟨sepValid_toCrlf pre _ hp.1.1 ?_ hv.1.1, sargsValid_toCrlf args _ hp.1.2 ?_ hv.1.2⟩,
      sepValid_toCrlf close _ hp.2 ?_ hv.2⟩
    all_goals (simp only [List.mem_append, List.mem_cons, List.not_mem_nil, not_or] at hcr ⊢; simp [hcr])
theorem sargsValid_toCrlf : (as : List SArg) → (follow : Str) → sargsLfPlain as = true →
    '\r' ∉ renderSArgs as ++ follow → sargsValid follow as = true →
    sargsValid (crlfText follow) (sargsToCrlf as) = true
  | [], _, _, _, _ => rfl
  | a :: as, follow, hp, hcr, hv => by
    simp only [sargsLfPlain, Bool.and_eq_true] at hp
    simp only [sargsValid, Bool.and_eq_true] at hv
    simp only [renderSArgs, List.append_assoc] at hcr
    simp only [sargsToCrlf, sargsValid, Bool.and_eq_true]
    have e : renderSArgs (sargsToCrlf as) ++ crlfText follow = crlfText (renderSArgs as ++ follow) := by
      rw [crlfText_append, renderSArgs_toCrlf as hp.2]
    rw [e]
    refine ⟨SArg.valid_toCrlf a _ hp.1 hcr hv.1, sargsValid_toCrlf as follow hp.2 ?_ hv.2⟩
    simp only [List.mem_append, not_or] at hcr ⊢
    exact hcr.2
end

theorem Call.valid_toCrlf (c : Call) (follow : Str) (hp : c.lfPlain = true) (hcr : '\r' ∉ c.render ++ follow)
    (hv : c.valid follow = true) : c.toCrlf.valid (crlfText follow) = true := by
  simp only [Call.lfPlain, Bool.and_eq_true] at hp
  obtain ⟨⟨⟨p1, p2⟩, p3⟩, p4⟩ := hp
  simp only [Call.valid, Bool.and_eq_true] at hv
  obtain ⟨⟨⟨v1, v2⟩, v3⟩, v4⟩ := hv
  simp only [Call.render, List.append_assoc, List.cons_append] at hcr
  simp only [Call.toCrlf, Call.valid, Bool.and_eq_true]
  have hsp : crlfText (List.replicate c.sp ' ') = List.replicate c.sp ' ' := crlfText_of_noNl (noNl_replicate (by decide))
  have e1 : c.name ++ (List.replicate c.sp ' ' ++
        '(' :: (renderSArgs (sargsToCrlf c.args) ++ (renderSep (sepToCrlf c.close) ++ ')' :: crlfText follow))) =
      crlfText (c.name ++ (List.replicate c.sp ' ' ++ '(' :: (renderSArgs c.args ++ (renderSep c.close ++ ')' :: follow)))) := by
    rw [crlfText_append, crlfText_append, crlfText_cons_of_ne _ _ (by decide), crlfText_append, crlfText_append,
      crlfText_cons_of_ne _ _ (by decide), renderSArgs_toCrlf _ p3, renderSep_toCrlf _ p4,
      crlfText_of_noNl (noNl_of_noNlB p2), hsp]
  have e2 : renderSep (sepToCrlf c.close) ++ ')' :: crlfText follow = crlfText (renderSep c.close ++ ')' :: follow) := by
    rw [crlfText_append, crlfText_cons_of_ne _ _ (by decide), renderSep_toCrlf _ p4]
  have e3 : ')' :: crlfText follow = crlfText (')' :: follow) := by rw [crlfText_cons_of_ne _ _ (by decide)]
  rw [e1, e2, e3]
  refine ⟨⟨⟨v1, sepValid_toCrlf c.pre _ p1 ?_ v2⟩, sargsValid_toCrlf c.args _ p3 ?_ v3⟩, sepValid_toCrlf c.close _ p4 ?_ v4⟩
  all_goals (simp only [List.mem_append, List.mem_cons, List.not_mem_nil, not_or] at hcr ⊢; simp [hcr])

theorem DocC.lines_toCrlf (d : DocC) (hi : '\n' ∉ d.ind) (hl : ∀ t ∈ d.lines, '\n' ∉ t) :
    (d.lines.map (fun t => d.bodyLine t ++ eolStr false)).map crlfText
      = d.lines.map (fun t => d.toCrlf.bodyLine t ++ eolStr true) := by
  rw [List.map_map]
  apply List.map_congr_left
  intro t ht
  simp only [Function.comp, crlfText_append, crlfText_of_noNl (d.bodyLine_noNl t hi (hl t ht))]
  rfl

theorem DocC.tokenText_toCrlf (d : DocC) (h : d.lfPlain = true) : d.toCrlf.tokenText = crlfText d.tokenText := by
  simp only [DocC.lfPlain, Bool.and_eq_true, Bool.not_eq_true', List.all_eq_true] at h
  obtain ⟨⟨⟨⟨_, h2⟩, h3⟩, h4⟩, h5⟩ := h
  have hi := noNl_of_noNlB h2
  have hstart : '\n' ∉ docStart := by rw [docStart_eq]; decide
  have hend : '\n' ∉ docEnd := by rw [docEnd_eq]; decide
  simp only [DocC.tokenText, h5, crlfText_append, crlfText_flatten,
    d.lines_toCrlf hi (fun t ht => noNl_of_noNlB (h4 t ht)), crlfText_of_noNl hi,
    crlfText_of_noNl hstart, crlfText_of_noNl hend, crlfText_of_noNl (noNl_of_noNlB h3)]
  rfl

theorem DocC.inner_toCrlf (d : DocC) (h : d.lfPlain = true) : d.toCrlf.inner = crlfText d.inner := by
  simp only [DocC.lfPlain, Bool.and_eq_true, Bool.not_eq_true', List.all_eq_true] at h
  obtain ⟨⟨⟨⟨_, h2⟩, h3⟩, h4⟩, h5⟩ := h
  have hi := noNl_of_noNlB h2
  simp only [DocC.inner, h5, crlfText_append, crlfText_flatten,
    d.lines_toCrlf hi (fun t ht => noNl_of_noNlB (h4 t ht)), crlfText_of_noNl hi,
    crlfText_of_noNl (noNl_of_noNlB h3)]
  rfl

theorem DocC.valid_toCrlf (d : DocC) (isModule : Bool) (follow : Str) (hp : d.lfPlain = true)
    (hcr : '\r' ∉ d.render ++ follow) (hv : d.valid isModule follow = true) :
    d.toCrlf.valid isModule (crlfText follow) = true := by
  have hp' := hp
  simp only [DocC.lfPlain, Bool.and_eq_true, Bool.not_eq_true', List.all_eq_true] at hp'
  obtain ⟨⟨⟨⟨p1, p2⟩, _⟩, _⟩, _⟩ := hp'
  simp only [DocC.valid, Bool.and_eq_true, beq_iff_eq] at hv
  obtain ⟨⟨⟨v1, v2⟩, v3⟩, v4⟩ := hv
  simp only [DocC.render, List.append_assoc] at hcr
  simp only [DocC.valid, Bool.and_eq_true, beq_iff_eq]
  refine ⟨⟨⟨?_, v2⟩, ?_⟩, v4⟩
  · have e : d.toCrlf.ind ++ (d.toCrlf.tokenText ++ crlfText follow) = crlfText (d.ind ++ (d.tokenText ++ follow)) := by
      rw [crlfText_append, crlfText_append, d.tokenText_toCrlf hp, crlfText_of_noNl (noNl_of_noNlB p2)]; rfl
    rw [e]
    exact sepValid_toCrlf d.pre _ p1 hcr v1
  · rw [d.inner_toCrlf hp]
    have := findAfter_end_crlfText docEnd probeOk_docEnd (by rw [docEnd_eq]; simp) d.inner
      (by rw [v3]; rw [docEnd_eq]; rfl)
    rw [this, docEnd_eq]; rfl

theorem docOptValid_toCrlf (doc : Option DocC) (follow : Str) (hp : docOptLfPlain doc = true)
    (hcr : '\r' ∉ renderDocOpt doc ++ follow) (hv : docOptValid follow doc = true) :
    docOptValid (crlfText follow) (doc.map DocC.toCrlf) = true := by
  cases doc with
  | none => rfl
  | some d => exact d.valid_toCrlf false follow hp hcr hv

mutual
theorem Item.valid_toCrlf : (i : Item) → (follow : Str) → i.lfPlain = true → '\r' ∉ i.render ++ follow →
    i.valid follow = true → i.toCrlf.valid (crlfText follow) = true
  | .cmd doc call, follow, hp, hcr, hv => by
    simp only [Item.lfPlain, Bool.and_eq_true] at hp
    simp only [Item.valid, Bool.and_eq_true] at hv
    simp only [Item.render, List.append_assoc] at hcr
    simp only [Item.toCrlf, Item.valid, Bool.and_eq_true]
    have e : call.toCrlf.render ++ crlfText follow = crlfText (call.render ++ follow) := by
      rw [crlfText_append, call.render_toCrlf hp.2]
    rw [e]
    refine ⟨docOptValid_toCrlf doc _ hp.1 hcr hv.1, call.valid_toCrlf follow hp.2 ?_ hv.2⟩
    simp only [List.mem_append, not_or] at hcr ⊢; exact hcr.2
  | .block doc o body c, follow, hp, hcr, hv => by
    simp only [Item.lfPlain, Bool.and_eq_true] at hp
    obtain ⟨⟨⟨p1, p2⟩, p3⟩, p4⟩ := hp
    simp only [Item.valid, Bool.and_eq_true] at hv
    obtain ⟨⟨⟨v1, v2⟩, v3⟩, v4⟩ := hv
    simp only [Item.render, List.append_assoc] at hcr
    simp only [Item.toCrlf, Item.valid, Bool.and_eq_true]
    have e3 : c.toCrlf.render ++ crlfText follow = crlfText (c.render ++ follow) := by
      rw [crlfText_append, c.render_toCrlf p4]
    have e2 : renderSrcItems (itemsToCrlf body) ++ (c.toCrlf.render ++ crlfText follow) =
        crlfText (renderSrcItems body ++ (c.render ++ follow)) := by
      simp only [crlfText_append, renderSrcItems_toCrlf body p3, c.render_toCrlf p4]
    have e1 : o.toCrlf.render ++ (renderSrcItems (itemsToCrlf body) ++ (c.toCrlf.render ++ crlfText follow)) =
        crlfText (o.render ++ (renderSrcItems body ++ (c.render ++ follow))) := by
      simp only [crlfText_append, renderSrcItems_toCrlf body p3, c.render_toCrlf p4, o.render_toCrlf p2]
    rw [e1, e2, e3]
    have hcr2 := hcr
    simp only [List.mem_append, not_or] at hcr2
    refine ⟨⟨⟨docOptValid_toCrlf doc _ p1 hcr v1, o.valid_toCrlf _ p2 ?_ v2⟩,
      itemsValid_toCrlf body _ p3 ?_ v3⟩, c.valid_toCrlf follow p4 ?_ v4⟩
    · simp only [List.mem_append, not_or]; exact hcr2.2
    · simp only [List.mem_append, not_or]; exact hcr2.2.2
    · simp only [List.mem_append, not_or]; exact hcr2.2.2.2
  | .decl doc d i body c, follow, hp, hcr, hv => by
    simp only [Item.lfPlain, Bool.and_eq_true] at hp
    obtain ⟨⟨⟨⟨p1, p2⟩, p2'⟩, p3⟩, p4⟩ := hp
    simp only [Item.valid, Bool.and_eq_true] at hv
    obtain ⟨⟨⟨⟨v1, v2⟩, v2'⟩, v3⟩, v4⟩ := hv
    simp only [Item.render, List.append_assoc] at hcr
    simp only [Item.toCrlf, Item.valid, Bool.and_eq_true]
    have e3 : c.toCrlf.render ++ crlfText follow = crlfText (c.render ++ follow) := by
      rw [crlfText_append, c.render_toCrlf p4]
    have e2 : renderSrcItems (itemsToCrlf body) ++ (c.toCrlf.render ++ crlfText follow) =
        crlfText (renderSrcItems body ++ (c.render ++ follow)) := by
      simp only [crlfText_append, renderSrcItems_toCrlf body p3, c.render_toCrlf p4]
    have e1 : i.toCrlf.render ++ (renderSrcItems (itemsToCrlf body) ++ (c.toCrlf.render ++ crlfText follow)) =
        crlfText (i.render ++ (renderSrcItems body ++ (c.render ++ follow))) := by
      simp only [crlfText_append, renderSrcItems_toCrlf body p3, c.render_toCrlf p4, i.render_toCrlf p2']
    have e0 : d.toCrlf.render ++ (i.toCrlf.render ++ (renderSrcItems (itemsToCrlf body) ++
          (c.toCrlf.render ++ crlfText follow))) =
        crlfText (d.render ++ (i.render ++ (renderSrcItems body ++ (c.render ++ follow)))) := by
      simp only [crlfText_append, renderSrcItems_toCrlf body p3, c.render_toCrlf p4, i.render_toCrlf p2',
        d.render_toCrlf p2]
    rw [e0, e1, e2, e3]
    have hcr2 := hcr
    simp only [List.mem_append, not_or] at hcr2
    refine ⟨⟨⟨⟨docOptValid_toCrlf doc _ p1 hcr v1, d.valid_toCrlf _ p2 ?_ v2⟩, i.valid_toCrlf _ p2' ?_ v2'⟩,
      itemsValid_toCrlf body _ p3 ?_ v3⟩, c.valid_toCrlf follow p4 ?_ v4⟩
    · simp only [List.mem_append, not_or]; exact hcr2.2
    · simp only [List.mem_append, not_or]; exact hcr2.2.2
    · simp only [List.mem_append, not_or]; exact hcr2.2.2.2
    · simp only [List.mem_append, not_or]; exact hcr2.2.2.2.2
  | .dangling d, follow, hp, hcr, hv => by
    simp only [Item.lfPlain] at hp
    simp only [Item.valid] at hv
    simp only [Item.render] at hcr
    simp only [Item.toCrlf, Item.valid]
    exact d.valid_toCrlf false follow hp hcr hv
theorem itemsValid_toCrlf : (is : List Item) → (follow : Str) → itemsLfPlain is = true →
    '\r' ∉ renderSrcItems is ++ follow → itemsValid follow is = true →
    itemsValid (crlfText follow) (itemsToCrlf is) = true
  | [], _, _, _, _ => rfl
  | i :: is, follow, hp, hcr, hv => by
    simp only [itemsLfPlain, Bool.and_eq_true] at hp
    simp only [itemsValid, Bool.and_eq_true] at hv
    simp only [renderSrcItems, List.append_assoc] at hcr
    simp only [itemsToCrlf, itemsValid, Bool.and_eq_true]
    have e : renderSrcItems (itemsToCrlf is) ++ crlfText follow = crlfText (renderSrcItems is ++ follow) := by
      rw [crlfText_append, renderSrcItems_toCrlf is hp.2]
    rw [e]
    refine ⟨Item.valid_toCrlf i _ hp.1 hcr hv.1, itemsValid_toCrlf is follow hp.2 ?_ hv.2⟩
    simp only [List.mem_append, not_or] at hcr ⊢; exact hcr.2
end

theorem Item.toCrlf_isDangling (i : Item) : i.toCrlf.isDangling = i.isDangling := by
  cases i <;> rfl

theorem Item.toCrlf_startsWithDoc (i : Item) : i.toCrlf.startsWithDoc = i.startsWithDoc := by
  cases i <;> simp [Item.toCrlf, Item.startsWithDoc]

theorem nextStartsDoc_toCrlf (b : Bool) (is : List Item) : nextStartsDoc b (itemsToCrlf is) = nextStartsDoc b is := by
  cases is with
  | nil => rfl
  | cons j js => simp [itemsToCrlf, nextStartsDoc, Item.toCrlf_startsWithDoc]

mutual
theorem Item.toCrlf_danglingOk : (i : Item) → i.toCrlf.danglingOk = i.danglingOk
  | .cmd _ _ => by simp only [Item.toCrlf, Item.danglingOk]
  | .block _ _ body _ => by simp only [Item.toCrlf, Item.danglingOk, itemsToCrlf_danglingOk true body]
  | .decl _ _ _ body _ => by simp only [Item.toCrlf, Item.danglingOk, itemsToCrlf_danglingOk true body]
  | .dangling _ => by simp only [Item.toCrlf, Item.danglingOk]
theorem itemsToCrlf_danglingOk (b : Bool) : (is : List Item) → itemsDanglingOk b (itemsToCrlf is) = itemsDanglingOk b is
  | [] => by simp only [itemsToCrlf, itemsDanglingOk]
  | i :: is => by
    simp only [itemsToCrlf, itemsDanglingOk, Item.toCrlf_danglingOk i, Item.toCrlf_isDangling,
      nextStartsDoc_toCrlf, itemsToCrlf_danglingOk b is]
end

/-- **validity is preserved**: the conversion of a valid LF module whose text contains no `'\r'` is valid -/
theorem C04_crlf_valid (m : Module) (hlf : m.lfPlain = true) (hcr : '\r' ∉ m.render) (hv : m.valid = true) :
    m.toCrlf.valid = true := by
  simp only [Module.lfPlain, Bool.and_eq_true] at hlf
  obtain ⟨⟨p1, p2⟩, p3⟩ := hlf
  simp only [Module.valid, Bool.and_eq_true] at hv
  obtain ⟨⟨⟨v1, v2⟩, v3⟩, v4⟩ := hv
  simp only [Module.render, List.append_assoc, List.mem_append, not_or] at hcr
  obtain ⟨_, c1, c2, c3⟩ := hcr
  simp only [Module.valid, Bool.and_eq_true]
  have e0 : crlfText ([] : Str) = [] := rfl
  refine ⟨⟨⟨?_, ?_⟩, ?_⟩, ?_⟩
  · show itemsDanglingOk false (itemsToCrlf m.items) = true
    rw [itemsToCrlf_danglingOk]; exact v1
  · show (match m.modDoc.map DocC.toCrlf with
      | some d => d.valid true (renderSrcItems (itemsToCrlf m.items) ++ renderSep (sepToCrlf m.tail))
      | none => true) = true
    cases hd : m.modDoc with
    | none => rfl
    | some d =>
      rw [hd] at v2 p1 c1
      simp only [Option.map_some]
      have e : renderSrcItems (itemsToCrlf m.items) ++ renderSep (sepToCrlf m.tail) =
          crlfText (renderSrcItems m.items ++ renderSep m.tail) := by
        rw [crlfText_append, renderSrcItems_toCrlf _ p2, renderSep_toCrlf _ p3]
      rw [e]
      refine d.valid_toCrlf true _ p1 ?_ v2
      simp only [List.mem_append, not_or]
      exact ⟨c1, c2, c3⟩
  · show itemsValid (renderSep (sepToCrlf m.tail)) (itemsToCrlf m.items) = true
    rw [renderSep_toCrlf _ p3]
    refine itemsValid_toCrlf m.items _ p2 ?_ v3
    simp only [List.mem_append, not_or]; exact ⟨c2, c3⟩
  · show sepValid [] (sepToCrlf m.tail) = true
    rw [← e0]
    refine sepValid_toCrlf m.tail [] p3 ?_ v4
    simp only [List.append_nil]; exact c3

/-- **C04, CRLF half, in terms of the file text.**  `m`: a valid, well-formed LF module (outside K1) whose text
    contains no `'\r'` and whose doccomments are canonical.  The file with every `'\n'` replaced by `"\r\n"` is
    processed to a page as well, and the two pages are equal after deleting every `'\r'` and dropping the
    whitespace-only lines.  (Validity of the converted file is derived, `C04_crlf_valid`.) -/
theorem C04_crlf_page_text (cfg : Cfg) (hc : Str) (hs : List Str) (title modName : Str) (m : Module)
    (hlf : m.lfPlain = true) (hcr : '\r' ∉ m.render)
    (hv : m.valid = true) (hwf : itemsWf false m.items = true)
    (hk1 : cfg.inclCppClass = true ∨ itemsHaveDocumentedClass m.items = false)
    (hcan : m.docsCanonical) (htr : ProbeOk cfg.trigger) (hm : '\n' ∉ modName)
    (hone : ∀ e ∈ m.entries cfg, e.OneLine) :
    ∃ out out', pipeline cfg (hc :: hs) title modName m.render = .ok out ∧
      pipeline cfg (hc :: hs) title modName (crlfText m.render) = .ok out' ∧ normPage out' = normPage out := by
  rw [← C04_crlf_render m hlf]
  exact C04_crlf_page cfg hc hs title modName m hv (C04_crlf_valid m hlf hcr hv) hwf hk1 hcan htr hm hone

/-! ## 5. non-vacuity

`exC`:
```
#[[[ @module mymod
# Module text
#]]
#[[[
# Doc of f
# :param x: it
#]]
function(f x)
  option(O "help")
endfunction()
#[[[
# A variable.
#]]
set(V 1)
```
-/

namespace C04Crlf

def modC : DocC :=
  { pre := [], ind := [], openSuffix := lit " @module mymod", lines := [lit "Module text"], leader := true, crlf := false }

def docF : DocC :=
  { pre := [.nl false], ind := [], openSuffix := [], lines := [lit "Doc of f", lit ":param x: it"], leader := true,
    crlf := false }

def docV : DocC :=
  { pre := [.nl false], ind := [], openSuffix := [], lines := [lit "A variable."], leader := true, crlf := false }

def exC : Module :=
  { bom := false, modDoc := some modC, tail := [.nl false],
    items := [
      .block (some docF)
        { pre := [.nl false], name := lit "function", sp := 0, close := [],
          args := [.tok [] (.bare (lit "f")), .tok [.spaces 1] (.bare (lit "x"))] }
        [ .cmd none
            { pre := [.nl false, .spaces 2], name := lit "option", sp := 0, close := [],
              args := [.tok [] (.bare (lit "O")), .tok [.spaces 1] (.quoted (lit "help"))] } ]
        { pre := [.nl false], name := lit "endfunction", sp := 0, args := [], close := [] },
      .cmd (some docV)
        { pre := [.nl false], name := lit "set", sp := 0, close := [],
          args := [.tok [] (.bare (lit "V")), .tok [.spaces 1] (.bare (lit "1"))] } ] }

theorem exC_valid : exC.valid = true := by
  simp only [exC, modC, docF, docV, String.reduceToList, lit]
  decide

theorem exC_crlf_valid : exC.toCrlf.valid = true := by
  simp only [exC, modC, docF, docV, String.reduceToList, lit]
  decide

theorem docF_canonical : docF.Canonical := by
  refine ⟨rfl, rfl, rfl, ?_, ?_⟩
  · intro c h; simp [docF] at h
  · intro t h
    simp only [docF, String.reduceToList, lit, List.mem_cons, List.not_mem_nil, or_false] at h
    rcases h with rfl | rfl <;> simp [NoNl]

theorem docV_canonical : docV.Canonical := by
  refine ⟨rfl, rfl, rfl, ?_, ?_⟩
  · intro c h; simp [docV] at h
  · intro t h
    simp only [docV, String.reduceToList, lit, List.mem_cons, List.not_mem_nil, or_false] at h
    subst h; simp [NoNl]

theorem modC_canonical : modC.ModCanonical := by
  refine ⟨rfl, rfl, ?_, ⟨[' '], lit " mymod", ?_, ?_, ?_⟩, ?_⟩
  · intro c h; simp [modC] at h
  · simp only [modC, String.reduceToList, lit]; rfl
  · intro c h; simp at h; simp [h]
  · simp only [String.reduceToList, lit]; simp [NoNl]
  · intro t h
    simp only [modC, String.reduceToList, lit, List.mem_cons, List.not_mem_nil, or_false] at h
    subst h; simp [NoNl]

theorem exC_canonical : exC.docsCanonical := by
  refine ⟨?_, ?_⟩
  · intro d hd
    simp only [exC, Option.some.injEq] at hd
    subst hd
    exact modC_canonical
  · simp only [exC, itemsDocsCanonical, Item.docsCanonical, docOptCanonical, and_true]
    exact ⟨docF_canonical, docV_canonical⟩

theorem probeOk_default : ProbeOk ({} : Cfg).trigger := by
  show ProbeOk (lit ":param **kwargs:")
  simp only [ProbeOk, String.reduceToList, lit]
  decide

/-- the expected `documented` lists of `exC` and of its CRLF conversion -/
theorem exC_entries : exC.entries {} =
    [.module (lit "mymod") (lit "Module text\n"),
     .func false (lit "f") (lit "Doc of f\n:param x: it\n") [lit "x"] false,
     .opt (lit "O") [] (lit "\"help\"") none,
     .var (lit "V") (lit "A variable.\n") .string (some (lit "1"))] := by
  simp only [exC, modC, docF, docV, String.reduceToList, lit]
  decide

theorem exC_crlf_entries : exC.toCrlf.entries {} =
    [.module (lit "mymod") (lit "Module text\r\n"),
     .func false (lit "f") (lit "\r\nDoc of f\r\n:param x: it\r\n") [lit "x"] false,
     .opt (lit "O") [] (lit "\"help\"") none,
     .var (lit "V") (lit "\r\nA variable.\r\n") .string (some (lit "1"))] := by
  simp only [exC, modC, docF, docV, String.reduceToList, lit]
  decide

theorem exC_oneLine : ∀ e ∈ exC.entries {}, e.OneLine := by
  rw [exC_entries]
  intro e he
  simp only [List.mem_cons, List.not_mem_nil, or_false] at he
  rcases he with rfl | rfl | rfl | rfl <;>
    (simp only [Entry.OneLine, String.reduceToList, lit]; decide)

/-- all hypotheses of `C04_crlf_page` hold for `exC` under the default settings: the LF file and the CRLF file are
    both processed, and the pages agree after the normalisation -/
example (hc title : Str) : ∃ out out', pipeline {} [hc] title (lit "mymod") exC.render = .ok out ∧
    pipeline {} [hc] title (lit "mymod") exC.toCrlf.render = .ok out' ∧ normPage out' = normPage out :=
  C04_crlf_page {} hc [] title (lit "mymod") exC exC_valid exC_crlf_valid (by decide) (Or.inl rfl) exC_canonical
    probeOk_default (by simp only [String.reduceToList, lit]; decide) exC_oneLine

/-- the statement is not empty: the two source texts differ, and so do the two `documented` lists -/
example : exC.toCrlf.render ≠ exC.render := by
  simp only [exC, modC, docF, docV, String.reduceToList, lit]
  decide

example : exC.toCrlf.entries {} ≠ exC.entries {} := by
  rw [exC_entries, exC_crlf_entries]
  simp only [String.reduceToList, lit]
  decide

/-- `C04_crlf_entries` on `exC`, read off: -/
example : ListRel Entry.Crlf (exC.entries {}) (exC.toCrlf.entries {}) :=
  C04_crlf_entries {} probeOk_default exC exC_canonical

theorem exC_lfPlain : exC.lfPlain = true := by
  simp only [exC, modC, docF, docV, String.reduceToList, lit]
  decide

theorem exC_noCr : '\r' ∉ exC.render := by
  simp only [exC, modC, docF, docV, String.reduceToList, lit]
  decide

/-- `exC` is an LF file, so `exC.toCrlf` prints the converted text … -/
example : exC.toCrlf.render = crlfText exC.render := C04_crlf_render exC exC_lfPlain

/-- … and the text-level theorem applies: no validity hypothesis on the CRLF side -/
example (hc title : Str) : ∃ out out', pipeline {} [hc] title (lit "mymod") exC.render = .ok out ∧
    pipeline {} [hc] title (lit "mymod") (crlfText exC.render) = .ok out' ∧ normPage out' = normPage out :=
  C04_crlf_page_text {} hc [] title (lit "mymod") exC exC_lfPlain exC_noCr exC_valid (by decide) (Or.inl rfl)
    exC_canonical probeOk_default (by simp only [String.reduceToList, lit]; decide) exC_oneLine

/-! ### the side condition on the trigger string is needed

A trigger string that ends in `'\r'` can be *created* by the conversion, one that contains `'\n'` can be *destroyed*: -/

example : isInfix (lit "it\r") (lit "x: it\n") = false ∧ isInfix (lit "it\r") (crlfDoc (lit "x: it\n")) = true := by
  simp only [String.reduceToList, lit]; decide

example : isInfix (lit "a\nb") (lit "a\nb\n") = true ∧ isInfix (lit "a\nb") (crlfDoc (lit "a\nb\n")) = false := by
  simp only [String.reduceToList, lit]; decide

/-- with `kwargs_doc_trigger_string = "it\r"` the CRLF file of `exC` gets `**kwargs` in the signature of `f`, the LF
    file does not: the pages differ in a line that is not whitespace-only -/
example : (exC.entries { trigger := lit "it\r" })[1]? = some (.func false (lit "f") (lit "Doc of f\n:param x: it\n") [lit "x"] false) ∧
    (exC.toCrlf.entries { trigger := lit "it\r" })[1]? =
      some (.func false (lit "f") (lit "\r\nDoc of f\r\n:param x: it\r\n") [lit "x"] true) := by
  simp only [exC, modC, docF, docV, String.reduceToList, lit]
  decide

example : normPage (processDocs ['#'] ['t'] ['m'] (exC.toCrlf.entries { trigger := lit "it\r" })).render ≠
    normPage (processDocs ['#'] ['t'] ['m'] (exC.entries { trigger := lit "it\r" })).render := by
  simp only [exC, modC, docF, docV, String.reduceToList, lit]
  decide

end C04Crlf

end Cminx

#print axioms Cminx.normPage_eq
#print axioms Cminx.crlfDoc_canonical
#print axioms Cminx.isInfix_crlfText
#print axioms Cminx.isInfix_crlfDoc
#print axioms Cminx.moduleName_cr
#print axioms Cminx.moduleNameDoc_crlf
#print axioms Cminx.itemsSpec_crlf
#print axioms Cminx.C04_crlf_entries
#print axioms Cminx.C04_crlf_guards
#print axioms Cminx.methodFields_docRel
#print axioms Cminx.Entry.Crlf.toElem
#print axioms Cminx.ElemsCrlf.normT_eq
#print axioms Cminx.C04_crlf_pages
#print axioms Cminx.C04_crlf_page
#print axioms Cminx.C04_crlf_render
#print axioms Cminx.C04_crlf_valid
#print axioms Cminx.C04_crlf_page_text
#print axioms Cminx.C04Crlf.exC_valid
#print axioms Cminx.C04Crlf.exC_crlf_valid
#print axioms Cminx.C04Crlf.exC_entries
#print axioms Cminx.C04Crlf.exC_crlf_entries
