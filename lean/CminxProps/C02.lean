import CminxLemmas.SpecLemmas
/-!
# C02 — exactly one entry per documentable command, in source order

The listener state machine (`aggregate`, `CminxModel/Agg.lean`) computes the structural specification
(`Module.entries`, `itemsSpec`, `Item.spec` in `CminxModel/Spec.lean`) — `C02_refines`, an instance of `T_agg`.
The remaining theorems read the property off the specification under the default configuration `({} : Cfg)`
(all `include_undocumented_*` flags on, identity strip functions):

* `C02_order`, `C02_order_cons`: every item contributes independently of its siblings, in source order;
* one theorem per command kind: what the item contributes (`Contrib.top` = entries appended to `documented`;
  `Contrib.members/ctors/attrs/inner` = what goes into the innermost shown class);
* `C02_case`, `C02_layout`: command names are read through `asciiLower` only, and nothing of the layout
  (blanks, line breaks, line comments, bracket comments) is read at all.

A member/test declaration together with the function/macro definition that implements it is one `Item.decl`;
`asDefinition`, `methodOf`, `Call.Sim`, `DocSim`, `Item.Rel`, `itemsRel`, `Call.recase`, `Call.CaseEq` are defined in
`CminxLemmas/SpecLemmas.lean`.
-/
namespace Cminx

/-! ## the machine computes the specification -/

theorem C02_refines (m : Module) (hwf : itemsWf false m.items = true) :
    ∃ st, aggregate {} m.events = .ok st ∧ st.documented = m.entries {} ∧ st.errors = 0 := by
  obtain ⟨st, h1, h2, h3, _⟩ := T_agg {} m hwf (Or.inl rfl)
  exact ⟨st, h1, h2, h3⟩

/-- the entries of a module: the module entry, if the file starts with a module doccomment, then the
entries of the items in source order -/
theorem C02_entries (cfg : Cfg) (m : Module) :
    m.entries cfg =
      (match m.modDoc with
       | some d => [Entry.module (moduleNameDoc d.tokenText).1 (moduleNameDoc d.tokenText).2]
       | none => []) ++ (itemsSpec cfg .none m.items).top := by
  rw [Module.entries]; cases m.modDoc <;> rfl

/-! ## source order; siblings are independent -/

theorem C02_order (cfg : Cfg) (ctx : ClsCtx) (a b : List Item) :
    itemsSpec cfg ctx (a ++ b) = itemsSpec cfg ctx a ++ itemsSpec cfg ctx b :=
  itemsSpec_append cfg ctx a b

theorem C02_order_cons (cfg : Cfg) (ctx : ClsCtx) (i : Item) (is : List Item) :
    (itemsSpec cfg ctx (i :: is)).top = (i.spec cfg ctx).top ++ (itemsSpec cfg ctx is).top := by
  rw [itemsSpec_cons]; rfl

theorem C02_order_nil (cfg : Cfg) (ctx : ClsCtx) : itemsSpec cfg ctx [] = {} := itemsSpec_nil cfg ctx

/-- an item in the middle of a list: the entries before it come from the items before it, those after it from
the items after it -/
theorem C02_order_mid (cfg : Cfg) (ctx : ClsCtx) (pre post : List Item) (it : Item) :
    (itemsSpec cfg ctx (pre ++ it :: post)).top =
      (itemsSpec cfg ctx pre).top ++ (it.spec cfg ctx).top ++ (itemsSpec cfg ctx post).top := by
  simp [itemsSpec_append, itemsSpec_cons]

/-! ## one theorem per command kind (default configuration) -/

/-- `function(name p…) … endfunction()`: one function entry, then the entries of the body -/
theorem C02_function (ctx : ClsCtx) (doc : Option DocC) (o : Call) (body : List Item) (c : Call)
    (hn : o.lname = lit "function") :
    (Item.block doc o body c).spec {} ctx =
      { top := [.func false (o.singles.headD []) (docTextOf doc) (o.singles.drop 1)
                  (isInfix (lit ":param **kwargs:") (docTextOf doc) || itemsCpaDirect body)] } ++
        itemsSpec {} ctx body := by
  rw [spec_block_function {} ctx doc o body c hn]; simp [defEntry]

/-- `macro(name p…) … endmacro()`: one macro entry, then the entries of the body -/
theorem C02_macro (ctx : ClsCtx) (doc : Option DocC) (o : Call) (body : List Item) (c : Call)
    (hn : o.lname = lit "macro") :
    (Item.block doc o body c).spec {} ctx =
      { top := [.func true (o.singles.headD []) (docTextOf doc) (o.singles.drop 1)
                  (isInfix (lit ":param **kwargs:") (docTextOf doc) || itemsCpaDirect body)] } ++
        itemsSpec {} ctx body := by
  rw [spec_block_macro {} ctx doc o body c hn]; simp [defEntry]

/-- `option(name help [default])`: one option entry, documented or not -/
theorem C02_option (ctx : ClsCtx) (doc : Option DocC) (call : Call) (hn : call.lname = lit "option") :
    (Item.cmd doc call).spec {} ctx =
      { top := [.opt (call.singles.headD []) (docTextOf doc) (call.singles.getD 1 []) call.singles[2]?] } := by
  rw [spec_cmd_option {} ctx doc call hn]; simp

/-- `add_test(…)`: one CTest entry, documented or not -/
theorem C02_add_test (ctx : ClsCtx) (doc : Option DocC) (call : Call) (hn : call.lname = lit "add_test") :
    (Item.cmd doc call).spec {} ctx =
      { top := [.ctest (nameOf call.allTexts).1 (docTextOf doc) (ctestParams call.allTexts)] } :=
  spec_cmd_add_test {} ctx doc call hn (Or.inr rfl)

/-- a documented `set(name v…)`: one variable entry -/
theorem C02_set_documented (ctx : ClsCtx) (d : DocC) (call : Call) (name : Str) (vals : List Str)
    (hn : call.lname = lit "set") (hs : call.singles = name :: vals) :
    (Item.cmd (some d) call).spec {} ctx =
      { top := [.var name (cleanDoc d.tokenText)
          (match vals with | [] => .unset | [_] => .string | _ => .list)
          (match vals with | [] => none | [v] => some (unquote v) | vs => some (joinWith [' '] vs))] } := by
  match vals, hs with
  | [], hs => simp [Item.spec, hn, hs, docTextOf]
  | [v], hs => simp [Item.spec, hn, hs, docTextOf]
  | v :: w :: vs, hs => simp [Item.spec, hn, hs, docTextOf]

/-- a `set()` without a doccomment: nothing -/
theorem C02_set_undocumented (ctx : ClsCtx) (call : Call) (hn : call.lname = lit "set") :
    (Item.cmd none call).spec {} ctx = {} :=
  spec_cmd_set {} ctx call hn

/-- `cpp_class(name base…) … cpp_end_class()`: one class entry holding what the body contributes to its class,
followed by the top-level entries of the body; towards an enclosing shown class it contributes its name to the
inner-class list and nothing else -/
theorem C02_class (ctx : ClsCtx) (doc : Option DocC) (o : Call) (body : List Item) (c : Call)
    (hn : o.lname = lit "cpp_class") :
    (Item.block doc o body c).spec {} ctx =
      { top := .cls (o.singles.headD []) (docTextOf doc) (o.singles.drop 1) (itemsSpec {} .shown body).inner
                 (itemsSpec {} .shown body).ctors (itemsSpec {} .shown body).members
                 (itemsSpec {} .shown body).attrs :: (itemsSpec {} .shown body).top,
        inner := if ctx = .shown then [o.singles.headD []] else [] } :=
  spec_block_class_shown {} ctx doc o body c hn (Or.inr rfl)

/-- `ct_add_test(…)` + implementing definition: one test entry, then the entries of the implementation's body;
the implementing `function`/`macro` itself gets no entry -/
theorem C02_test (ctx : ClsCtx) (doc : Option DocC) (d impl : Call) (body : List Item) (c : Call)
    (hn : d.lname = lit "ct_add_test") :
    (Item.decl doc d impl body c).spec {} ctx =
      { top := [.test false (nameOf d.singles).1 (docTextOf doc) (d.singles.contains (lit "EXPECTFAIL"))
                  (impl.singles.drop 2) (impl.lname = lit "macro")] } ++ itemsSpec {} ctx body :=
  spec_decl_test {} ctx doc d impl body c hn (Or.inr rfl)

/-- `ct_add_section(…)` + implementing definition: one section entry, then the body's entries -/
theorem C02_section (ctx : ClsCtx) (doc : Option DocC) (d impl : Call) (body : List Item) (c : Call)
    (hn : d.lname = lit "ct_add_section") :
    (Item.decl doc d impl body c).spec {} ctx =
      { top := [.test true (nameOf d.singles).1 (docTextOf doc) (d.singles.contains (lit "EXPECTFAIL"))
                  (impl.singles.drop 2) (impl.lname = lit "macro")] } ++ itemsSpec {} ctx body :=
  spec_decl_section {} ctx doc d impl body c hn (Or.inr rfl)

/-- `cpp_member(…)` + implementing definition inside a class: exactly one element in the class's method list;
no top-level entry for the declaration nor for the implementing definition (the body's entries follow) -/
theorem C02_member (doc : Option DocC) (d impl : Call) (body : List Item) (c : Call)
    (hn : d.lname = lit "cpp_member") :
    (Item.decl doc d impl body c).spec {} .shown =
      { members := [methodOf {} doc d impl false] } ++ itemsSpec {} .shown body := by
  rw [spec_decl_member_if {} .shown doc d impl body c hn]; simp

/-- `cpp_constructor(…)` + implementing definition inside a class: exactly one element in the constructor list -/
theorem C02_ctor (doc : Option DocC) (d impl : Call) (body : List Item) (c : Call)
    (hn : d.lname = lit "cpp_constructor") :
    (Item.decl doc d impl body c).spec {} .shown =
      { ctors := [methodOf {} doc d impl true] } ++ itemsSpec {} .shown body := by
  rw [spec_decl_ctor_if {} .shown doc d impl body c hn]; simp

/-- `cpp_attr(cls name [default])` inside a class: exactly one element in the attribute list, nothing else -/
theorem C02_attr (doc : Option DocC) (call : Call) (hn : call.lname = lit "cpp_attr") :
    (Item.cmd doc call).spec {} .shown =
      { attrs := [{ name := call.singles.getD 1 [], doc := docTextOf doc, parentClass := call.singles.headD [],
                    dflt := call.singles[2]? }] } := by
  rw [spec_cmd_attr {} .shown doc call hn]; simp

/-- any other single command that carries a doccomment: one generic entry showing the lower-cased command name
and the arguments as written, in order (a parenthesised group is rebuilt as `(a b …)`, see `Arg.text`) -/
theorem C02_generic_documented (ctx : ClsCtx) (d : DocC) (call : Call)
    (h1 : call.lname ≠ lit "set") (h2 : call.lname ≠ lit "option") (h3 : call.lname ≠ lit "add_test")
    (h4 : call.lname ≠ lit "cpp_attr") (h5 : call.lname ≠ lit "cmake_parse_arguments") :
    (Item.cmd (some d) call).spec {} ctx =
      { top := [.generic (asciiLower call.name) (cleanDoc d.tokenText) (argTexts (toArgs call.args))] } := by
  rw [spec_cmd_generic {} ctx (some d) call h1 h2 h3 h4 h5]; rfl

/-- when all arguments are plain tokens the generic entry shows exactly their texts, in order -/
theorem C02_generic_tokens (ctx : ClsCtx) (d : DocC) (call : Call) (ts : List (Sep × ArgTok))
    (h1 : call.lname ≠ lit "set") (h2 : call.lname ≠ lit "option") (h3 : call.lname ≠ lit "add_test")
    (h4 : call.lname ≠ lit "cpp_attr") (h5 : call.lname ≠ lit "cmake_parse_arguments")
    (ha : call.args = ts.map (fun p => SArg.tok p.1 p.2)) :
    (Item.cmd (some d) call).spec {} ctx =
      { top := [.generic (asciiLower call.name) (cleanDoc d.tokenText) (ts.map (fun p => p.2.text))] } := by
  rw [C02_generic_documented ctx d call h1 h2 h3 h4 h5, ha, argTexts_toArgs_toks]

/-- any other single command without a doccomment: nothing -/
theorem C02_generic_undocumented (ctx : ClsCtx) (call : Call)
    (h1 : call.lname ≠ lit "set") (h2 : call.lname ≠ lit "option") (h3 : call.lname ≠ lit "add_test")
    (h4 : call.lname ≠ lit "cpp_attr") (h5 : call.lname ≠ lit "cmake_parse_arguments") :
    (Item.cmd none call).spec {} ctx = {} := by
  rw [spec_cmd_generic {} ctx none call h1 h2 h3 h4 h5]; rfl

/-- `if`/`foreach`/`while` blocks (any block that is not a definition or a class): a generic entry for the
opening command iff it carries a doccomment; the entries of the body, in the same class context -/
theorem C02_loop_block (ctx : ClsCtx) (doc : Option DocC) (o : Call) (body : List Item) (c : Call)
    (h1 : o.lname ≠ lit "function") (h2 : o.lname ≠ lit "macro") (h3 : o.lname ≠ lit "cpp_class") :
    (Item.block doc o body c).spec {} ctx =
      (match doc with
       | some d => { top := [.generic (asciiLower o.name) (cleanDoc d.tokenText) (argTexts (toArgs o.args))] }
       | none => {}) ++ itemsSpec {} ctx body := by
  rw [spec_block_other {} ctx doc o body c h1 h2 h3]; cases doc <;> rfl

/-- the closing command of a block (`endfunction`, `endif`, `cpp_end_class`, …) is never read by the specification -/
theorem C02_closer_irrelevant (cfg : Cfg) (ctx : ClsCtx) (doc : Option DocC) (o : Call) (body : List Item) (c c' : Call) :
    (Item.block doc o body c).spec cfg ctx = (Item.block doc o body c').spec cfg ctx := by
  simp [Item.spec]

/-- a doccomment not followed by a command: nothing -/
theorem C02_dangling (cfg : Cfg) (ctx : ClsCtx) (d : DocC) : (Item.dangling d).spec cfg ctx = {} :=
  spec_dangling cfg ctx d

/-- `cmake_parse_arguments(…)`: no entry of its own -/
theorem C02_cpa (cfg : Cfg) (ctx : ClsCtx) (doc : Option DocC) (call : Call)
    (hn : call.lname = lit "cmake_parse_arguments") : (Item.cmd doc call).spec cfg ctx = {} :=
  spec_cmd_cpa cfg ctx doc call hn

/-! ## letter case of command names; layout and annotation comments -/

/-- the parse-tree arguments, hence everything the specification reads of a call besides its name, are untouched
by respelling the name -/
theorem C02_recase_sim (c : Call) (n' : Str) (h : asciiLower n' = asciiLower c.name) : c.CaseEq (c.recase n') :=
  ⟨rfl, h⟩

/-- two item lists of the same shape whose corresponding commands differ only in the letter case of the command
name (`Call.CaseEq`), with identical doccomments -/
def SameUpToCase (a b : List Item) : Prop := itemsRel Call.CaseEq Eq a b

/-- two item lists of the same shape whose corresponding commands have the same lower-cased name and the same
parse-tree arguments (`Call.Sim`) — every separator, i.e. all blanks, line breaks, line comments and bracket
comments between tokens, may differ — and whose corresponding doccomment tokens have the same text -/
def SameUpToLayout (a b : List Item) : Prop := itemsRel Call.Sim DocSim a b

theorem SameUpToCase.layout {a b : List Item} (h : SameUpToCase a b) : SameUpToLayout a b :=
  itemsRel.mono (fun _ _ h => h.sim) (fun _ _ h => h ▸ rfl) a b h

/-- The specification reads no separator: annotation comments, whatever they contain, produce nothing and
change nothing. -/
theorem C02_layout (cfg : Cfg) (ctx : ClsCtx) (a b : List Item) (h : SameUpToLayout a b) :
    itemsSpec cfg ctx a = itemsSpec cfg ctx b :=
  itemsSpec_sim cfg ctx a b h

/-- Command names are read through `asciiLower` only. -/
theorem C02_case (cfg : Cfg) (ctx : ClsCtx) (a b : List Item) (h : SameUpToCase a b) :
    itemsSpec cfg ctx a = itemsSpec cfg ctx b :=
  C02_layout cfg ctx a b h.layout

/-- well-formedness and the K1 guard are invariant as well -/
theorem C02_layout_wf (inClass : Bool) (a b : List Item) (h : SameUpToLayout a b) :
    itemsWf inClass a = itemsWf inClass b ∧ itemsHaveDocumentedClass a = itemsHaveDocumentedClass b :=
  ⟨itemsWf_sim inClass a b h, itemsHaveDocumentedClass_sim a b h⟩

/-- …hence, by `T_agg`, the listener records the same `documented` list for two well-formed modules that differ
only in letter case of command names, layout and annotation comments (outside the K1 region when
`include_undocumented_cpp_class` is off; always under the default configuration) -/
theorem C02_case_machine (cfg : Cfg) (m m' : Module) (hwf : itemsWf false m.items = true)
    (hk1 : cfg.inclCppClass = true ∨ itemsHaveDocumentedClass m.items = false)
    (hdoc : DocSim m.modDoc m'.modDoc) (h : SameUpToLayout m.items m'.items) :
    ∃ st st', aggregate cfg m.events = .ok st ∧ aggregate cfg m'.events = .ok st' ∧
      st.documented = st'.documented ∧ st.errors = 0 ∧ st'.errors = 0 := by
  have hinv := C02_layout_wf false m.items m'.items h
  obtain ⟨st, h1, h2, h3, _⟩ := T_agg cfg m hwf hk1
  obtain ⟨st', h1', h2', h3', _⟩ := T_agg cfg m' (hinv.1 ▸ hwf) (hinv.2 ▸ hk1)
  refine ⟨st, st', h1, h1', ?_, h3, h3'⟩
  rw [h2, h2', C02_entries, C02_entries, C02_layout cfg .none _ _ h]
  congr 1
  unfold DocSim at hdoc
  cases hm : m.modDoc <;> cases hm' : m'.modDoc <;> simp_all

/-! ## rendering in list order -/

/-- a generic entry is a `.. function:: name(a₁ a₂ …)` directive with the generic-invocation warning -/
theorem C02_render_generic (name doc : Str) (args : List Str) :
    (Entry.generic name doc args).toElem =
      .directive (lit "function") [name ++ lit "(" ++ joinWith [' '] args ++ lit ")"] []
        [.directive (lit "warning") [genericWarning] [] [], .para doc] := by
  simp [Entry.toElem, signature, lit]

/-- `Documenter.process_docs` renders the entries one by one in list order (a path-named module entry is put in
front when the file has no module doccomment); only module entries are touched by `nameModule` -/
theorem C02_rendered_in_order (hc title modName : Str) (docs : List Entry) :
    (processDocs hc title modName docs).body =
      ((if docs.any isModule then docs else .module modName [] :: docs).map (nameModule modName)).map Entry.toElem ∧
    ∀ e, isModule e = false → nameModule modName e = e := by
  refine ⟨rfl, ?_⟩
  intro e he
  cases e <;> first | rfl | simp [isModule] at he

/-! ## non-vacuity -/

example : ∃ st, aggregate {} exModule.events = .ok st ∧ st.documented = exModule.entries {} ∧ st.errors = 0 :=
  C02_refines exModule (by decide)

/-- an undocumented function whose body holds an undocumented option and a plain command -/
example : ((Item.block none (mkCall "FUNCTION" ["f", "x"])
      [.cmd none (mkCall "option" ["O", "help"]), .cmd none (mkCall "message" ["hi"])]
      (mkCall "endfunction" [])).spec {} .none).top =
    [.func false (lit "f") [] [lit "x"] false, .opt (lit "O") [] (lit "help") none] := by
  rw [C02_function .none none _ _ _ (by decide)]
  decide

/-- a class with one member, one attribute and a documented `message` in between -/
def exSpecClass : Item :=
  .block none (mkCall "cpp_class" ["K"])
    [ .decl none (mkCall "cpp_member" ["go", "K", "int"]) (mkCall "function" ["_go", "self", "n"])
        [.cmd none (mkCall "cmake_parse_arguments" ["A", "", "", ""])] (mkCall "endfunction" []),
      .cmd (some (mkDoc "" ["Say."])) (mkCall "MESSAGE" ["hi", "there"]),
      .cmd none (mkCall "cpp_attr" ["K", "color", "red"]) ]
    (mkCall "cpp_end_class" [])

example : (exSpecClass.spec {} .none).top =
    [ .cls (lit "K") [] [] []
        [] [{ name := lit "go", doc := [], parentClass := lit "K", paramTypes := [lit "int"], params := [lit "n"],
              isCtor := false, isMacro := false }]
        [{ name := lit "color", doc := [], parentClass := lit "K", dflt := some (lit "red") }],
      .generic (lit "message") (docTextOf (some (mkDoc "" ["Say."]))) [lit "hi", lit "there"] ] := by
  rw [exSpecClass, C02_class .none none _ _ _ (by decide)]
  decide

example : (Item.decl none (mkCall "cpp_member" ["go", "K", "int"]) (mkCall "macro" ["_go", "self", "n"]) []
      (mkCall "endmacro" [])).spec {} .shown =
    { members := [{ name := lit "go", doc := [], parentClass := lit "K", paramTypes := [lit "int"],
                    params := [lit "n"], isCtor := false, isMacro := true }] } := by
  rw [C02_member none _ _ _ _ (by decide)]; rfl

/-- the same function written in another letter case, with other blanks and with comments between the tokens -/
def exPlain : List Item :=
  [ .block none (mkCall "function" ["f", "x"]) [.cmd none (mkCall "option" ["O", "help"])] (mkCall "endfunction" []) ]

def exRespelt : List Item :=
  [ .block none (mkCall "FuncTion" ["f", "x"]) [.cmd none (mkCall "OPTION" ["O", "help"])] (mkCall "ENDFUNCTION" []) ]

def exCommented : List Item :=
  [ .block none
      { pre := [.lineComment (lit " function(g)") (some false), .nl true], name := lit "FUNCTION", sp := 2, close := [.tabs 1],
        args := [.tok [.bracketComment 1 (lit " option(P \"h\") ")] (.bare (lit "f")),
                 .tok [.nl false, .lineComment (lit "[[[ not a doccomment") (some false)] (.bare (lit "x"))] }
      [.cmd none (mkCall "option" ["O", "help"])]
      { pre := [.nl false], name := lit "endfunction", sp := 0, args := [], close := [.bracketComment 0 (lit "x")] } ]

example : SameUpToCase exPlain exRespelt := by
  simp [SameUpToCase, exPlain, exRespelt, itemsRel, Item.Rel, Call.CaseEq, Call.recase, mkCall]
  decide

example : SameUpToLayout exPlain exCommented ∧ itemsSpec {} .none exPlain = itemsSpec {} .none exCommented := by
  have h : SameUpToLayout exPlain exCommented := by
    simp [SameUpToLayout, exPlain, exCommented, itemsRel, Item.Rel, Call.Sim, DocSim, mkCall]
    exact ⟨⟨by decide, rfl⟩, by decide⟩
  exact ⟨h, C02_layout {} .none _ _ h⟩

end Cminx
