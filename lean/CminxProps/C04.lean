import CminxProps.C05
/-!
# C04 — the generated reST does not depend on layout

A source file is the printed text `Module.render` of a decorated module (`CminxModel/Source.lean`): the tree
carries every inter-token separator (`Sep`: blanks, tabs, line breaks LF/CRLF, line comments, bracket comments —
before every command name, before every argument, before every `)`, before every doccomment, at the end of the
file), the indentation of every doccomment block, the spelling of every command name and the byte-order mark.

* `C04_token_sequence` — two valid modules with the same significant token sequence (`Module.sigToks`) give the
  same page, the same error, or the same anything: the pipeline reads the text through the significant tokens
  only (`C04_same_significant`, for arbitrary texts).  No balance or K1 hypothesis.
* `C04_layout` — two valid modules that are `LayoutVariant`s of each other (same tree shape, corresponding commands
  with the same lower-cased name and the same parse-tree arguments, corresponding doccomments with the same
  *cleaned* text) give the same page.  Composition of `T_pipeline` (`C05.lean`) with the invariance of the
  structural specification.  Everything `LayoutVariant` does not mention is free: all separators, all comments,
  the letter case of command names, the indentation of doccomment blocks, BOM, trailing filler.
* `C04_separators`, `C04_case`, `C04_reindent`, `C04_reindent_tree`, `C04_reindent_module` — the readable
  special cases.
* `C04_crlf_partial` — the CRLF half as far as it is proved: the cleaned doc text of a CRLF doccomment.

The hypotheses `hwf`/`hk1` are those of `T_pipeline` and are asked of one of the two modules only.
-/
namespace Cminx

open C01

/-! ## the pipeline reads the text through its significant tokens -/

/-- any two texts (valid modules or not) whose significant token sequences agree are processed alike -/
theorem C04_same_significant (cfg : Cfg) (hdrs : List Str) (title modName : Str) (s₁ s₂ : Str) (ts₁ ts₂ : List Tok)
    (h₁ : lexAll (dropBom s₁) = .ok ts₁) (h₂ : lexAll (dropBom s₂) = .ok ts₂)
    (hs : significant ts₁ = significant ts₂) :
    pipeline cfg hdrs title modName s₁ = pipeline cfg hdrs title modName s₂ :=
  pipeline_congr cfg hdrs title modName (documentedOf_same_significant cfg h₁ h₂ hs)

/-- **any edit that keeps the file's token sequence**: valid modules with the same significant tokens — whatever
    their separators, comments, BOM — give the same result (page or error) -/
theorem C04_token_sequence (cfg : Cfg) (hdrs : List Str) (title modName : Str) (m₁ m₂ : Module)
    (hv₁ : m₁.valid = true) (hv₂ : m₂.valid = true) (hs : m₁.sigToks = m₂.sigToks) :
    pipeline cfg hdrs title modName m₁.render = pipeline cfg hdrs title modName m₂.render := by
  obtain ⟨ts₁, ts₂, a, b, c⟩ := T_lex_layout m₁ m₂ hv₁ hv₂ hs
  exact C04_same_significant cfg hdrs title modName _ _ ts₁ ts₂ a b c

/-! ## layout variants -/

/-- the two doccomments are both present or both absent and have the same cleaned text
    (`docTextOf d = cleanDoc d.tokenText`): the indentation of the block, the filler in front of it, … may differ -/
def DocEquiv (d d' : Option DocC) : Prop := d.isSome = d'.isSome ∧ docTextOf d = docTextOf d'

/-- the same for the module doccomment, which is read through `moduleNameDoc` (name and doc text) -/
def ModDocEquiv (d d' : Option DocC) : Prop :=
  d.map (fun x => moduleNameDoc x.tokenText) = d'.map (fun x => moduleNameDoc x.tokenText)

/-- `m₂` is a layout variant of `m₁`: same tree shape; corresponding commands have the same lower-cased name and
    the same parse-tree arguments (`Call.Sim` — separators, comments and letter case of the name are free);
    corresponding doccomments have the same cleaned text.  BOM and trailing filler are free. -/
def LayoutVariant (m₁ m₂ : Module) : Prop :=
  itemsRel Call.Sim DocEquiv m₁.items m₂.items ∧ ModDocEquiv m₁.modDoc m₂.modDoc

theorem DocEquiv.obs : DocObs DocEquiv := fun _ _ h => h

theorem DocEquiv.refl (d : Option DocC) : DocEquiv d d := ⟨rfl, rfl⟩

/-- the same doccomment token is in particular an equivalent doccomment -/
theorem DocSim.equiv {d d' : Option DocC} (h : DocSim d d') : DocEquiv d d' := ⟨h.isSome, h.docText⟩

theorem DocSim.modEquiv {d d' : Option DocC} (h : DocSim d d') : ModDocEquiv d d' := by
  unfold DocSim at h
  cases d <;> cases d' <;> simp_all [ModDocEquiv]

theorem LayoutVariant.refl (m : Module) : LayoutVariant m m :=
  ⟨itemsRel.refl Call.Sim.refl DocEquiv.refl _, rfl⟩

/-- layout variants have the same expected `documented` list -/
theorem C04_entries (cfg : Cfg) (m₁ m₂ : Module) (h : LayoutVariant m₁ m₂) : m₁.entries cfg = m₂.entries cfg := by
  rw [C02_entries, C02_entries, itemsSpec_rel DocEquiv.obs cfg .none _ _ h.1]
  congr 1
  have hm := h.2
  unfold ModDocEquiv at hm
  cases h₁ : m₁.modDoc <;> cases h₂ : m₂.modDoc <;> simp_all

/-- well-formedness and the K1 guard are layout invariant -/
theorem C04_layout_wf (m₁ m₂ : Module) (h : LayoutVariant m₁ m₂) :
    itemsWf false m₁.items = itemsWf false m₂.items ∧
      itemsHaveDocumentedClass m₁.items = itemsHaveDocumentedClass m₂.items :=
  ⟨itemsWf_rel false _ _ h.1, itemsHaveDocumentedClass_rel DocEquiv.obs _ _ h.1⟩

/-- **C04**: layout variants give the same page -/
theorem C04_layout (cfg : Cfg) (hdrs : List Str) (title modName : Str) (m₁ m₂ : Module)
    (hv₁ : m₁.valid = true) (hv₂ : m₂.valid = true) (hwf : itemsWf false m₁.items = true)
    (hk1 : cfg.inclCppClass = true ∨ itemsHaveDocumentedClass m₁.items = false)
    (h : LayoutVariant m₁ m₂) :
    pipeline cfg hdrs title modName m₁.render = pipeline cfg hdrs title modName m₂.render := by
  have hinv := C04_layout_wf m₁ m₂ h
  apply pipeline_congr
  rw [T_documented cfg m₁ hv₁ hwf hk1, T_documented cfg m₂ hv₂ (hinv.1 ▸ hwf) (hinv.2 ▸ hk1), C04_entries cfg m₁ m₂ h]

/-- …and that page is the page of the specification -/
theorem C04_layout_page (cfg : Cfg) (hc : Str) (hs : List Str) (title modName : Str) (m₁ m₂ : Module)
    (hv₁ : m₁.valid = true) (hv₂ : m₂.valid = true) (hwf : itemsWf false m₁.items = true)
    (hk1 : cfg.inclCppClass = true ∨ itemsHaveDocumentedClass m₁.items = false)
    (h : LayoutVariant m₁ m₂) :
    pipeline cfg (hc :: hs) title modName m₂.render =
      .ok (processDocs hc title modName (m₁.entries cfg)).render := by
  rw [← C04_layout cfg (hc :: hs) title modName m₁ m₂ hv₁ hv₂ hwf hk1 h]
  exact T_pipeline cfg hc hs title modName m₁ hv₁ hwf hk1

/-! ## separators and comments -/

/-- Adding or removing spaces, tabs, blank lines, line comments and bracket comments anywhere between tokens —
    before a command, between a doccomment and its command, inside argument lists, before the module doccomment,
    at the end of the file: `SameUpToLayout` (`C02.lean`) relates item lists whose corresponding commands have the
    same name up to case and the same parse-tree arguments and whose doccomment tokens have the same text; every
    `Sep` of the tree, the BOM and the trailing filler are unconstrained. -/
theorem C04_separators (cfg : Cfg) (hdrs : List Str) (title modName : Str) (m₁ m₂ : Module)
    (hv₁ : m₁.valid = true) (hv₂ : m₂.valid = true) (hwf : itemsWf false m₁.items = true)
    (hk1 : cfg.inclCppClass = true ∨ itemsHaveDocumentedClass m₁.items = false)
    (hmod : DocSim m₁.modDoc m₂.modDoc) (h : SameUpToLayout m₁.items m₂.items) :
    pipeline cfg hdrs title modName m₁.render = pipeline cfg hdrs title modName m₂.render :=
  C04_layout cfg hdrs title modName m₁ m₂ hv₁ hv₂ hwf hk1
    ⟨itemsRel.mono (fun _ _ h => h) (fun _ _ h => h.equiv) _ _ h, hmod.modEquiv⟩

/-- in particular with the identical module doccomment -/
theorem C04_separators' (cfg : Cfg) (hdrs : List Str) (title modName : Str) (m₁ m₂ : Module)
    (hv₁ : m₁.valid = true) (hv₂ : m₂.valid = true) (hwf : itemsWf false m₁.items = true)
    (hk1 : cfg.inclCppClass = true ∨ itemsHaveDocumentedClass m₁.items = false)
    (hmod : m₁.modDoc = m₂.modDoc) (h : SameUpToLayout m₁.items m₂.items) :
    pipeline cfg hdrs title modName m₁.render = pipeline cfg hdrs title modName m₂.render :=
  C04_separators cfg hdrs title modName m₁ m₂ hv₁ hv₂ hwf hk1 (by rw [hmod]; rfl) h

/-! ## letter case of command names -/

/-- Changing the letter case of command names (`SameUpToCase`, `C02.lean`: every command of `m₂` is the
    corresponding command of `m₁` with its name respelled, `asciiLower` of the names agreeing; everything else
    identical) does not change the page. -/
theorem C04_case (cfg : Cfg) (hdrs : List Str) (title modName : Str) (m₁ m₂ : Module)
    (hv₁ : m₁.valid = true) (hv₂ : m₂.valid = true) (hwf : itemsWf false m₁.items = true)
    (hk1 : cfg.inclCppClass = true ∨ itemsHaveDocumentedClass m₁.items = false)
    (hmod : m₁.modDoc = m₂.modDoc) (h : SameUpToCase m₁.items m₂.items) :
    pipeline cfg hdrs title modName m₁.render = pipeline cfg hdrs title modName m₂.render :=
  C04_separators' cfg hdrs title modName m₁ m₂ hv₁ hv₂ hwf hk1 hmod h.layout

/-! ## re-indenting a doccomment block -/

/-- a doccomment in the prescribed form: `#`-led body lines, LF line ends, nothing after `#[[[` on the opening
    line, indentation of blanks and tabs, no line break inside a line text -/
structure DocC.Canonical (d : DocC) : Prop where
  leader : d.leader = true
  lf : d.crlf = false
  plain : d.openSuffix = []
  ind : IndOk d.ind
  lines : ∀ t ∈ d.lines, NoNl t

/-- the block moved to another indentation: the opening line, every body line and the closing line start with
    `ind'` instead of `d.ind` (`DocC.render`, `DocC.tokenText`, `DocC.bodyLine`) -/
def DocC.reindent (d : DocC) (ind' : Str) : DocC := { d with ind := ind' }

/-- re-indenting a canonical doccomment uniformly with spaces or tabs keeps its cleaned text
    (`C01_clean_reindent`) -/
theorem C04_reindent_equiv (d : DocC) (ind' : Str) (hc : d.Canonical) (hi' : IndOk ind') :
    DocEquiv (some d) (some (d.reindent ind')) :=
  ⟨rfl, (C01_clean_reindent d ind' hc.leader hc.lf hc.plain hc.ind hi' hc.lines).symm⟩

/-- `d'` is `d`, or `d` is canonical and `d'` is `d` at another blank/tab indentation -/
def Reindented : Option DocC → Option DocC → Prop
  | none, none => True
  | some d, some d' => d' = d ∨ (d.Canonical ∧ ∃ ind', IndOk ind' ∧ d' = d.reindent ind')
  | _, _ => False

theorem Reindented.equiv : ∀ {d d' : Option DocC}, Reindented d d' → DocEquiv d d'
  | none, none, _ => DocEquiv.refl _
  | some d, some d', h => by
    rcases h with rfl | ⟨hc, ind', hi', rfl⟩
    · exact DocEquiv.refl _
    · exact C04_reindent_equiv d ind' hc hi'
  | none, some _, h | some _, none, h => by simp [Reindented] at h

theorem Reindented.refl : ∀ d : Option DocC, Reindented d d
  | none => trivial
  | some _ => Or.inl rfl

/-- any number of canonical doccomments, anywhere in the tree (on commands, blocks, declarations, dangling ones),
    re-indented — each to its own new indentation — everything else identical -/
theorem C04_reindent_tree (cfg : Cfg) (hdrs : List Str) (title modName : Str) (m₁ m₂ : Module)
    (hv₁ : m₁.valid = true) (hv₂ : m₂.valid = true) (hwf : itemsWf false m₁.items = true)
    (hk1 : cfg.inclCppClass = true ∨ itemsHaveDocumentedClass m₁.items = false)
    (hmod : m₁.modDoc = m₂.modDoc) (h : itemsRel Eq Reindented m₁.items m₂.items) :
    pipeline cfg hdrs title modName m₁.render = pipeline cfg hdrs title modName m₂.render :=
  C04_layout cfg hdrs title modName m₁ m₂ hv₁ hv₂ hwf hk1
    ⟨itemsRel.mono (fun c _ h => h ▸ Call.Sim.refl c) (fun _ _ h => h.equiv) _ _ h, by rw [hmod]; rfl⟩

/-- the single-item form: the doccomment `d` of one top-level command is moved from its indentation to `ind'` -/
theorem C04_reindent (cfg : Cfg) (hdrs : List Str) (title modName : Str) (m₁ m₂ : Module)
    (pre post : List Item) (d : DocC) (call : Call) (ind' : Str)
    (hc : d.Canonical) (hi' : IndOk ind')
    (h₁ : m₁.items = pre ++ [Item.cmd (some d) call] ++ post)
    (h₂ : m₂.items = pre ++ [Item.cmd (some (d.reindent ind')) call] ++ post)
    (hmod : m₁.modDoc = m₂.modDoc)
    (hv₁ : m₁.valid = true) (hv₂ : m₂.valid = true) (hwf : itemsWf false m₁.items = true)
    (hk1 : cfg.inclCppClass = true ∨ itemsHaveDocumentedClass m₁.items = false) :
    pipeline cfg hdrs title modName m₁.render = pipeline cfg hdrs title modName m₂.render := by
  apply C04_reindent_tree cfg hdrs title modName m₁ m₂ hv₁ hv₂ hwf hk1 hmod
  rw [h₁, h₂]
  apply itemsRel.context (fun _ => rfl) Reindented.refl
  simp only [Item.Rel]
  exact ⟨Or.inr ⟨hc, ind', hi', rfl⟩, trivial⟩

/-- the same for the doccomment of a block (function, macro, class, …) -/
theorem C04_reindent_block (cfg : Cfg) (hdrs : List Str) (title modName : Str) (m₁ m₂ : Module)
    (pre post : List Item) (d : DocC) (o : Call) (body : List Item) (c : Call) (ind' : Str)
    (hc : d.Canonical) (hi' : IndOk ind')
    (h₁ : m₁.items = pre ++ [Item.block (some d) o body c] ++ post)
    (h₂ : m₂.items = pre ++ [Item.block (some (d.reindent ind')) o body c] ++ post)
    (hmod : m₁.modDoc = m₂.modDoc)
    (hv₁ : m₁.valid = true) (hv₂ : m₂.valid = true) (hwf : itemsWf false m₁.items = true)
    (hk1 : cfg.inclCppClass = true ∨ itemsHaveDocumentedClass m₁.items = false) :
    pipeline cfg hdrs title modName m₁.render = pipeline cfg hdrs title modName m₂.render := by
  apply C04_reindent_tree cfg hdrs title modName m₁ m₂ hv₁ hv₂ hwf hk1 hmod
  rw [h₁, h₂]
  apply itemsRel.context (fun _ => rfl) Reindented.refl
  simp only [Item.Rel]
  exact ⟨Or.inr ⟨hc, ind', hi', rfl⟩, trivial, itemsRel.refl (fun _ => rfl) Reindented.refl body, trivial⟩

/-- the module doccomment `#[[[<blanks>@module<rest>` (LF line ends, `#`-led lines) may be re-indented as well:
    name and doc text do not depend on the indentation (`C01_module_doc`) -/
theorem C04_reindent_module_equiv (d : DocC) (ind' sp rest : Str) (hl : d.leader = true) (hcr : d.crlf = false)
    (hi : IndOk d.ind) (hi' : IndOk ind') (ho : d.openSuffix = sp ++ lit "@module" ++ rest) (hsp : IndOk sp)
    (hr : NoNl rest) (hn : ∀ t ∈ d.lines, NoNl t) :
    ModDocEquiv (some d) (some (d.reindent ind')) := by
  simp only [ModDocEquiv, Option.map_some]
  rw [C01_module_doc d sp rest hl hcr hi ho hsp hr hn,
    C01_module_doc (d.reindent ind') sp rest hl hcr hi' ho hsp hr hn]
  rfl

theorem C04_reindent_module (cfg : Cfg) (hdrs : List Str) (title modName : Str) (m₁ m₂ : Module)
    (d : DocC) (ind' sp rest : Str) (hl : d.leader = true) (hcr : d.crlf = false)
    (hi : IndOk d.ind) (hi' : IndOk ind') (ho : d.openSuffix = sp ++ lit "@module" ++ rest) (hsp : IndOk sp)
    (hr : NoNl rest) (hn : ∀ t ∈ d.lines, NoNl t)
    (h₁ : m₁.modDoc = some d) (h₂ : m₂.modDoc = some (d.reindent ind')) (hitems : m₁.items = m₂.items)
    (hv₁ : m₁.valid = true) (hv₂ : m₂.valid = true) (hwf : itemsWf false m₁.items = true)
    (hk1 : cfg.inclCppClass = true ∨ itemsHaveDocumentedClass m₁.items = false) :
    pipeline cfg hdrs title modName m₁.render = pipeline cfg hdrs title modName m₂.render := by
  apply C04_layout cfg hdrs title modName m₁ m₂ hv₁ hv₂ hwf hk1
  refine ⟨hitems ▸ itemsRel.refl Call.Sim.refl DocEquiv.refl _, ?_⟩
  rw [h₁, h₂]
  exact C04_reindent_module_equiv d ind' sp rest hl hcr hi hi' ho hsp hr hn

/-! ## CRLF line ends (partial) -/

/-- **The CRLF half, as far as it is proved.**  Converting the line ends of a canonical doccomment block to CRLF
    changes its cleaned text in exactly this way: every line keeps its `'\r'`, and the opening line leaves one
    extra first line consisting of `'\r'` alone (with LF it leaves an empty line, which `clean_doc_lines` drops).
    So the two cleaned texts agree after removing `'\r'` characters and whitespace-only lines.

    The statement of the property about the *rendered page* ("at most line-ending characters and whitespace-only
    lines of the output change") is **not** proved in Lean: separators between tokens (`SepAtom.nl true`, CRLF
    line comments) are covered by `C04_separators`/`C04_token_sequence` — they change nothing at all —, but for
    CRLF inside doccomment blocks the page-level claim is carried by the correspondence check, which compares the
    real outputs for LF and CRLF renderings of the same module byte for byte under that normalisation. -/
theorem C04_crlf_partial (d : DocC) (hc : d.Canonical) :
    docTextOf (some d) = joinNl (d.lines ++ [[]]) ∧
    docTextOf (some { d with crlf := true }) = joinNl (['\r'] :: d.lines.map (· ++ ['\r']) ++ [[]]) :=
  ⟨C01_clean_canonical d hc.leader hc.lf hc.plain hc.ind hc.lines,
   C01_clean_crlf { d with crlf := true } hc.leader rfl hc.plain hc.ind hc.lines⟩

/-- the same, line by line: the lines of the CRLF text are `"\r"`, then the LF lines each with `'\r'` appended
    (the final empty line excepted) -/
theorem C04_crlf_lines_partial (d : DocC) (hc : d.Canonical) :
    splitNl (docTextOf (some d)) = d.lines ++ [[]] ∧
    splitNl (docTextOf (some { d with crlf := true })) = ['\r'] :: d.lines.map (· ++ ['\r']) ++ [[]] := by
  obtain ⟨h1, h2⟩ := C04_crlf_partial d hc
  rw [h1, h2]
  constructor
  · apply splitNl_joinNl (by simp)
    intro l hm
    rcases List.mem_append.mp hm with hm | hm
    · exact hc.lines l hm
    · simp at hm; simp [hm]
  · apply splitNl_joinNl (by simp)
    intro l hm
    simp only [List.cons_append, List.mem_cons, List.mem_append, List.mem_map, List.not_mem_nil, or_false] at hm
    rcases hm with rfl | ⟨t, ht, rfl⟩ | rfl
    · decide
    · have := hc.lines t ht
      simp [NoNl] at this
      simp [this]
    · simp

/-- the module doccomment with CRLF line ends (`C01_module_doc_crlf`): the doc lines keep their `'\r'`; the one on
    the opening line is stripped from the name -/
theorem C04_crlf_module_partial (d : DocC) (sp rest : Str) (hl : d.leader = true) (hcr : d.crlf = false)
    (hi : IndOk d.ind) (ho : d.openSuffix = sp ++ lit "@module" ++ rest) (hsp : IndOk sp)
    (hr : NoNl rest) (hn : ∀ t ∈ d.lines, NoNl t) :
    moduleNameDoc d.tokenText = (stripWs (replaceAll (lit "@module") [] rest), joinNl (d.lines ++ [[]])) ∧
    moduleNameDoc { d with crlf := true }.tokenText =
      (stripWs (replaceAll (lit "@module") [] (rest ++ ['\r'])), joinNl (d.lines.map (· ++ ['\r']) ++ [[]])) :=
  ⟨C01_module_doc d sp rest hl hcr hi ho hsp hr hn,
   C01_module_doc_crlf { d with crlf := true } sp rest hl rfl hi ho hsp hr hn⟩

/-! ## non-vacuity

`exA`:
```
#[[[
# Doc of f
# :param x: it
#]]
function(f x)
  option(O "help")
endfunction()
```
`exB`: the same module with a byte-order mark, a CRLF-terminated line comment and a blank line in front, the
doccomment block re-indented by a tab and a space, a bracket comment between the doccomment and its command,
command names in other letter cases, blanks before `(`, a line comment and a line break inside an argument list,
a bracket comment between arguments, CRLF line breaks before `)`, no line end at the end of the file. -/

namespace C04

def docA : DocC :=
  { pre := [], ind := [], openSuffix := [], lines := [lit "Doc of f", lit ":param x: it"], leader := true, crlf := false }

def docB : DocC :=
  { docA with pre := [.lineComment (lit " leading comment") (some true), .nl false], ind := lit "\t " }

def exA : Module :=
  { bom := false, modDoc := none, tail := [.nl false],
    items := [
      .block (some docA)
        { pre := [.nl false], name := lit "function", sp := 0, close := [],
          args := [.tok [] (.bare (lit "f")), .tok [.spaces 1] (.bare (lit "x"))] }
        [ .cmd none
            { pre := [.nl false, .spaces 2], name := lit "option", sp := 0, close := [],
              args := [.tok [] (.bare (lit "O")), .tok [.spaces 1] (.quoted (lit "help"))] } ]
        { pre := [.nl false], name := lit "endfunction", sp := 0, args := [], close := [] } ] }

def exB : Module :=
  { bom := true, modDoc := none, tail := [],
    items := [
      .block (some docB)
        { pre := [.nl true, .bracketComment 1 (lit " between doc and command "), .nl false, .tabs 1],
          name := lit "FUNCTION", sp := 2, close := [.spaces 1],
          args := [.tok [.spaces 1] (.bare (lit "f")),
                   .tok [.spaces 2, .lineComment (lit " c") (some false), .spaces 3] (.bare (lit "x"))] }
        [ .cmd none
            { pre := [.nl false, .nl false], name := lit "Option", sp := 0, close := [.nl true],
              args := [.tok [] (.bare (lit "O")),
                       .tok [.spaces 1, .bracketComment 0 (lit " b "), .spaces 1] (.quoted (lit "help"))] } ]
        { pre := [.nl true, .lineComment (lit " done") (some true)], name := lit "EndFunction", sp := 1, args := [],
          close := [.spaces 1] } ] }


theorem exA_valid : exA.valid = true := by
  simp only [exA, docA, String.reduceToList, lit]
  decide

theorem exB_valid : exB.valid = true := by
  simp only [exB, docB, docA, String.reduceToList, lit]
  decide

theorem docA_canonical : docA.Canonical := by
  refine ⟨rfl, rfl, rfl, ?_, ?_⟩
  · intro c h; simp [docA] at h
  · intro t h
    simp only [docA, String.reduceToList, lit, List.mem_cons, List.not_mem_nil, or_false] at h
    rcases h with rfl | rfl <;> simp [NoNl]

theorem exAB_variant : LayoutVariant exA exB := by
  refine ⟨?_, rfl⟩
  simp only [exA, exB, itemsRel, Item.Rel, and_true]
  refine ⟨?_, ⟨by decide, rfl⟩, ⟨DocEquiv.refl _, by decide, rfl⟩, by decide, rfl⟩
  exact C04_reindent_equiv docA (lit "\t ") docA_canonical (by intro c h; simp [lit] at h; rcases h with rfl | rfl <;> simp)

example (hdrs : List Str) (title modName : Str) :
    pipeline {} hdrs title modName exA.render = pipeline {} hdrs title modName exB.render :=
  C04_layout {} hdrs title modName exA exB exA_valid exB_valid (by decide) (Or.inl rfl) exAB_variant

example : exA.render ≠ exB.render := by
  simp only [exA, exB, docA, docB, String.reduceToList, lit]
  decide

example : exA.sigToks ≠ exB.sigToks := by
  simp only [exA, exB, docA, docB, String.reduceToList, lit]
  decide


/-- the block doccomment of `exA` moved to an indentation of two blanks: `C04_reindent_block` -/
def exA2 : Module :=
  { exA with items := [
      .block (some (docA.reindent (lit "  ")))
        { pre := [.nl false], name := lit "function", sp := 0, close := [],
          args := [.tok [] (.bare (lit "f")), .tok [.spaces 1] (.bare (lit "x"))] }
        [ .cmd none
            { pre := [.nl false, .spaces 2], name := lit "option", sp := 0, close := [],
              args := [.tok [] (.bare (lit "O")), .tok [.spaces 1] (.quoted (lit "help"))] } ]
        { pre := [.nl false], name := lit "endfunction", sp := 0, args := [], close := [] } ] }

theorem exA2_valid : exA2.valid = true := by
  simp only [exA2, exA, docA, DocC.reindent, String.reduceToList, lit]
  decide

example (hdrs : List Str) (title modName : Str) :
    pipeline {} hdrs title modName exA.render = pipeline {} hdrs title modName exA2.render :=
  C04_reindent_block {} hdrs title modName exA exA2 [] [] docA _ _ _ (lit "  ") docA_canonical
    (by intro c h; simp [lit] at h; simp [h]) rfl rfl rfl exA_valid exA2_valid (by decide) (Or.inl rfl)

/-- same tokens, other filler: BOM, a final comment without line end -/
def exA3 : Module := { exA with bom := true, tail := [.nl true, .tabs 1, .lineComment (lit " the end") none] }

theorem exA3_valid : exA3.valid = true := by
  simp only [exA3, exA, docA, String.reduceToList, lit]
  decide

example (cfg : Cfg) (hdrs : List Str) (title modName : Str) :
    pipeline cfg hdrs title modName exA.render = pipeline cfg hdrs title modName exA3.render :=
  C04_token_sequence cfg hdrs title modName exA exA3 exA_valid exA3_valid rfl

/-- `exPlain` / `exRespelt` of `C02.lean` as modules: command names respelled, nothing else changed -/
def exPlainM : Module := { bom := false, modDoc := none, items := exPlain, tail := [.nl false] }
def exRespeltM : Module := { bom := false, modDoc := none, items := exRespelt, tail := [.nl false] }

theorem exPlainM_valid : exPlainM.valid = true := by
  simp only [exPlainM, exPlain, mkCall, String.reduceToList, List.map]
  decide

theorem exRespeltM_valid : exRespeltM.valid = true := by
  simp only [exRespeltM, exRespelt, mkCall, String.reduceToList, List.map]
  decide

example (hdrs : List Str) (title modName : Str) :
    pipeline {} hdrs title modName exPlainM.render = pipeline {} hdrs title modName exRespeltM.render := by
  apply C04_case {} hdrs title modName exPlainM exRespeltM exPlainM_valid exRespeltM_valid (by decide) (Or.inl rfl) rfl
  simp [SameUpToCase, exPlainM, exRespeltM, exPlain, exRespelt, itemsRel, Item.Rel, Call.CaseEq, Call.recase, mkCall]
  decide

/-- the cleaned text of `docA` with LF and with CRLF line ends -/
example : String.ofList (docTextOf (some docA)) = "Doc of f\n:param x: it\n" ∧
    String.ofList (docTextOf (some { docA with crlf := true })) = "\r\nDoc of f\r\n:param x: it\r\n" := by
  obtain ⟨h1, h2⟩ := C04_crlf_partial docA docA_canonical
  rw [h1, h2]
  simp only [docA, String.reduceToList, lit]
  decide

end C04

end Cminx
