import CminxModel.Walk
/-!
# Spec-side definitions shared by C13, C14, C17, C18 (directory mode of `document`)

Everything here is a *declarative* reading of the property statements: plain structural recursion over the
file-system tree, no accumulator, no error state.  The property files relate the model
(`walkDir`, `walkSubs`, `emitFiles`, `emitPage`, `document`, `runMain` in `CminxModel/Walk.lean`) to these.

* `keptFiles`     — the non-excluded regular files of a directory, in listing order.
* `survives`      — a sub-directory is walked into: not excluded, and (auto-exclusion off or it directly holds a
                    non-excluded `*.cmake` file).
* `layoutOf`      — everything a run generates for a directory, in order: for each processed directory its index
                    item followed by its page items, then (with `-r`) the same for the surviving sub-directories in
                    listing order.
* `pagesOf`, `indexesOf` — the page items resp. the index items of the layout.
* `treeOk`        — the tree is a file-system tree as far as the walk cares: the sub-directories of one directory
                    have distinct names (hereditarily).  (`os.walk` can never deliver anything else.)
* `Processed`     — C13's inductive wording of "processed directory".
-/
namespace Cminx

/-! ## Which entries take part -/

/-- the non-excluded regular files of the directory `rel` (listing order) -/
def keptFiles (excl : List Str → Bool → Bool) (rel : List Str) (listing : List FsNode) : List Str :=
  (fileNames listing).filter (fun f => !excl (rel ++ [f]) false)

/-- the sub-directory `n` (children `ch`) of the directory `rel` is walked into:
    it is not excluded and — when auto-exclusion is on — it directly contains a non-excluded `*.cmake` file -/
def survives (c : WalkCfg) (excl : List Str → Bool → Bool) (rel : List Str) (n : Str) (ch : List FsNode) : Bool :=
  !excl (rel ++ [n]) true && (!c.autoExclude || hasCMake excl (rel ++ [n]) ch)

/-- names of the surviving sub-directories, in listing order -/
def survivingDirs (c : WalkCfg) (excl : List Str → Bool → Bool) (rel : List Str) : List FsNode → List Str
  | [] => []
  | .file _ _ :: rest => survivingDirs c excl rel rest
  | .dir n ch :: rest =>
    if survives c excl rel n ch then n :: survivingDirs c excl rel rest else survivingDirs c excl rel rest

/-- the surviving sub-directories with their children, in listing order -/
def survivingNodes (c : WalkCfg) (excl : List Str → Bool → Bool) (rel : List Str) : List FsNode → List (Str × List FsNode)
  | [] => []
  | .file _ _ :: rest => survivingNodes c excl rel rest
  | .dir n ch :: rest =>
    if survives c excl rel n ch then (n, ch) :: survivingNodes c excl rel rest else survivingNodes c excl rel rest

/-- sub-directory names of one directory are distinct, hereditarily -/
def dirNamesDistinct : List Str → Bool
  | [] => true
  | n :: ns => !ns.contains n && dirNamesDistinct ns

mutual
def nodeOk : FsNode → Bool
  | .file _ _ => true
  | .dir _ ch => dirNamesDistinct (dirNames ch) && listOk ch
def listOk : List FsNode → Bool
  | [] => true
  | x :: xs => nodeOk x && listOk xs
end

/-- the listing is that of a real directory as far as the walk can tell: sub-directory names are distinct,
    here and in every directory below -/
def treeOk (listing : List FsNode) : Bool := dirNamesDistinct (dirNames listing) && listOk listing

/-! ## What is generated, in order -/

/-- one generated file, before rendering -/
inductive WItem where
  /-- the `index.rst` of directory `rel`, built from these (sorted) sub-directory and file names -/
  | index (rel : List Str) (subdirs files : List Str)
  /-- the page of the file `name` with this content in directory `rel` -/
  | page (rel : List Str) (name content : Str)
deriving Repr, DecidableEq, Inhabited

/-- where the item is written, relative to the output directory -/
def WItem.path : WItem → List Str
  | .index rel _ _ => rel ++ [lit "index.rst"]
  | .page rel name _ => rel ++ [stem name ++ lit ".rst"]

/-- the text of the item, or the error its generation raises -/
def WItem.text (c : WalkCfg) (pfx : Str) : WItem → Except Err Str
  | .index rel subdirs files => indexPage c pfx rel subdirs files
  | .page rel name content => Cminx.page c (some pfx) (joinWith ['/'] (rel ++ [name])) content

def okText : Except Err Str → Str
  | .ok t => t
  | .error _ => []

/-- the text of an item that renders -/
def WItem.textD (c : WalkCfg) (pfx : Str) (it : WItem) : Str := okText (it.text c pfx)

def WItem.write (c : WalkCfg) (pfx : Str) (it : WItem) : Write := ⟨it.path, it.textD c pfx⟩

def WItem.isPage : WItem → Bool
  | .page _ _ _ => true
  | .index _ _ _ => false

def WItem.page? : WItem → Option (List Str × Str × Str)
  | .page rel name content => some (rel, name, content)
  | .index _ _ _ => none

def WItem.index? : WItem → Option (List Str × List Str × List Str)
  | .index rel subdirs files => some (rel, subdirs, files)
  | .page _ _ _ => none

/-- the CMake files among `names` (a sorted list of file names of `listing`), each with its content -/
def dirPages (rel : List Str) (listing : List FsNode) (names : List Str) : List WItem :=
  names.filterMap fun f => if isCMakeName f then (findFile f listing).map (WItem.page rel f) else none

/-- what is generated for the directory `rel` itself: nothing if auto-exclusion is on and it directly holds no
    non-excluded `*.cmake` file; otherwise its index followed by the pages of its non-excluded CMake files
    in sorted name order -/
def dirItems (c : WalkCfg) (excl : List Str → Bool → Bool) (rel : List Str) (listing : List FsNode) : List WItem :=
  if c.autoExclude && !hasCMake excl rel listing then []
  else .index rel (sortStrs (survivingDirs c excl rel listing)) (sortStrs (keptFiles excl rel listing))
       :: dirPages rel listing (sortStrs (keptFiles excl rel listing))

mutual
/-- what is generated for the entry `x` of directory `rel` when walking into sub-directories -/
def nodeLayout (c : WalkCfg) (excl : List Str → Bool → Bool) (rel : List Str) : FsNode → List WItem
  | .file _ _ => []
  | .dir n ch =>
    if survives c excl rel n ch then
      dirItems c excl (rel ++ [n]) ch ++ (if c.recursive then subsLayout c excl (rel ++ [n]) ch else [])
    else []
/-- … for all entries of a listing, in listing order -/
def subsLayout (c : WalkCfg) (excl : List Str → Bool → Bool) (rel : List Str) : List FsNode → List WItem
  | [] => []
  | x :: xs => nodeLayout c excl rel x ++ subsLayout c excl rel xs
end

/-- everything generated for the directory `rel` with this listing, in the order it is generated -/
def layoutOf (c : WalkCfg) (excl : List Str → Bool → Bool) (rel : List Str) (listing : List FsNode) : List WItem :=
  dirItems c excl rel listing ++ (if c.recursive then subsLayout c excl rel listing else [])

/-- the processed CMake files in processing order: (relative directory, file name, content) -/
def pagesOf (c : WalkCfg) (excl : List Str → Bool → Bool) (rel : List Str) (listing : List FsNode) :
    List (List Str × Str × Str) :=
  (layoutOf c excl rel listing).filterMap WItem.page?

/-- the directories that get an index page: (relative directory, sorted surviving sub-directories,
    sorted non-excluded files) -/
def indexesOf (c : WalkCfg) (excl : List Str → Bool → Bool) (rel : List Str) (listing : List FsNode) :
    List (List Str × List Str × List Str) :=
  (layoutOf c excl rel listing).filterMap WItem.index?

/-- relative path of a processed file as CMinx spells it: components joined by `/` -/
def relPath (p : List Str × Str × Str) : Str := joinWith ['/'] (p.1 ++ [p.2.1])

/-- the page text of a processed file (meaningful when the page renders) -/
def pageText (c : WalkCfg) (pfx : Str) (p : List Str × Str × Str) : Str :=
  okText (page c (some pfx) (relPath p) p.2.2)

/-- where the page of a processed file is written -/
def pagePath (p : List Str × Str × Str) : List Str := p.1 ++ [stem p.2.1 ++ lit ".rst"]

/-- where the index of a processed directory is written -/
def indexPath (d : List Str × List Str × List Str) : List Str := d.1 ++ [lit "index.rst"]

/-- the toctree entries of an index built from these sub-directory and file names -/
def tocEntries (c : WalkCfg) (subdirs files : List Str) : List Str :=
  (if c.recursive then subdirs.map (· ++ lit "/index.rst") else []) ++ (files.filter isCMakeName).map stem

/-- the title of the index of directory `rel` -/
def indexTitle (c : WalkCfg) (pfx : Str) (rel : List Str) : Str := if rel.isEmpty then pfx else pfx ++ c.sep ++ relStr rel

/-- the index document before serialisation -/
def indexDoc (c : WalkCfg) (pfx hc : Str) (rel subdirs files : List Str) : Doc :=
  { hc, title := indexTitle c pfx rel,
    body := [.directive (lit "toctree") [] [(lit "maxdepth", lit "2")] ((tocEntries c subdirs files).map Elem.para)] }

/-! ## C13's wording of "processed" -/

/-- `Processed c excl rel₀ listing₀ rel listing`: starting the walk at directory `rel₀`, the directory `rel`
    (with this listing) is processed: it is the start directory, or — only with `-r` — a surviving
    sub-directory of a processed directory. -/
inductive Processed (c : WalkCfg) (excl : List Str → Bool → Bool) (rel₀ : List Str) (listing₀ : List FsNode) :
    List Str → List FsNode → Prop where
  | root : Processed c excl rel₀ listing₀ rel₀ listing₀
  | sub {rel listing n ch} : Processed c excl rel₀ listing₀ rel listing → c.recursive = true →
      FsNode.dir n ch ∈ listing → survives c excl rel n ch = true →
      Processed c excl rel₀ listing₀ (rel ++ [n]) ch

/-- C13's quantifier guard: with auto-exclusion on, the input directory itself directly holds a non-excluded
    (lower-case) `.cmake` file -/
def Guard (c : WalkCfg) (excl : List Str → Bool → Bool) (rel : List Str) (listing : List FsNode) : Prop :=
  c.autoExclude = true → hasCMake excl rel listing = true

/-- The explicit hypothesis that excludes the known output-path collisions (finding K4): in every processed
    directory the non-excluded CMake files have pairwise distinct stems (so not `a.cmake` next to `a.CMake`,
    nor a duplicated name) and none has the stem `index` (so no `index.cmake`). -/
def NoStemClash (c : WalkCfg) (excl : List Str → Bool → Bool) (rel : List Str) (listing : List FsNode) : Prop :=
  ∀ rel' l', Processed c excl rel listing rel' l' →
    (((keptFiles excl rel' l').filter isCMakeName).map stem).Nodup ∧
      lit "index" ∉ ((keptFiles excl rel' l').filter isCMakeName).map stem

/-! ## Accumulation -/

/-- `r ⊕ d`: continue the run `r` with the outcome `d` of further work that was started from the empty result;
    once `r` carries an error nothing is added -/
def RunResult.app (r d : RunResult) : RunResult :=
  if r.error.isSome then r
  else { writes := r.writes ++ d.writes, stdout := r.stdout ++ d.stdout, error := d.error }

/-- what input `i` generates when documented alone -/
def aloneOut (c : WalkCfg) (i : MainInput) : RunResult := (document c i.excl i.exclRoot i.inp {}).1


/-! ## A concrete tree for the non-vacuity examples

```
./b.cmake  ./A.CMake (mixed-case extension)  ./readme.txt (not CMake)  ./skip.cmake (excluded by pattern)
./sub/c.cmake  ./sub/deep/d.cmake  ./sub/nocmake/x.txt (auto-excluded)
./hidden/h.cmake (directory excluded by pattern)   ./upper/U.CMAKE (auto-excluded: the scan is case-sensitive)
```
-/

def exTree : List FsNode :=
  [ .file (lit "b.cmake") (lit "#[[[\n# doc\n#]]\nfunction(f)\nendfunction()\n"),
    .file (lit "A.CMake") [], .file (lit "readme.txt") (lit "x"), .file (lit "skip.cmake") [],
    .dir (lit "sub") [ .file (lit "c.cmake") [], .dir (lit "deep") [.file (lit "d.cmake") []],
                        .dir (lit "nocmake") [.file (lit "x.txt") []] ],
    .dir (lit "hidden") [ .file (lit "h.cmake") [] ],
    .dir (lit "upper") [ .file (lit "U.CMAKE") [] ] ]

def exExcl : List Str → Bool → Bool :=
  fun p d => p.getLast? == some (if d then lit "hidden" else lit "skip.cmake")

def exCfg : WalkCfg := { recursive := true }
def exCfgFlat : WalkCfg := { recursive := false }
def exCfgOut : WalkCfg := { recursive := true, toStdout := true }

def exInDir : MainInput := ⟨.dir (lit "P") exTree, exExcl, false⟩
def exInFile : MainInput := ⟨.file (lit "x.cmake") (lit "set(x)\n"), exExcl, false⟩


/-- the page triple of `b.cmake` in `exTree` -/
def exB : List Str × Str × Str := ([], lit "b.cmake", lit "#[[[\n# doc\n#]]\nfunction(f)\nendfunction()\n")


/-- the error of a failed generation -/
def errOf : Except Err Str → Option Err
  | .error e => some e
  | .ok _ => none

/-- a directory whose second file (in sorted order) has a syntax error -/
def exErrTree : List FsNode :=
  [.file (lit "z.cmake") [], .file (lit "bad.cmake") (lit "set("), .file (lit "a.cmake") []]


end Cminx
