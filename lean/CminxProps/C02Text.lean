import CminxProps.C12
/-!
# C02 (text half) — one heading line per entry, in order

*Statement (the part about the output text).* "… the output contains exactly one entry for each … command …, in
the order the commands appear …"

That the `documented` list has one entry per command, in order, is the aggregator's half (T_agg / C02 tree half).
Here: the page text shows exactly these entries, as exactly one line starting with `.. ` at column 0 each, in list
order, the module directive first when it is inserted.  Every other line of the page is blank, belongs to the title
frame, or starts with three spaces (it lies inside an entry's block, C07).

Hypotheses, all explicit:
* the entries' single-line strings and the path-derived module name contain no line break (`Entry.OneLine`, C07);
* no line of the title frame starts with `.. ` (`C02_text_headings`), which holds in particular when header string
  and title contain no line break and do not start with `.` (`C02_text_headings_simple`).  Without it the frame
  itself can look like a directive line, e.g. with the title `.. x` or the header string `.. `
  (`C02_frame_counterexample`).
-/
namespace Cminx

/-! ## Spec-side definitions -/

/-- the line that introduces an entry: `.. <directive>:: <argument>` at column 0 -/
def headingLine (e : Entry) : Str :=
  match e.toElem with
  | .directive name args _ _ => lit ".. " ++ name ++ lit ":: " ++ joinWith [','] args
  | _ => []

/-- "starts an explicit markup block at column 0" -/
def isHeadingLine (l : Str) : Bool := (lit ".. ").isPrefixOf l

/-! ## Theorems -/

/-- the heading line spelled out: `.. `, the directive name of the entry's kind, `:: `, the entry's one argument -/
theorem C02_headingLine_eq (e : Entry) :
    ∃ arg body, e.toElem = .directive e.dirName [arg] [] body ∧
      headingLine e = lit ".. " ++ e.dirName ++ lit ":: " ++ arg := by
  cases e <;> exact ⟨_, _, rfl, rfl⟩

theorem C02_headingLine_isHeading (e : Entry) : isHeadingLine (headingLine e) = true := by
  obtain ⟨arg, body, _, h⟩ := C02_headingLine_eq e
  rw [h, isHeadingLine, List.isPrefixOf_iff_prefix]
  exact ⟨e.dirName ++ lit ":: " ++ arg, by simp⟩

/-- a line that is blank or starts with three spaces is not a heading line -/
theorem C02_indented_not_heading (l : Str) (h : l = [] ∨ (indent 1).isPrefixOf l = true) : isHeadingLine l = false := by
  rcases h with rfl | h
  · simp only [isHeadingLine, lit, String.reduceToList]; rfl
  · rw [List.isPrefixOf_iff_prefix] at h
    obtain ⟨t, rfl⟩ := h
    simp only [isHeadingLine, lit, String.reduceToList, indent]
    rfl

/-- nothing inside a directive's block is a heading line at column 0 -/
theorem C02_shifted_not_heading (es : List Elem) : ∀ bl ∈ shiftT (tlinesList es), isHeadingLine bl.2 = false := by
  intro bl hbl
  simp only [shiftT, List.mem_map] at hbl
  obtain ⟨⟨b, l⟩, hx, rfl⟩ := hbl
  apply C02_indented_not_heading
  cases b with
  | false => left; simpa using C07_tlinesList_untagged es _ hx rfl
  | true => right; simp

/-- of the lines of one entry's block exactly one is a heading line: the entry's heading -/
theorem C02_entry_one_heading (e : Entry) :
    (e.toElem.tlines.map (·.2)).filter isHeadingLine = [headingLine e] := by
  obtain ⟨arg, body, he, hh⟩ := C02_headingLine_eq e
  have h1 : isHeadingLine (headingLine e) = true := C02_headingLine_isHeading e
  have h0 : isHeadingLine [] = false := C02_indented_not_heading [] (Or.inl rfl)
  have hs : ((shiftT (tlinesList body)).map (·.2)).filter isHeadingLine = [] := by
    simp only [List.filter_eq_nil_iff, List.mem_map]
    rintro l ⟨bl, hbl, rfl⟩
    simp [C02_shifted_not_heading body bl hbl]
  have hj : joinWith [','] [arg] = arg := rfl
  rw [he, Elem.tlines]
  simp only [List.map_cons, List.map_nil, List.map_append, List.filter_cons, List.filter_append, h0,
    hj, ← hh, h1, hs, Bool.false_eq_true, if_false, if_true, List.append_nil]
  split <;> simp [h0]

theorem C02_entries_headings (es : List Entry) :
    ((tlinesList (es.map Entry.toElem)).map (·.2)).filter isHeadingLine = es.map headingLine := by
  induction es with
  | nil => simp only [List.map_nil, tlinesList, List.map_cons, List.filter_cons]; rfl
  | cons e es ih =>
    simp only [List.map_cons, tlinesList, List.map_append, List.filter_append, C02_entry_one_heading, ih]
    rfl

/-- **The heading lines of a page are exactly the headings of the rendered entries, in order.**
    `hframe`: no line of the title frame starts with `.. `. -/
theorem C02_text_headings (hc title modName : Str) (docs : List Entry) (hm : '\n' ∉ modName)
    (h : ∀ e ∈ docs, e.OneLine)
    (hframe : ∀ l ∈ splitNl (renderHeading hc (titleOf title docs)), isHeadingLine l = false) :
    (splitNl (processDocs hc title modName docs).render).filter isHeadingLine =
      (renderedDocs modName docs).map headingLine := by
  rw [C07_page_lines hc title modName docs hm h, List.filter_append, C02_entries_headings,
    List.filter_eq_nil_iff.2 (by intro l hl; simp [hframe l hl]), List.nil_append]

theorem C02_repeatStr_head (hc : Str) (n : Nat) (c : Char) (h : (repeatStr hc n).head? = some c) :
    hc.head? = some c := by
  induction n with
  | zero => simp [repeatStr] at h
  | succ n ih =>
    cases hc with
    | nil => exact ih (by simpa [repeatStr] using h)
    | cons a as => simpa [repeatStr] using h

theorem C02_repeatStr_noNl (hc : Str) (n : Nat) (h : '\n' ∉ hc) : '\n' ∉ repeatStr hc n := by
  induction n with
  | zero => simp [repeatStr]
  | succ n ih => simp [repeatStr, h, ih]

theorem C02_heading_head (l : Str) (h : isHeadingLine l = true) : l.head? = some '.' := by
  rw [isHeadingLine, List.isPrefixOf_iff_prefix] at h
  obtain ⟨t, rfl⟩ := h
  simp only [lit, String.reduceToList]; rfl

/-- the frame hypothesis holds when header string and title are single-line and do not start with `.` -/
theorem C02_frame_ok (hc t : Str) (hcn : '\n' ∉ hc) (htn : '\n' ∉ t) (hcd : hc.head? ≠ some '.')
    (htd : t.head? ≠ some '.') : ∀ l ∈ splitNl (renderHeading hc t), isHeadingLine l = false := by
  have hb := C02_repeatStr_noNl hc t.length hcn
  have e : splitNl (renderHeading hc t) = [[], repeatStr hc t.length, t, repeatStr hc t.length] := by
    simp only [renderHeading]
    rw [show ∀ a b c : Str, ('\n' :: (a ++ '\n' :: (b ++ '\n' :: c))) = [] ++ '\n' :: (a ++ '\n' :: (b ++ '\n' :: c))
      from fun _ _ _ => rfl, splitNl_append_nl_gen, splitNl_append_nl_gen, splitNl_append_nl_gen,
      splitNl_of_noNl hb, splitNl_of_noNl htn]
    simp [splitNl]
  intro l hl
  rw [e] at hl
  cases hx : isHeadingLine l with
  | false => rfl
  | true =>
    have hd := C02_heading_head l hx
    simp only [List.mem_cons, List.mem_nil_iff, or_false] at hl
    rcases hl with rfl | rfl | rfl | rfl
    · simp at hd
    · exact absurd (C02_repeatStr_head hc _ _ hd) hcd
    · exact absurd hd htd
    · exact absurd (C02_repeatStr_head hc _ _ hd) hcd

theorem C02_titleOf_mem (title : Str) (docs : List Entry) :
    titleOf title docs = title ∨ ∃ d, Entry.module (titleOf title docs) d ∈ docs := by
  induction docs generalizing title with
  | nil => left; rfl
  | cons e es ih =>
    cases e with
    | module n d =>
      simp only [titleOf]
      split
      · rcases ih title with h | ⟨d', h⟩
        · left; exact h
        · right; exact ⟨d', List.mem_cons_of_mem _ h⟩
      · rcases ih n with h | ⟨d', h⟩
        · right; exact ⟨d, by rw [h]; exact List.mem_cons_self⟩
        · right; exact ⟨d', List.mem_cons_of_mem _ h⟩
    | _ =>
      simp only [titleOf]
      rcases ih title with h | ⟨d', h⟩
      · left; exact h
      · right; exact ⟨d', List.mem_cons_of_mem _ h⟩

/-- The same with elementary hypotheses: header string and path-derived title contain no line break, and neither
    the header string nor the title actually used starts with `.`. -/
theorem C02_text_headings_simple (hc title modName : Str) (docs : List Entry) (hm : '\n' ∉ modName)
    (h : ∀ e ∈ docs, e.OneLine) (hcn : '\n' ∉ hc) (htn : '\n' ∉ title) (hcd : hc.head? ≠ some '.')
    (htd : (titleOf title docs).head? ≠ some '.') :
    (splitNl (processDocs hc title modName docs).render).filter isHeadingLine =
      (renderedDocs modName docs).map headingLine := by
  apply C02_text_headings hc title modName docs hm h
  apply C02_frame_ok hc _ hcn _ hcd htd
  rcases C02_titleOf_mem title docs with e | ⟨d, hd⟩
  · rw [e]; exact htn
  · exact h _ hd

/-- no module doccomment: the inserted module directive's heading, then one heading per documented entry, in order -/
theorem C02_text_headings_no_module (hc title modName : Str) (docs : List Entry) (hm : '\n' ∉ modName)
    (h : ∀ e ∈ docs, e.OneLine) (hno : docs.all (!isModule ·) = true)
    (hframe : ∀ l ∈ splitNl (renderHeading hc title), isHeadingLine l = false) :
    (splitNl (processDocs hc title modName docs).render).filter isHeadingLine =
      (lit ".. module:: " ++ modName) :: docs.map headingLine := by
  have ht := C12_titleOf_no_module title docs hno
  rw [C02_text_headings hc title modName docs hm h (by rw [ht]; exact hframe), C07_renderedDocs]
  have hany : docs.any isModule = false := by
    rw [Bool.eq_false_iff]; intro ha
    obtain ⟨e, he, hme⟩ := List.any_eq_true.1 ha
    have := List.all_eq_true.1 hno e he
    simp [hme] at this
  have hid : docs.map (nameModule modName) = docs := by
    conv => rhs; rw [← List.map_id docs]
    apply List.map_congr_left
    intro e he
    have := List.all_eq_true.1 hno e he
    cases e <;> simp_all [nameModule, isModule]
  simp only [hany, Bool.false_eq_true, if_false, List.map_cons, hid, List.cons.injEq, and_true]
  simp [headingLine, Entry.toElem, joinWith, lit]

/-- so the number of heading lines is the number of documented entries, plus one for an inserted module directive -/
theorem C02_text_count (hc title modName : Str) (docs : List Entry) (hm : '\n' ∉ modName)
    (h : ∀ e ∈ docs, e.OneLine)
    (hframe : ∀ l ∈ splitNl (renderHeading hc (titleOf title docs)), isHeadingLine l = false) :
    ((splitNl (processDocs hc title modName docs).render).filter isHeadingLine).length =
      docs.length + (if docs.any isModule then 0 else 1) := by
  rw [C02_text_headings hc title modName docs hm h hframe, List.length_map, renderedDocs, List.length_map]
  split <;> simp

/-- a header *string* that itself looks like explicit markup defeats the count: the frame hypothesis is needed -/
theorem C02_frame_counterexample :
    (splitNl (processDocs (lit ".. ") ['t'] ['m'] []).render).filter isHeadingLine =
      [lit ".. ", lit ".. ", lit ".. module:: m"] := by
  simp only [lit, String.reduceToList]; decide

/-! ## Non-vacuity -/

section Examples

example : (splitNl (processDocs ['#'] (lit "t") (lit "m") [exClass, exVar, exFunc]).render).filter isHeadingLine =
    [lit ".. module:: m", lit ".. py:class:: C", lit ".. data:: V", lit ".. function:: f(a b **kwargs)"] := by
  have := C02_text_headings_no_module ['#'] (lit "t") (lit "m") [exClass, exVar, exFunc] (by simp [lit])
    (by
      intro e he
      simp only [List.mem_cons, List.mem_nil_iff, or_false] at he
      rcases he with rfl | rfl | rfl
      · exact C07_exClass_oneLine
      · exact C07_exVar_oneLine
      · exact C07_exFunc_oneLine)
    (by decide)
    (C02_frame_ok _ _ (by decide) (by simp [lit]) (by decide) (by simp [lit]))
  rw [this]
  simp only [lit, String.reduceToList]
  decide

end Examples

end Cminx
