import CminxProps.C18
#print axioms Cminx.C18_none
#print axioms Cminx.C18_none_emitPage
#print axioms Cminx.C18_none_document
#print axioms Cminx.C18_none_runMain
#print axioms Cminx.C18_file_mode_silent
#print axioms Cminx.C18_file_mode_silent_emitPage
#print axioms Cminx.C18_file_mode_silent_document
#print axioms Cminx.C18_file_mode_silent_runMain
#print axioms Cminx.C18_stdout
#print axioms Cminx.C18_stdout_file
#print axioms Cminx.C18_same_pages
#print axioms Cminx.C18_page_mode_irrelevant
#print axioms Cminx.C18_text_mode_irrelevant
#print axioms Cminx.C18_layout_mode_irrelevant
#print axioms Cminx.C18_stdout_eq_file
#print axioms Cminx.C18_special_missing
