import CminxModel.Rst
/-!
# L3 — `documentation_types.py`: the entry kinds and what each `process()` adds to the writer
-/
namespace Cminx

inductive VarType where | string | list | unset
deriving Repr, DecidableEq, Inhabited

/-- `MethodDocumentation` -/
structure Method where
  name : Str
  doc : Str
  parentClass : Str
  paramTypes : List Str
  params : List Str
  isCtor : Bool
  isMacro : Bool
deriving Repr, DecidableEq, Inhabited

/-- `AttributeDocumentation` -/
structure Attr where
  name : Str
  doc : Str
  parentClass : Str
  dflt : Option Str
deriving Repr, DecidableEq, Inhabited

/-- the objects that can sit in `DocumentationAggregator.documented` -/
inductive Entry where
  | module (name doc : Str)
  | func (isMacro : Bool) (name doc : Str) (params : List Str) (kwargs : Bool)
  | var (name doc : Str) (ty : VarType) (value : Option Str)
  | opt (name doc help : Str) (dflt : Option Str)
  | generic (name doc : Str) (args : List Str)
  | ctest (name doc : Str) (params : List Str)
  | test (isSection : Bool) (name doc : Str) (expectFail : Bool) (params : List Str) (isMacro : Bool)
  | cls (name doc : Str) (supers inner : List Str) (ctors members : List Method) (attrs : List Attr)
deriving Repr, DecidableEq, Inhabited

def macroNote : Str := lit "This is a macro, and so does not introduce a new scope."
def genericWarning : Str := lit "This is a generic command invocation. It is not a function or macro definition."
def ctestWarning : Str :=
  lit "This is a CTest test definition, do not call this manually. Use the \"ctest\" program to execute this test."
def testWarning : Str := lit "This is a CMakeTest test definition, do not call this manually."
def sectionWarning : Str := lit "This is a CMakeTest section definition, do not call this manually."
def methodMacroNote : Str := lit "This member is a macro and so does not introduce a new scope"
def optionNote : Str :=
  lit "\nThis variable is a user-editable option,\nmeaning it appears within the cache and can be\nedited on the command line by the :code:`-D` flag.\n"

/-- `f"{name}({' '.join(params)})"` -/
def signature (name : Str) (params : List Str) : Str := name ++ '(' :: (joinWith [' '] params ++ [')'])

/-- `interpreted_text(role, text)` -/
def interpreted (role text : Str) : Str := ':' :: (role ++ ':' :: '`' :: (text ++ ['`']))

/-- the loop at the end of `MethodDocumentation.process`: one `:param:`/`:type:` field pair per declared type,
    up to the shorter of the two lists, unless the doc already has such a field -/
def methodFields (doc : Str) : List Str → List Str → List Elem
  | ty :: tys, p :: ps =>
    (if isInfix (lit ":param " ++ p ++ [':']) doc then [] else [Elem.field (lit "param " ++ p) []]) ++
    (if isInfix (lit ":type " ++ p ++ [':']) doc then [] else [Elem.field (lit "type " ++ p) ty]) ++
    methodFields doc tys ps
  | _, _ => []

/-- `MethodDocumentation.process` -/
def Method.toElem (m : Method) : Elem :=
  let pretty := joinWith [',', ' '] m.params ++ (if m.paramTypes.contains (lit "args") then lit "[, ...]" else [])
  .directive (lit "py:method") [m.name ++ '(' :: (pretty ++ [')'])] []
    ((if m.isMacro then [Elem.directive (lit "note") [methodMacroNote] [] []] else []) ++
     [Elem.para m.doc] ++ methodFields m.doc m.paramTypes m.params)

/-- `AttributeDocumentation.process` -/
def Attr.toElem (a : Attr) : Elem :=
  .directive (lit "py:attribute") [a.name]
    (match a.dflt with | some v => [(lit "value", v)] | none => []) [Elem.para a.doc]

def section? (title : Str) (xs : List Elem) : List Elem :=
  if xs.isEmpty then [] else Elem.para title :: xs

/-- `X.process(writer)` for every entry kind: the element appended to the top-level writer.
    (`FunctionDocumentation.process` appends `**kwargs` to the entry's own list; the pipeline renders once.) -/
def Entry.toElem : Entry → Elem
  | .module name doc =>
    .directive (lit "module") [name] [] (if doc.isEmpty then [] else [.para doc])
  | .func isMacro name doc params kwargs =>
    .directive (lit "function") [signature name (params ++ (if kwargs then [lit "**kwargs"] else []))] []
      ((if isMacro then [Elem.directive (lit "note") [macroNote] [] []] else []) ++ [.para doc])
  | .var name doc ty value =>
    .directive (lit "data") [name] []
      [.para doc, .field (lit "Default value") (value.getD (lit "None")),   -- f"{None}" == "None"
       .field (lit "type") (match ty with | .string => lit "str" | .list => lit "list" | .unset => lit "UNSET")]
  | .opt name doc help dflt =>
    .directive (lit "data") [name] []
      [.directive (lit "note") [] [] [.para optionNote], .para doc, .field (lit "Help text") help,
       .field (lit "Default value") (dflt.getD (lit "OFF")), .field (lit "type") (lit "bool")]
  | .generic name doc args =>
    .directive (lit "function") [signature name args] []
      [.directive (lit "warning") [genericWarning] [] [], .para doc]
  | .ctest name doc params =>
    .directive (lit "function") [signature name params] []
      [.directive (lit "warning") [ctestWarning] [] [], .para doc]
  | .test isSection name doc expectFail _ _ =>
    .directive (lit "function") [signature name [if expectFail then lit "EXPECTFAIL" else []]] []
      [.directive (lit "warning") [if isSection then sectionWarning else testWarning] [] [], .para doc]
  | .cls name doc supers inner ctors members attrs =>
    .directive (lit "py:class") [name] []
      ((if supers.isEmpty then []
        else [Elem.para (lit "Bases: " ++ joinWith [',', ' '] (supers.map (interpreted (lit "class"))) ++ ['\n'])]) ++
       [.para doc] ++
       section? (lit "**Additional Constructors**") (ctors.map Method.toElem) ++
       section? (lit "**Methods**") (members.map Method.toElem) ++
       section? (lit "**Attributes**") (attrs.map Attr.toElem) ++
       (if inner.isEmpty then []
        else [.para (lit "**Inner classes**"), .list false (inner.map (interpreted (lit "class")))]))

end Cminx
