import CminxModel.Lex
import CminxModel.Agg
/-!
# L5 — `parser/CMakeParser.py`: rules `cmake_file`, `documented_module`, `documented_command`,
`bracket_doccomment`, `command_invocation`, `single_argument`, `compound_argument`

The parser is modelled for inputs it accepts without reporting any syntax error (after the D2 repair every
reported error aborts processing).  It is written as a fold over the significant tokens with an explicit
mode, so it is structurally recursive and compositional.  The ambiguity `documented_command` vs.
`bracket_doccomment command_invocation` is resolved as ANTLR does: the first alternative.
-/
namespace Cminx

inductive PMode where
  | top (pending : Option Str)                       -- between commands; a doccomment may be waiting for its command
  | afterIdent (pending : Option Str) (name : Str)   -- saw `Identifier`, need `(`
  | inArgs (pending : Option Str) (name : Str) (stack : List (List Arg)) (cur : List Arg)
      -- inside the argument list; `cur` = arguments of the innermost open group, newest first
deriving Repr

structure PState where
  mode : PMode := .top none
  events : List Event := []        -- newest first
  atStart : Bool := true           -- no token consumed yet (`documented_module?` only there)
deriving Repr

def TokKind.isArg : TokKind → Bool
  | .identifier | .unquoted | .bracketArg | .quoted => true
  | _ => false

def emitCmd (pending : Option Str) (c : Cmd) : Event :=
  match pending with
  | some d => .docCmd d c
  | none => .cmd c

/-- consume one significant token; `none` = the parser reports a syntax error -/
def parseStep (st : PState) (t : Tok) : Option PState :=
  match st.mode with
  | .top pending =>
    (match t.kind with
     | .moduleDocstring =>
       if st.atStart then some { mode := .top none, events := [.moduleDoc t.text], atStart := false } else none
     | .docstring =>
       some { mode := .top (some t.text),
              events := (match pending with | some _ => Event.dangling :: st.events | none => st.events),
              atStart := false }
     | .identifier => some { st with mode := .afterIdent pending t.text, atStart := false }
     | _ => none)
  | .afterIdent pending name =>
    (match t.kind with
     | .lparen => some { st with mode := .inArgs pending name [] [] }
     | _ => none)
  | .inArgs pending name stack cur =>
    if t.kind.isArg then some { st with mode := .inArgs pending name stack (.single t.text :: cur) }
    else match t.kind with
      | .lparen => some { st with mode := .inArgs pending name (cur :: stack) [] }
      | .rparen =>
        (match stack with
         | [] => some { st with mode := .top none, events := emitCmd pending ⟨name, cur.reverse⟩ :: st.events }
         | outer :: stack' => some { st with mode := .inArgs pending name stack' (.compound cur.reverse :: outer) })
      | _ => none

def parseFold : PState → List Tok → Option PState
  | st, [] => some st
  | st, t :: ts => (parseStep st t).bind (parseFold · ts)

/-- `cmake_file` on the significant tokens: the listener events in document order -/
def parse (ts : List Tok) : Option (List Event) :=
  match parseFold {} ts with
  | some { mode := .top pending, events, .. } =>
    some ((match pending with | some _ => Event.dangling :: events | none => events).reverse)
  | _ => none

end Cminx
