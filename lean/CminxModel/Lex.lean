import CminxModel.Str
/-!
# L5 — `parser/CMakeLexer.py` as a deterministic scanner

ANTLR semantics for this grammar: at each position every token rule is tried, the longest match wins,
ties go to the rule listed first, a non-greedy `.*?` stops at the first position from which the rest of the
rule matches, and for `Line_comment` the `EOF` alternative counts as one more matched symbol.
Each rule below returns the length of its match (if any).
-/
namespace Cminx

inductive TokKind where
  | lparen | rparen | moduleDocstring | docstring | doccommentStart | blockcommentEnd | identifier
  | unquoted | escapeSequence | quoted | bracketArg | bracketComment | lineComment | newline | space
deriving Repr, DecidableEq, Inhabited

structure Tok where
  kind : TokKind
  text : Str
deriving Repr, DecidableEq, Inhabited

/-- tokens the grammar sends to `skip` -/
def TokKind.skipped : TokKind → Bool
  | .bracketComment | .lineComment | .newline | .space => true
  | _ => false

def asciiAlpha (c : Char) : Bool := ('a' ≤ c && c ≤ 'z') || ('A' ≤ c && c ≤ 'Z')
def asciiDigit (c : Char) : Bool := '0' ≤ c && c ≤ '9'
def asciiAlnum (c : Char) : Bool := asciiAlpha c || asciiDigit c
def identStart (c : Char) : Bool := asciiAlpha c || c == '_'
def identChar (c : Char) : Bool := asciiAlnum c || c == '_'

/-- the character after a backslash forms an `Escape_sequence` -/
def escOk (c : Char) : Bool := !asciiAlnum c || c == 't' || c == 'r' || c == 'n'

/-- characters that end an unquoted argument (besides the backslash, handled separately) -/
def unqStop (c : Char) : Bool :=
  c == ' ' || c == '\t' || c == '\r' || c == '\n' || c == '(' || c == ')' || c == '#' || c == '"'

/-- index just after the first occurrence of `pat` in `s` -/
def findAfter (pat : Str) : Str → Option Nat
  | [] => if pat.isEmpty then some 0 else none
  | c :: cs =>
    if pat.isPrefixOf (c :: cs) then some pat.length
    else (findAfter pat cs).map (· + 1)

def spanLen (p : Char → Bool) (s : Str) : Nat := (s.takeWhile p).length

/-- `Identifier` -/
def identLen : Str → Option Nat
  | [] => none
  | c :: cs => if identStart c then some (1 + spanLen identChar cs) else none

/-- length of the longest prefix matching `(~[ \t\r\n()#"\\] | Escape_sequence)*` -/
def unqLen : Str → Nat
  | [] => 0
  | c :: rest =>
    if c = '\\' then
      match rest with
      | [] => 0
      | d :: rest' => if escOk d then unqLen rest' + 2 else 0
    else if unqStop c then 0 else unqLen rest + 1

/-- `Unquoted_argument` (at least one element) -/
def unquotedLen (s : Str) : Option Nat := let n := unqLen s; if n = 0 then none else some n

/-- `Escape_sequence` as a token of its own (always loses against `Unquoted_argument`) -/
def escapeLen : Str → Option Nat
  | '\\' :: d :: _ => if escOk d then some 2 else none
  | _ => none

/-- body of a quoted argument after the opening quote: length up to and including the closing quote -/
def quotedBody : Str → Option Nat
  | [] => none
  | c :: rest =>
    if c = '"' then some 1
    else if c = '\\' then
      match rest with
      | [] => none
      | d :: rest' => if escOk d then (quotedBody rest').map (· + 2) else none
    else (quotedBody rest).map (· + 1)

/-- `Quoted_argument` -/
def quotedLen : Str → Option Nat
  | '"' :: rest => (quotedBody rest).map (· + 1)
  | _ => none

/-- `'[' Bracket_arg_nested ']'` starting at the `[`: `[`, n × `=`, `[`, then up to the first `]`, n × `=`, `]` -/
def bracketLen : Str → Option Nat
  | '[' :: rest =>
    let n := spanLen (· == '=') rest
    match rest.drop n with
    | '[' :: body => (findAfter (']' :: (List.replicate n '=' ++ [']'])) body).map (· + n + 2)
    | _ => none
  | _ => none

/-- `Bracket_comment` -/
def bracketCommentLen : Str → Option Nat
  | '#' :: rest => (bracketLen rest).map (· + 1)
  | _ => none

def docStart : Str := lit "#[[["
def docEnd : Str := lit "#]]"

/-- `Docstring`: `#[[[`, then up to the first `#]]` -/
def docstringLen (s : Str) : Option Nat :=
  if docStart.isPrefixOf s then (findAfter docEnd (s.drop 4)).map (· + 4) else none

/-- `Module_docstring`: `#[[[`, optional blanks, `@module`, then up to the first `#]]` -/
def moduleDocstringLen (s : Str) : Option Nat :=
  if docStart.isPrefixOf s then
    let r := s.drop 4
    let k := spanLen (fun c => c == ' ' || c == '\t') r
    let r' := r.drop k
    if (lit "@module").isPrefixOf r' then (findAfter docEnd (r'.drop 7)).map (· + 4 + k + 7) else none
  else none

def doccommentStartLen (s : Str) : Option Nat := if docStart.isPrefixOf s then some 4 else none
def blockcommentEndLen (s : Str) : Option Nat := if docEnd.isPrefixOf s then some 3 else none

/-- the text of a line after `#` opens a bracket: `[`, `=`*, `[` -/
def opensBracket : Str → Bool
  | '[' :: rest => (rest.drop (spanLen (· == '=') rest)).head? == some '['
  | _ => false

def notEol (c : Char) : Bool := !(c == '\r' || c == '\n')

/-- `Line_comment`: (length, matched the EOF alternative) -/
def lineCommentLen : Str → Option (Nat × Bool)
  | '#' :: rest =>
    if opensBracket rest then none
    else
      let k := spanLen notEol rest
      match rest.drop k with
      | [] => some (k + 1, true)
      | '\r' :: '\n' :: _ => some (k + 3, false)
      | _ :: _ => some (k + 2, false)
  | _ => none

def newlineLen (s : Str) : Option Nat :=
  let n := spanLen (fun c => c == '\r' || c == '\n') s; if n = 0 then none else some n
def spaceLen (s : Str) : Option Nat :=
  let n := spanLen (fun c => c == ' ' || c == '\t') s; if n = 0 then none else some n

/-- all rules in grammar order with their score (2·length, +1 for the EOF symbol) and length -/
def candidates (s : Str) : List (TokKind × Option (Nat × Nat)) :=
  let plain (o : Option Nat) : Option (Nat × Nat) := o.map (fun n => (2 * n, n))
  [ (.lparen, plain (if s.head? == some '(' then some 1 else none)),
    (.rparen, plain (if s.head? == some ')' then some 1 else none)),
    (.moduleDocstring, plain (moduleDocstringLen s)),
    (.docstring, plain (docstringLen s)),
    (.doccommentStart, plain (doccommentStartLen s)),
    (.blockcommentEnd, plain (blockcommentEndLen s)),
    (.identifier, plain (identLen s)),
    (.unquoted, plain (unquotedLen s)),
    (.escapeSequence, plain (escapeLen s)),
    (.quoted, plain (quotedLen s)),
    (.bracketArg, plain (bracketLen s)),
    (.bracketComment, plain (bracketCommentLen s)),
    (.lineComment, (lineCommentLen s).map (fun (n, eof) => (2 * n + (if eof then 1 else 0), n))),
    (.newline, plain (newlineLen s)),
    (.space, plain (spaceLen s)) ]

/-- longest match, first rule on ties -/
def pickBest : List (TokKind × Option (Nat × Nat)) → Option (TokKind × Nat × Nat) → Option (TokKind × Nat × Nat)
  | [], best => best
  | (_, none) :: cs, best => pickBest cs best
  | (k, some (score, len)) :: cs, none => pickBest cs (some (k, score, len))
  | (k, some (score, len)) :: cs, some (bk, bscore, blen) =>
    if score > bscore then pickBest cs (some (k, score, len)) else pickBest cs (some (bk, bscore, blen))

/-- one token at the head of `s`: kind and length (length ≥ 1) -/
def scan (s : Str) : Option (TokKind × Nat) :=
  match pickBest (candidates s) none with
  | some (k, _, len) => if len = 0 then none else some (k, len)
  | none => none

/-- all tokens including skipped ones; `Except.error i` = token recognition error at character index `i`.
    `fuel` ≥ number of characters suffices (`lexAll`). -/
def lexLoop : Nat → Nat → Str → Except Nat (List Tok)
  | _, _, [] => .ok []
  | 0, pos, _ :: _ => .error pos
  | fuel + 1, pos, s@(_ :: _) =>
    match scan s with
    | none => .error pos
    | some (k, len) =>
      match lexLoop fuel (pos + len) (s.drop len) with
      | .ok ts => .ok (⟨k, s.take len⟩ :: ts)
      | .error e => .error e

def lexAll (s : Str) : Except Nat (List Tok) := lexLoop s.length 0 s

/-- the token stream the parser sees -/
def significant (ts : List Tok) : List Tok := ts.filter (fun t => !t.kind.skipped)

end Cminx
