import CminxModel.Str
/-!
# L1 — `aggregator.py: DocumentationAggregator.clean_doc_lines` and the `@module` name/doc split
-/
namespace Cminx

/-- number of leading characters of the last line that are not `#` -/
def numSpaces (last : Str) : Nat := (last.takeWhile (fun c => c != '#')).length

/-- `if cleaned_line and cleaned_line[0] == " ": cleaned_line = cleaned_line[1:]` -/
def dropOneSpace : Str → Str
  | ' ' :: t => t
  | s => s

/-- one iteration of the loop body: `line[:n].lstrip() + line[n:]`, `.lstrip("#[]")`, optional single space -/
def cleanLine (n : Nat) (line : Str) : Str :=
  dropOneSpace (lstripSet ['#', '[', ']'] (lstripWs (line.take n) ++ line.drop n))

/-- apply `f` to the last element (`cleaned_lines[-1] = f(cleaned_lines[-1])`) -/
def mapLast (f : Str → Str) : List Str → List Str
  | [] => []
  | [l] => [f l]
  | l :: l' :: ls => l :: mapLast f (l' :: ls)

/-- `clean_doc_lines(lines)`. Python indexes `lines[-1]`, so the real function raises on `[]`;
    every caller passes `text.split("\n")`, which is never empty (`splitNl_ne_nil`). -/
def cleanDocLines (lines : List Str) : Str :=
  let n := numSpaces (lastD lines)
  let cl := mapLast (rstripSet ['#', ']']) (lines.map (cleanLine n))
  match joinNl cl with
  | '\n' :: t => t
  | d => d

/-- `clean_doc_lines(text.split("\n"))` as both listener callbacks call it -/
def cleanDoc (text : Str) : Str := cleanDocLines (splitNl text)

/-- `enterDocumented_module`: name = first cleaned line without "@module", stripped; doc = remaining lines -/
def moduleNameDoc (tokenText : Str) : Str × Str :=
  match splitNl (cleanDoc tokenText) with
  | [] => ([], [])            -- unreachable
  | first :: rest => (stripWs (replaceAll (lit "@module") [] first), joinNl rest)

end Cminx
