import CminxModel.Source
/-!
# The structural specification of `documented`

`specItems` reads the entries off the *nested* module by plain structural recursion — no stacks, no mutable
slots: a definition's `**kwargs` flag looks at its own body, a class collects the members of its own body, an
entry's doc is the doccomment that precedes it.  This is the "obviously right" reading of properties C02, C03,
C08, C09, C10, C11; theorem `T_agg` says the flat stack machine of `Agg.lean` computes exactly this.
-/
namespace Cminx

/-- the class context an item sits in -/
inductive ClsCtx where
  | none      -- not inside any cpp_class
  | hidden    -- innermost enclosing class is not shown (undocumented, `include_undocumented_cpp_class` off)
  | shown     -- innermost enclosing class has an entry
deriving Repr, DecidableEq

/-- what a list of items contributes -/
structure Contrib where
  top : List Entry := []          -- entries appended to `documented`, in order
  inner : List Str := []          -- inner-class names for the innermost shown class
  ctors : List Method := []
  members : List Method := []
  attrs : List Attr := []
deriving Repr, Inhabited

def Contrib.append (a b : Contrib) : Contrib :=
  { top := a.top ++ b.top, inner := a.inner ++ b.inner, ctors := a.ctors ++ b.ctors,
    members := a.members ++ b.members, attrs := a.attrs ++ b.attrs }

instance : Append Contrib := ⟨Contrib.append⟩

def Call.lname (c : Call) : Str := asciiLower c.name
def Call.singles (c : Call) : List Str := c.toCmd.singles
/-- all arguments in source order, parenthesised groups as `( a b )` (`argument_text`): what `process_add_test` and
    `process_generic_command` read -/
def Call.allTexts (c : Call) : List Str := argTexts c.toCmd.args

/-- cleaned text of an optional doccomment (`""` for an undocumented command) -/
def docTextOf : Option DocC → Str
  | some d => cleanDoc d.tokenText
  | none => []

def isLoopName (n : Str) : Bool := n = lit "if" || n = lit "foreach" || n = lit "while"

mutual
/-- a `cmake_parse_arguments` call directly in this body: through blocks and classes, not into definitions -/
def Item.cpaDirect : Item → Bool
  | .cmd _ call => call.lname = lit "cmake_parse_arguments"
  | .block _ o body _ =>
    (isLoopName o.lname || o.lname = lit "cpp_class") && itemsCpaDirect body
  | .decl .. => false
  | .dangling _ => false
def itemsCpaDirect : List Item → Bool
  | [] => false
  | i :: is => i.cpaDirect || itemsCpaDirect is
end

/-- the entry of a function/macro definition -/
def defEntry (cfg : Cfg) (isMacro : Bool) (doc : Option DocC) (call : Call) (body : List Item) : Entry :=
  let strip := if isMacro then cfg.stripMacro else cfg.stripFn
  .func isMacro (call.singles.headD []) (docTextOf doc) ((call.singles.drop 1).map strip)
    (isInfix cfg.trigger (docTextOf doc) || itemsCpaDirect body)

/-- name following the last `NAME`, and the position of that `NAME` -/
def nameOf (params : List Str) : Str × Option Nat := (scanName params 0 ([], none)).getD ([], none)

def ctestParams (params : List Str) : List Str :=
  match (nameOf params).2 with
  | some k => dropPairAt params k
  | none => params

mutual
def Item.spec (cfg : Cfg) (ctx : ClsCtx) : Item → Contrib
  | .cmd doc call =>
    let n := call.lname
    let s := call.singles
    let d := docTextOf doc
    let documented := doc.isSome
    if n = lit "set" then
      if documented then
        { top := [match s with
            | [name] => .var name d .unset none
            | [name, v] => .var name d .string (some (unquote v))
            | name :: vs => .var name d .list (some (joinWith [' '] vs))
            | [] => .var [] d .unset none] }
      else {}
    else if n = lit "option" then
      if documented || cfg.inclOption then { top := [.opt (s.headD []) d (s.getD 1 []) s[2]?] } else {}
    else if n = lit "add_test" then
      if documented || cfg.inclAddTest then { top := [.ctest (nameOf call.allTexts).1 d (ctestParams call.allTexts)] } else {}
    else if n = lit "cpp_attr" then
      if ctx = .shown && (documented || cfg.inclCppAttr) then
        { attrs := [{ name := s.getD 1 [], doc := d, parentClass := s.headD [], dflt := s[2]? }] }
      else {}
    else if n = lit "cmake_parse_arguments" then {}
    else if documented then { top := [.generic n d (argTexts call.toCmd.args)] }
    else {}
  | .block doc o body _ =>
    let n := o.lname
    let documented := doc.isSome
    if n = lit "function" || n = lit "macro" then
      let isMacro := n = lit "macro"
      let own : Contrib :=
        if documented || (if isMacro then cfg.inclMacro else cfg.inclFunction) then { top := [defEntry cfg isMacro doc o body] } else {}
      own ++ itemsSpec cfg ctx body
    else if n = lit "cpp_class" then
      if documented || cfg.inclCppClass then
        let b := itemsSpec cfg .shown body
        let s := o.singles
        { top := .cls (s.headD []) (docTextOf doc) (s.drop 1) b.inner b.ctors b.members b.attrs :: b.top,
          inner := if ctx = .shown then [s.headD []] else [] }
      else
        { top := (itemsSpec cfg .hidden body).top }
    else
      let own : Contrib := if documented then { top := [.generic n (docTextOf doc) (argTexts o.toCmd.args)] } else {}
      own ++ itemsSpec cfg ctx body
  | .decl doc d impl body _ =>
    let n := d.lname
    let s := d.singles
    let documented := doc.isSome
    let implMacro := impl.lname = lit "macro"
    let asDefinition : Contrib :=
      if (if implMacro then cfg.inclMacro else cfg.inclFunction) then { top := [defEntry cfg implMacro none impl body] } else {}
    let own : Contrib :=
      if n = lit "ct_add_test" || n = lit "ct_add_section" then
        let isSection := n = lit "ct_add_section"
        if documented || (if isSection then cfg.inclCtAddSection else cfg.inclCtAddTest) then
          { top := [.test isSection (nameOf s).1 (docTextOf doc) (s.contains (lit "EXPECTFAIL")) (impl.singles.drop 2) implMacro] }
        else asDefinition
      else
        let isCtor := n = lit "cpp_constructor"
        if ctx = .shown && (documented || (if isCtor then cfg.inclCppConstructor else cfg.inclCppMember)) then
          let m : Method := { name := s.headD [], doc := docTextOf doc, parentClass := s.getD 1 [], paramTypes := s.drop 2,
                              params := (impl.singles.map cfg.stripMember).drop 2, isCtor, isMacro := implMacro }
          if isCtor then { ctors := [m] } else { members := [m] }
        else asDefinition
    own ++ itemsSpec cfg ctx body
  | .dangling _ => {}
def itemsSpec (cfg : Cfg) (ctx : ClsCtx) : List Item → Contrib
  | [] => {}
  | i :: is => i.spec cfg ctx ++ itemsSpec cfg ctx is
end

/-- the expected `documented` list of a module -/
def Module.entries (cfg : Cfg) (m : Module) : List Entry :=
  (match m.modDoc with
   | some d => let (n, t) := moduleNameDoc d.tokenText; [Entry.module n t]
   | none => []) ++ (itemsSpec cfg .none m.items).top

/-! ## well-formedness: the hypotheses of the refinement theorem, as a decidable predicate -/

def structuralNames : List Str :=
  [lit "function", lit "macro", lit "endfunction", lit "endmacro", lit "cpp_class", lit "cpp_end_class",
   lit "cpp_member", lit "cpp_constructor", lit "ct_add_test", lit "ct_add_section",
   lit "if", lit "foreach", lit "while", lit "endif", lit "endforeach", lit "endwhile"]

/-- exactly one `NAME`, not in last position -/
def nameOk (s : List Str) : Bool := s.count (lit "NAME") == 1 && s.getLast? != some (lit "NAME")

def closerFor (n : Str) : List Str :=
  if n = lit "function" || n = lit "macro" then [lit "endfunction", lit "endmacro"]
  else if n = lit "cpp_class" then [lit "cpp_end_class"]
  else if n = lit "if" then [lit "endif"]
  else if n = lit "foreach" then [lit "endforeach"]
  else if n = lit "while" then [lit "endwhile"]
  else []

mutual
def Item.wf (inClass : Bool) : Item → Bool
  | .cmd _ call =>
    let n := call.lname
    let s := call.singles
    !structuralNames.contains n && n != lit "generic_command" &&
    (n != lit "set" || s.length ≥ 1) &&
    (n != lit "option" || (2 ≤ s.length && s.length ≤ 3)) &&
    (n != lit "cpp_attr" || (s.length ≥ 2 && inClass)) &&
    (n != lit "add_test" || (call.allTexts.length ≥ 2 && nameOk call.allTexts))
  | .block _ o body c =>
    let n := o.lname
    (closerFor n).contains c.lname &&
    ((n != lit "function" && n != lit "macro" && n != lit "cpp_class") || o.singles.length ≥ 1) &&
    itemsWf (n = lit "cpp_class" || (inClass && isLoopName n)) body
  | .decl _ d impl body c =>
    let n := d.lname
    let im := impl.lname
    (n = lit "cpp_member" || n = lit "cpp_constructor" || n = lit "ct_add_test" || n = lit "ct_add_section") &&
    (im = lit "function" || im = lit "macro") &&
    (c.lname = lit "endfunction" || c.lname = lit "endmacro") &&
    impl.singles.length ≥ 1 &&
    (if n = lit "cpp_member" || n = lit "cpp_constructor" then d.singles.length ≥ 2 && inClass
     else d.singles.length ≥ 2 && nameOk d.singles) &&
    itemsWf false body
  | .dangling _ => true
def itemsWf (inClass : Bool) : List Item → Bool
  | [] => true
  | i :: is => i.wf inClass && itemsWf inClass is
end

mutual
/-- a documented `cpp_class` occurs somewhere (K1 region when `include_undocumented_cpp_class` is off) -/
def Item.hasDocumentedClass : Item → Bool
  | .cmd .. => false
  | .block doc o body _ => (o.lname = lit "cpp_class" && doc.isSome) || itemsHaveDocumentedClass body
  | .decl _ _ _ body _ => itemsHaveDocumentedClass body
  | .dangling _ => false
def itemsHaveDocumentedClass : List Item → Bool
  | [] => false
  | i :: is => i.hasDocumentedClass || itemsHaveDocumentedClass is
end

end Cminx
