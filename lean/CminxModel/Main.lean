import CminxModel.Cli
import CminxModel.Walk
import CminxModel.Glob
/-!
# The whole program: `cminx <argv>`

`cminx.main` from the argument vector to the pages: the parser (`parseArgv`), the command line as a configuration source
(`cliSource`), the layering and its type checks (`resolveMain`), the settings object (`dict_to_settings`, as far as the layers below
read it: `walkCfgOfSettings`, `aggCfgOfSettings`), the exclusion predicate computed from the effective pattern list
(`Glob.compileAll`, `Glob.exclOf`), the loop over the input paths (`runMain`), and below it the walk, the pipeline and the writer.

Parameters (what the run reads from its environment): the content of the `-s` file, of the per-user file and of the packaged defaults
as configuration sources; for every input path on the command line, what is there (`World`: the file-system object and the absolute
path of the input, as components); the three parameter-name strip functions (`re.sub(<regex>, "", ·)` for the effective regexes).
Patterns in range notation are outside `Glob.lean`: `cminxMain` then reports `unsupportedPatterns`.
-/
namespace Cminx

abbrev Vals := List (Str × Option CVal)

def Vals.get (vals : Vals) (k : String) : Option CVal := (vals.lookup (lit k)).join

def Vals.bool (vals : Vals) (k : String) (dflt : Bool) : Bool :=
  match vals.get k with
  | some (.bool b) => b
  | _ => dflt

def Vals.str? (vals : Vals) (k : String) : Option Str :=
  match vals.get k with
  | some (.str s) => some s
  | _ => none

/-- `confuse.StrSeq`: a list of strings, or one string split on white space -/
def splitWs (s : Str) : List Str :=
  let rec go : Str → Str → List Str
    | [], cur => if cur.isEmpty then [] else [cur.reverse]
    | c :: cs, cur => if pyIsSpace c then (if cur.isEmpty then go cs [] else cur.reverse :: go cs []) else go cs (c :: cur)
  go s []

def Vals.strSeq (vals : Vals) (k : String) : List Str :=
  match vals.get k with
  | some (.list xs) => xs.filterMap (fun v => match v with | .str s => some s | _ => none)
  | some (.str s) => splitWs s
  | _ => []

/-- the aggregator's share of the settings object; the strip functions belong to the effective regexes -/
def aggCfgOfSettings (vals : Vals) (stripFn stripMacro stripMember : Str → Str) : Cfg :=
  { inclFunction := vals.bool "input.include_undocumented_function" true
    inclMacro := vals.bool "input.include_undocumented_macro" true
    inclCppClass := vals.bool "input.include_undocumented_cpp_class" true
    inclCppAttr := vals.bool "input.include_undocumented_cpp_attr" true
    inclCppConstructor := vals.bool "input.include_undocumented_cpp_constructor" true
    inclCppMember := vals.bool "input.include_undocumented_cpp_member" true
    inclCtAddTest := vals.bool "input.include_undocumented_ct_add_test" true
    inclAddTest := vals.bool "input.include_undocumented_add_test" true
    inclCtAddSection := vals.bool "input.include_undocumented_ct_add_section" true
    inclOption := vals.bool "input.include_undocumented_option" true
    trigger := (vals.str? "input.kwargs_doc_trigger_string").getD (lit ":param **kwargs:")
    stripFn, stripMacro, stripMember }

/-- the walk's share of the settings object -/
def walkCfgOfSettings (vals : Vals) (agg : Cfg) : WalkCfg :=
  { recursive := vals.bool "input.recursive" false
    autoExclude := vals.bool "input.auto_exclude_directories_without_cmake" true
    pfx := vals.str? "rst.prefix"
    sep := (vals.str? "rst.module_path_separator").getD ['.']
    extTitles := vals.bool "rst.file_extensions_in_titles" false
    extModules := vals.bool "rst.file_extensions_in_modules" false
    headers := vals.strSeq "rst.headers"
    toStdout := (vals.str? "output.directory").isNone
    agg }

/-- what an input path of the command line denotes: the object there and the components of its absolute path
    (`os.path.abspath(input_file)`), the last of which is the object's own name -/
structure World where
  inp : Input
  absPath : List Str

def patternStrs (filters : List CVal) : List Str := filters.filterMap (fun v => match v with | .str s => some s | _ => none)

/-- exclusion of one input: the input path itself (`…/dir/` for a directory, `…/file` otherwise) and the entries below it -/
def mainInputOf (cs : List Glob.Compiled) (w : World) : MainInput :=
  let isDir := match w.inp with | .dir _ _ => true | _ => false
  let absStr : Str := '/' :: joinWith ['/'] w.absPath
  { inp := w.inp
    excl := Glob.exclOf cs absStr
    exclRoot := Glob.exclOf cs absStr [] isDir }

inductive MainOutcome where
  | usage                                   -- argparse exits with status 2
  | configError (key : Str)                 -- a wrong-typed value: `ConfigTypeError`
  | badPattern                              -- pathspec rejects a pattern
  | unsupportedPatterns                     -- range notation: outside `Glob.lean`
  | ran (r : RunResult) (st : Status)

/-- `cminx <argv>` -/
def cminxMain (argv : List Str) (sfile : Str → Source) (user defaults : Source) (world : Str → World)
    (stripFn stripMacro stripMember : Str → Str) : MainOutcome :=
  match mainSettings argv sfile user defaults with
  | none => .usage
  | some (.error k) => .configError k
  | some (.ok (files, vals, filters)) =>
    match Glob.compileAll (patternStrs filters) with
    | .error .invalid => .badPattern
    | .error .unsupported => .unsupportedPatterns
    | .ok cs =>
      let c := walkCfgOfSettings vals (aggCfgOfSettings vals stripFn stripMacro stripMember)
      let (r, st) := runMain c (files.map (fun f => mainInputOf cs (world f))) {}
      .ran r st

end Cminx
