import CminxModel.Str
/-!
# L9 — `cmake/cminx.cmake: cminx_gen_rst` and the argparse surface of `main` needed to compare command lines

`cminx_gen_rst(dir output [extra…])` builds a CMake list `_cgr_cminx_options` ("-r" iff the input is a directory,
then `${ARGN}`) and expands it *unquoted* inside `execute_process(COMMAND "${CMINX_EXECUTABLE}" "${dir}" ${opts} "-o" "${output}")`.
Unquoted expansion of a list splits at every `;` and drops empty elements — that is all of CMake's evaluation
that is modelled; `execute_process` and `COMMAND_ERROR_IS_FATAL ANY` are trusted (tied by running `cmake -P`).
-/
namespace Cminx

/-- elements of a CMake list value: split at `;`, empty elements dropped (arguments with `\;` escapes are outside the model) -/
def splitSemiAux : Str → Str → List Str
  | [], cur => if cur.isEmpty then [] else [cur.reverse]
  | c :: cs, cur =>
    if c = ';' then (if cur.isEmpty then splitSemiAux cs [] else cur.reverse :: splitSemiAux cs [])
    else splitSemiAux cs (c :: cur)

def splitSemi (s : Str) : List Str := splitSemiAux s []

/-- `${_cgr_cminx_options}` after `list(APPEND … "${ARGN}")` -/
def flattenExtra (extra : List Str) : List Str := extra.flatMap splitSemi

/-- the argument vector `execute_process` hands to the CMinx executable (without the program name) -/
def genArgv (isDir : Bool) (input output : Str) (extra : List Str) : List Str :=
  [input] ++ (if isDir then [lit "-r"] else []) ++ flattenExtra extra ++ [lit "-o", output]

/-- what `main`'s argument parser extracts -/
structure Parsed where
  files : List Str := []
  output : Option Str := none
  recursive : Bool := false
  pfx : Option Str := none
  settings : Option Str := none
  excludes : List Str := []
deriving Repr, DecidableEq

/-- the options of `main` (long and short spellings; abbreviations of long options are not modelled).
    `none` = argparse would exit with a usage error (option without its value, unknown option). -/
def parseArgv : List Str → Parsed → Option Parsed
  | [], p => if p.files.isEmpty then none else some p
  | a :: rest, p =>
    if a = lit "-r" ∨ a = lit "--recursive" then parseArgv rest { p with recursive := true }
    else if a = lit "-o" ∨ a = lit "--output" then
      match rest with | v :: rest' => parseArgv rest' { p with output := some v } | [] => none
    else if a = lit "-p" ∨ a = lit "--prefix" then
      match rest with | v :: rest' => parseArgv rest' { p with pfx := some v } | [] => none
    else if a = lit "-s" ∨ a = lit "--settings" then
      match rest with | v :: rest' => parseArgv rest' { p with settings := some v } | [] => none
    else if a = lit "-e" ∨ a = lit "--exclude" then
      match rest with | v :: rest' => parseArgv rest' { p with excludes := p.excludes ++ [v] } | [] => none
    else if a.head? = some '-' ∧ a.length > 1 then none
    else parseArgv rest { p with files := p.files ++ [a] }

/-- `COMMAND_ERROR_IS_FATAL ANY`: the CMake call fails fatally iff the child's exit status is non-zero -/
def cmakeFails (childStatus : Int) : Bool := childStatus != 0

end Cminx
