import CminxModel.Str
/-!
# L9 — `cmake/cminx.cmake: cminx_gen_rst` and the argparse surface of `main` needed to compare command lines

`cminx_gen_rst(dir output [extra…])` builds a CMake list `_cgr_cminx_options` ("-r" iff the input is a directory,
then `${ARGN}`) and expands it *unquoted* inside `execute_process(COMMAND "${CMINX_EXECUTABLE}" "${dir}" ${opts} "-o" "${output}")`.
Unquoted expansion of a list splits at every `;` and drops empty elements — that is all of CMake's evaluation
that is modelled; `execute_process` and `COMMAND_ERROR_IS_FATAL ANY` are trusted (tied by running `cmake -P`).
-/
namespace Cminx

/-- elements of a CMake list value: split at `;`, empty elements dropped (arguments with `\;` escapes are outside the model) -/
def splitSemiAux : Str → Str → List Str
  | [], cur => if cur.isEmpty then [] else [cur.reverse]
  | c :: cs, cur =>
    if c = ';' then (if cur.isEmpty then splitSemiAux cs [] else cur.reverse :: splitSemiAux cs [])
    else splitSemiAux cs (c :: cur)

def splitSemi (s : Str) : List Str := splitSemiAux s []

/-- `${_cgr_cminx_options}` after `list(APPEND … "${ARGN}")` -/
def flattenExtra (extra : List Str) : List Str := extra.flatMap splitSemi

/-- the argument vector `execute_process` hands to the CMinx executable (without the program name) -/
def genArgv (isDir : Bool) (input output : Str) (extra : List Str) : List Str :=
  [input] ++ (if isDir then [lit "-r"] else []) ++ flattenExtra extra ++ [lit "-o", output]

/-- what `main`'s argument parser extracts -/
structure Parsed where
  files : List Str := []
  output : Option Str := none
  recursive : Bool := false
  pfx : Option Str := none
  settings : Option Str := none
  excludes : List Str := []
  filesDone : Bool := false      -- an option came after the input paths: `files` (nargs='+') takes ONE contiguous run of positionals
deriving Repr, DecidableEq

/-- the option strings of `main`'s parser that the model decides (`-h`, `--help` and `--version` exit at once and are not modelled) -/
def knownOpts : List Str :=
  [lit "-o", lit "--output", lit "-r", lit "--recursive", lit "-p", lit "--prefix", lit "-s", lit "--settings", lit "-e", lit "--exclude"]

def isDigitC (c : Char) : Bool := '0' ≤ c && c ≤ '9'

/-- argparse's `_negative_number_matcher` `^-\d+$|^-\d*\.\d+$`: such a token is a positional / a value, the parser having no
    option that looks like a negative number -/
def isNegNumber : Str → Bool
  | '-' :: r =>
    (!r.isEmpty && r.all isDigitC) ||
    (match r.dropWhile isDigitC with
     | '.' :: b => !b.isEmpty && b.all isDigitC
     | _ => false)
  | _ => false

/-- `_parse_optional` says "meant to be an option" for a token that is none of the parser's option strings: it starts with `-`, has
    more than one character, is no negative number and contains no blank.  argparse then tries abbreviations (`--out`), attached
    values (`-ofoo`, `--output=foo`) and bundles (`-re`): none of that is modelled, such a command line is `unsupported` -/
def dashy (a : Str) : Bool := a.head? == some '-' && a.length > 1 && !isNegNumber a && !a.contains ' '

/-- the command lines the model decides: every token is one of the option strings or plainly not an option -/
def argvSupported (argv : List Str) : Bool := argv.all (fun a => knownOpts.contains a || !dashy a)

/-- argparse classifies the token as an option: it cannot be the value of an option that takes one (`nargs=None`) -/
def optLike (v : Str) : Bool := knownOpts.contains v || dashy v

/-- the options of `main` on a supported command line.  `none` = argparse exits with a usage error: an option without its value
    (also when the next token is itself an option), no input path, or input paths in two places (`a -r b`: `files` is filled from one
    contiguous run, the later ones are "unrecognized arguments") -/
def parseArgv : List Str → Parsed → Option Parsed
  | [], p => if p.files.isEmpty then none else some p
  | a :: rest, p =>
    let p' : Parsed := if p.files.isEmpty then p else { p with filesDone := true }
    if a = lit "-r" ∨ a = lit "--recursive" then parseArgv rest { p' with recursive := true }
    else if a = lit "-o" ∨ a = lit "--output" then
      match rest with
      | v :: rest' => if optLike v then none else parseArgv rest' { p' with output := some v }
      | [] => none
    else if a = lit "-p" ∨ a = lit "--prefix" then
      match rest with
      | v :: rest' => if optLike v then none else parseArgv rest' { p' with pfx := some v }
      | [] => none
    else if a = lit "-s" ∨ a = lit "--settings" then
      match rest with
      | v :: rest' => if optLike v then none else parseArgv rest' { p' with settings := some v }
      | [] => none
    else if a = lit "-e" ∨ a = lit "--exclude" then
      match rest with
      | v :: rest' => if optLike v then none else parseArgv rest' { p' with excludes := p'.excludes ++ [v] }
      | [] => none
    else if dashy a then none
    else if p.filesDone then none
    else parseArgv rest { p with files := p.files ++ [a] }

/-- `COMMAND_ERROR_IS_FATAL ANY`: the CMake call fails fatally iff the child's exit status is non-zero -/
def cmakeFails (childStatus : Int) : Bool := childStatus != 0

end Cminx
