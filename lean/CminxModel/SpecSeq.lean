import CminxModel.Spec
/-!
# The sequence-aware structural specification

`Spec.lean` knows a member/test declaration only as `Item.decl`: the declaration *immediately* followed by its
(undocumented) implementing definition.  The listener is more general: the declaration fills a global
"awaiting" slot and the *next* `function`/`macro` command — possibly after other ordinary commands, possibly
carrying a doccomment of its own — claims it.  `itemsSpecS` reads the entries off such input, still by plain
structural recursion: a declaration written as a single command (`Item.cmd`) looks ahead in the rest of its own
list for the first `function`/`macro` block (`findImpl`) and takes its parameters from there; the flag `pending`
says that a shown declaration is still waiting, in which case the next definition gets an entry of its own only
if it is documented.

`itemsWfS` is `itemsWf` relaxed accordingly; `itemsWf → itemsWfS` and on `itemsWf` input the two specifications
agree (`CminxProps/TAggSeq.lean`).
-/
namespace Cminx

/-- the four commands that declare something a later definition implements -/
def isDeclName (n : Str) : Bool :=
  n = lit "cpp_member" || n = lit "cpp_constructor" || n = lit "ct_add_test" || n = lit "ct_add_section"

def isDefName (n : Str) : Bool := n = lit "function" || n = lit "macro"

/-- the opener of a `function`/`macro` block -/
def Item.implOpener : Item → Option Call
  | .block _ o _ _ => if isDefName o.lname then some o else none
  | _ => none

/-- the opener of the first `function`/`macro` block of a list: the definition that implements a declaration
    written just before the list -/
def findImpl : List Item → Option Call
  | [] => none
  | i :: is =>
    match i.implOpener with
    | some o => some o
    | none => findImpl is

/-- the listener stores an entry for the declaration (and so waits for its definition): documented or included,
    and for members inside a class that is shown -/
def declShown (cfg : Cfg) (ctx : ClsCtx) (doc : Option DocC) (d : Call) : Bool :=
  let n := d.lname
  if n = lit "ct_add_test" || n = lit "ct_add_section" then
    doc.isSome || (if n = lit "ct_add_section" then cfg.inclCtAddSection else cfg.inclCtAddTest)
  else
    ctx = .shown && (doc.isSome || (if n = lit "cpp_constructor" then cfg.inclCppConstructor else cfg.inclCppMember))

/-- what a declaration contributes once the definition with opener `impl` has completed it (`none`: no
    definition follows — the entry stays as declared) -/
def declContrib (cfg : Cfg) (ctx : ClsCtx) (doc : Option DocC) (d : Call) (impl : Option Call) : Contrib :=
  let n := d.lname
  let s := d.singles
  let implMacro : Bool := match impl with
    | some i => i.lname = lit "macro"
    | none => false
  let implSingles : List Str := match impl with
    | some i => i.singles
    | none => []
  if declShown cfg ctx doc d then
    if n = lit "ct_add_test" || n = lit "ct_add_section" then
      { top := [.test (n = lit "ct_add_section") (nameOf s).1 (docTextOf doc) (s.contains (lit "EXPECTFAIL"))
                  (implSingles.drop 2) implMacro] }
    else
      let isCtor : Bool := n = lit "cpp_constructor"
      let m : Method := { name := s.headD [], doc := docTextOf doc, parentClass := s.getD 1 [], paramTypes := s.drop 2,
                          params := (implSingles.map cfg.stripMember).drop 2, isCtor, isMacro := implMacro }
      if isCtor then { ctors := [m] } else { members := [m] }
  else {}

/-- the items that may stand between a declaration and its definition: single commands that are not
    declarations themselves, and doccomments without a command -/
def Item.isGap : Item → Bool
  | .cmd _ call => !isDeclName call.lname
  | .dangling _ => true
  | _ => false

/-- is a shown declaration waiting for its definition after this item? -/
def Item.pendS (cfg : Cfg) (ctx : ClsCtx) (pending : Bool) : Item → Bool
  | .cmd doc call => pending || (isDeclName call.lname && declShown cfg ctx doc call)
  | .block _ o _ _ => if isDefName o.lname then false else pending
  | .decl .. => false
  | .dangling _ => pending

mutual
/-- contribution of one item; `pending`: a shown declaration waits for its definition; `impl`: the opener of
    the first definition among the items that follow in the same list -/
def Item.specS (cfg : Cfg) (ctx : ClsCtx) (pending : Bool) (impl : Option Call) : Item → Contrib
  | .cmd doc call =>
    if isDeclName call.lname then declContrib cfg ctx doc call impl
    else Item.spec cfg ctx (.cmd doc call)
  | .block doc o body _ =>
    let n := o.lname
    let documented := doc.isSome
    if n = lit "function" || n = lit "macro" then
      let isMacro := n = lit "macro"
      let own : Contrib :=
        if documented || (!pending && (if isMacro then cfg.inclMacro else cfg.inclFunction)) then
          { top := [defEntry cfg isMacro doc o body] } else {}
      own ++ itemsSpecS cfg ctx false body
    else if n = lit "cpp_class" then
      if documented || cfg.inclCppClass then
        let b := itemsSpecS cfg .shown false body
        let s := o.singles
        { top := .cls (s.headD []) (docTextOf doc) (s.drop 1) b.inner b.ctors b.members b.attrs :: b.top,
          inner := if ctx = .shown then [s.headD []] else [] }
      else
        { top := (itemsSpecS cfg .hidden false body).top }
    else
      let own : Contrib := if documented then { top := [.generic n (docTextOf doc) (argTexts o.toCmd.args)] } else {}
      own ++ itemsSpecS cfg ctx false body
  | .decl doc d impl body _ =>
    let n := d.lname
    let s := d.singles
    let documented := doc.isSome
    let implMacro := impl.lname = lit "macro"
    let asDefinition : Contrib :=
      if (if implMacro then cfg.inclMacro else cfg.inclFunction) then { top := [defEntry cfg implMacro none impl body] } else {}
    let own : Contrib :=
      if n = lit "ct_add_test" || n = lit "ct_add_section" then
        let isSection := n = lit "ct_add_section"
        if documented || (if isSection then cfg.inclCtAddSection else cfg.inclCtAddTest) then
          { top := [.test isSection (nameOf s).1 (docTextOf doc) (s.contains (lit "EXPECTFAIL")) (impl.singles.drop 2) implMacro] }
        else asDefinition
      else
        let isCtor := n = lit "cpp_constructor"
        if ctx = .shown && (documented || (if isCtor then cfg.inclCppConstructor else cfg.inclCppMember)) then
          let m : Method := { name := s.headD [], doc := docTextOf doc, parentClass := s.getD 1 [], paramTypes := s.drop 2,
                              params := (impl.singles.map cfg.stripMember).drop 2, isCtor, isMacro := implMacro }
          if isCtor then { ctors := [m] } else { members := [m] }
        else asDefinition
    own ++ itemsSpecS cfg ctx false body
  | .dangling _ => {}
def itemsSpecS (cfg : Cfg) (ctx : ClsCtx) (pending : Bool) : List Item → Contrib
  | [] => {}
  | i :: is => i.specS cfg ctx pending (findImpl is) ++ itemsSpecS cfg ctx (i.pendS cfg ctx pending) is
end

/-- the expected `documented` list of a module, declarations and their definitions possibly apart -/
def Module.entriesS (cfg : Cfg) (m : Module) : List Entry :=
  (match m.modDoc with
   | some d => let (n, t) := moduleNameDoc d.tokenText; [Entry.module n t]
   | none => []) ++ (itemsSpecS cfg .none false m.items).top

/-! ## well-formedness -/

/-- is a declaration (shown or not) still without its definition after this item?  (syntactic) -/
def Item.pendWf (pending : Bool) : Item → Bool
  | .cmd _ call => pending || isDeclName call.lname
  | .block _ o _ _ => if isDefName o.lname then false else pending
  | .decl .. => false
  | .dangling _ => pending

mutual
/-- `Item.wf`, plus: a declaration as a single command (only when no other declaration is pending); while a
    declaration is pending only single commands, dangling doccomments and the definition itself -/
def Item.wfS (inClass pending : Bool) : Item → Bool
  | .cmd doc call =>
    let n := call.lname
    if isDeclName n then
      !pending &&
      (if n = lit "cpp_member" || n = lit "cpp_constructor" then call.singles.length ≥ 2 && inClass
       else call.singles.length ≥ 2 && nameOk call.singles)
    else Item.wf inClass (.cmd doc call)
  | .block _ o body c =>
    let n := o.lname
    (isDefName n || !pending) &&
    (closerFor n).contains c.lname &&
    ((n != lit "function" && n != lit "macro" && n != lit "cpp_class") || o.singles.length ≥ 1) &&
    itemsWfS (n = lit "cpp_class" || (inClass && isLoopName n)) false body
  | .decl _ d impl body c =>
    let n := d.lname
    let im := impl.lname
    !pending &&
    (n = lit "cpp_member" || n = lit "cpp_constructor" || n = lit "ct_add_test" || n = lit "ct_add_section") &&
    (im = lit "function" || im = lit "macro") &&
    (c.lname = lit "endfunction" || c.lname = lit "endmacro") &&
    impl.singles.length ≥ 1 &&
    (if n = lit "cpp_member" || n = lit "cpp_constructor" then d.singles.length ≥ 2 && inClass
     else d.singles.length ≥ 2 && nameOk d.singles) &&
    itemsWfS false false body
  | .dangling _ => true
def itemsWfS (inClass pending : Bool) : List Item → Bool
  | [] => !pending
  | i :: is => i.wfS inClass pending && itemsWfS inClass (i.pendWf pending) is
end

end Cminx
