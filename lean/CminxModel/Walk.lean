import CminxModel.Pipeline
/-!
# L7 — `__init__.py: document`, `document_single_file`, and the loop of `main` over its inputs

The file system enters as an explicit tree whose child order *is* the directory-listing order (`os.walk`
yields sub-directories and files in `scandir` order), pathspec as an arbitrary predicate on relative paths,
the output directory as a flag (present / absent = stdout).  Paths are lists of components relative to the
input directory resp. the output directory.
-/
namespace Cminx

inductive FsNode where
  | file (name : Str) (content : Str)
  | dir (name : Str) (children : List FsNode)
deriving Repr, Inhabited

def FsNode.name : FsNode → Str
  | .file n _ => n
  | .dir n _ => n

/-- names of the regular files directly in a listing, in listing order -/
def fileNames : List FsNode → List Str
  | [] => []
  | .file n _ :: r => n :: fileNames r
  | .dir _ _ :: r => fileNames r

def dirNames : List FsNode → List Str
  | [] => []
  | .file _ _ :: r => dirNames r
  | .dir n _ :: r => n :: dirNames r

def findFile (n : Str) : List FsNode → Option Str
  | [] => none
  | .file m c :: r => if m = n then some c else findFile n r
  | .dir _ _ :: r => findFile n r

/-- `sorted()` on `str`: lexicographic by code point -/
def strLe : Str → Str → Bool
  | [], _ => true
  | _ :: _, [] => false
  | a :: as, b :: bs => if a < b then true else if b < a then false else strLe as bs

def sortStrs (l : List Str) : List Str := l.mergeSort strLe

def endsWith (suffix s : Str) : Bool := suffix.reverse.isPrefixOf s.reverse

/-- `name.lower().endswith(".cmake")` (ASCII case folding; non-ASCII case mappings in file names are not modelled) -/
def isCMakeName (n : Str) : Bool := endsWith (lit ".cmake") (asciiLower n)
/-- `name.endswith(".cmake")` — the case-sensitive test of the auto-exclusion scan -/
def isLowerCMakeName (n : Str) : Bool := endsWith (lit ".cmake") n

/-- `'.'.join(name.split('.')[:-1])` -/
def stem (n : Str) : Str :=
  match (n.reverse.dropWhile (· != '.')) with
  | [] => []
  | _ :: r => r.reverse

/-- `re.sub(r"\.cmake$", "", s, flags=re.IGNORECASE)` for names without a trailing newline -/
def dropCMakeExt (s : Str) : Str := if isCMakeName s then s.take (s.length - 6) else s

structure WalkCfg where
  recursive : Bool := false
  autoExclude : Bool := true
  pfx : Option Str := none           -- `rst.prefix`
  sep : Str := ['.']                 -- `rst.module_path_separator`
  extTitles : Bool := false
  extModules : Bool := false
  headers : List Str := [['#']]
  toStdout : Bool := false           -- `output.directory is None`
  agg : Cfg := {}

structure Write where
  path : List Str                    -- relative to the output directory
  content : Str
deriving Repr, DecidableEq, Inhabited

structure RunResult where
  writes : List Write := []          -- in the order they happen
  stdout : Str := []
  error : Option Err := none         -- an exception escaped (status ≠ 0); later work is not done
deriving Repr, Inhabited

/-- `prefix + sep + name`, or the bare name without a prefix -/
def withPrefix (pfx : Option Str) (sep name : Str) : Str :=
  match pfx with
  | none => name
  | some p => p ++ sep ++ name

def relStr (rel : List Str) : Str := if rel.isEmpty then ['.'] else joinWith ['/'] rel

/-- `document_single_file`: (title, module name) -/
def pageNames (c : WalkCfg) (pfx : Option Str) (relFile : Str) : Str × Str :=
  let h := withPrefix pfx c.sep relFile
  (if c.extTitles then h else dropCMakeExt h, if c.extModules then h else dropCMakeExt h)

/-- one page: its text, or the error the pipeline raised -/
def page (c : WalkCfg) (pfx : Option Str) (relFile content : Str) : Except Err Str :=
  let (t, m) := pageNames c pfx relFile
  pipeline c.agg c.headers t m content

/-- append the result of documenting one file (`relDir` = directory part, `name` = file name) -/
def emitPage (c : WalkCfg) (pfx : Option Str) (relDir : List Str) (name content : Str) (r : RunResult) : RunResult :=
  if r.error.isSome then r else
  match page c pfx (joinWith ['/'] (relDir ++ [name])) content with
  | .error e => { r with error := some e }
  | .ok text =>
    if c.toStdout then { r with stdout := r.stdout ++ text ++ ['\n', '\n'] }   -- print(str(writer) + "\n")
    else { r with writes := r.writes ++ [⟨relDir ++ [stem name ++ lit ".rst"], text⟩] }

/-- the `index.rst` of one directory -/
def indexPage (c : WalkCfg) (pfx : Str) (rel : List Str) (subdirs files : List Str) : Except Err Str :=
  match c.headers with
  | [] => .error .noHeaders
  | hc :: _ =>
    -- the input directory itself (`rel_path == "."`) is titled with the prefix; a sub-directory with prefix, separator, path
    let title := if rel.isEmpty then pfx else pfx ++ c.sep ++ relStr rel
    let entries := (if c.recursive then subdirs.map (· ++ lit "/index.rst") else []) ++
                   (files.filter isCMakeName).map stem
    .ok ({ hc, title, body := [.directive (lit "toctree") [] [(lit "maxdepth", lit "2")] (entries.map Elem.para)] } : Doc).render

def emitFiles (c : WalkCfg) (pfx : Option Str) (rel : List Str) (listing : List FsNode) : List Str → RunResult → RunResult
  | [], r => r
  | f :: fs, r =>
    let r' := if isCMakeName f then
        (match findFile f listing with
         | some content => emitPage c pfx rel f content r
         | none => r)
      else r
    emitFiles c pfx rel listing fs r'

/-- does the directory `listing` directly contain a non-excluded regular file whose name ends in `.cmake`? -/
def hasCMake (excl : List Str → Bool → Bool) (rel : List Str) (listing : List FsNode) : Bool :=
  (fileNames listing).any (fun f => isLowerCMakeName f && !excl (rel ++ [f]) false)

mutual
/-- one iteration of the `os.walk` loop for the directory at `rel` with the given listing, then its sub-directories -/
def walkDir (c : WalkCfg) (excl : List Str → Bool → Bool) (pfx : Str) (rel : List Str) (listing : List FsNode)
    (r : RunResult) : RunResult :=
  if r.error.isSome then r else
  let keepDir (n : Str) : Bool :=
    !excl (rel ++ [n]) true &&
    (!c.autoExclude || (match listing.find? (fun x => match x with | .dir m _ => m == n | _ => false) with
                         | some (.dir _ ch) => hasCMake excl (rel ++ [n]) ch
                         | _ => false))
  let files := (fileNames listing).filter (fun f => !excl (rel ++ [f]) false)
  if c.autoExclude && !(files.any isLowerCMakeName) then
    -- "no .cmake here": nothing is written for this directory; the walk goes on only with -r
    if c.recursive then walkSubs c excl pfx rel keepDir listing r else r
  else
    let subdirs := (dirNames listing).filter keepDir
    let r1 : RunResult :=
      if c.toStdout then r else
      match indexPage c pfx rel (sortStrs subdirs) (sortStrs files) with
      | .error e => { r with error := some e }
      | .ok text => { r with writes := r.writes ++ [⟨rel ++ [lit "index.rst"], text⟩] }
    let r2 := emitFiles c (some pfx) rel listing (sortStrs files) r1
    if c.recursive then walkSubs c excl pfx rel keepDir listing r2 else r2
/-- descend into the surviving sub-directories in listing order -/
def walkSubs (c : WalkCfg) (excl : List Str → Bool → Bool) (pfx : Str) (rel : List Str) (keep : Str → Bool) :
    List FsNode → RunResult → RunResult
  | [], r => r
  | .file _ _ :: rest, r => walkSubs c excl pfx rel keep rest r
  | .dir n ch :: rest, r =>
    let r' := if keep n then walkDir c excl pfx (rel ++ [n]) ch r else r
    walkSubs c excl pfx rel keep rest r'
end

/-- what one input of `main` is -/
inductive Input where
  | missing (name : Str)                       -- does not exist: `exit(-1)`
  | special (name : Str)                       -- socket, FIFO, device file: an error is logged, nothing else happens
  | file (name : Str) (content : Str)          -- a lone file (base name)
  | dir (name : Str) (listing : List FsNode)   -- a directory; `name` = last element of its absolute path
deriving Repr, Inhabited

inductive Status where | ok | exitMinus1 | raised (e : Err)
deriving Repr, DecidableEq

/-- `document(input, settings)`; `exclRoot` = the input path itself matches an exclude pattern -/
def document (c : WalkCfg) (excl : List Str → Bool → Bool) (exclRoot : Bool) (inp : Input) (r : RunResult) : RunResult × Bool :=
  if exclRoot then (r, false) else
  match inp with
  | .missing _ => (r, true)
  | .special _ => (r, false)
  | .file name content => (emitPage c c.pfx [] name content r, false)
  | .dir name listing => (walkDir c excl (c.pfx.getD name) [] listing r, false)

end Cminx

namespace Cminx

/-- one positional argument of `main` with the facts pathspec contributes about it -/
structure MainInput where
  inp : Input
  excl : List Str → Bool → Bool      -- exclusion of paths below the input (components, is-directory)
  exclRoot : Bool                    -- the input path itself is excluded

/-- the loop `for input_file in args.files: document(input_file, settings_obj)`; the settings object is deep-copied
    inside `document`, so every input sees the same configuration -/
def runMain (c : WalkCfg) : List MainInput → RunResult → RunResult × Status
  | [], r => (r, match r.error with | some e => .raised e | none => .ok)
  | i :: is, r =>
    match r.error with
    | some e => (r, .raised e)
    | none =>
      let (r', exited) := document c i.excl i.exclRoot i.inp r
      if exited then (r', .exitMinus1)
      else runMain c is r'

end Cminx
