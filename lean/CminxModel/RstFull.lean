import CminxModel.Rst
/-!
# L2⁺ — the whole of `rstwriter.py`

`Rst.lean` models the part of the writer the documentation pipeline uses (paragraphs, fields, lists, directives with
options, the title frame of the top-level writer).  This file adds the rest of the public API so that *every* element
class and every `RSTWriter` method has a counterpart:

* `RSTWriter.section` — a nested `RSTWriter` whose `section_level` is the parent's plus one, whose heading character is
  `heading_level_chars[section_level]` **looked up once, in `__init__`**, and whose `indent` is 0 whatever the parent's
  indent is (the constructor call passes no `indent`).  A `Directive` is constructed with the default `section_level = 0`,
  so a section opened on a directive has level 1.  When the level is not an index of the header list the constructor raises
  `IndexError` and nothing is appended: `FDoc.apply` returns `.error`.
* `RSTWriter.doctest` / `DocTest` — `"\n" + indent + ">>> " + test_line + "\n" + expected_output + "\n"`
  (the expected output is *not* indented).
* `RSTWriter.simple_table` / `SimpleTable` — all cells and headings padded to the width of the longest one, two blanks
  between columns, no indentation; `ValueError`/`IndexError` for an empty table, ragged rows or a wrong number of headings
  (raised by the constructor, so nothing is appended).
* `RSTWriter.write_to_file` is `to_text()` handed to `open(...).write`/`file.write`; it has no logic of its own apart from
  the two argument checks, which `writeTarget` states.

`FElem.ofElem` embeds the smaller model; `CminxProps/C20Full.lean` proves that rendering and API histories commute with the
embedding, so every statement proved about `Rst.lean` is a statement about this model as well.
-/
namespace Cminx

/-- an element of `RSTWriter.document[1:]`, all seven classes -/
inductive FElem where
  | para (text : Str)
  | field (name text : Str)
  | list (enumerated : Bool) (items : List Str)
  | doctest (line expected : Str)
  | table (rows : List (List Str)) (heads : List Str)
  | directive (name : Str) (args : List Str) (opts : List (Str × Str)) (body : List FElem)
  /-- a nested `RSTWriter`: `level` = `section_level`, `hc` = `header_char` as looked up by the constructor -/
  | sect (level : Nat) (hc : Str) (title : Str) (body : List FElem)
deriving Repr, Inhabited

/-- `DocTest.build_doctest_string` -/
def renderDoctest (d : Nat) (line expected : Str) : Str :=
  '\n' :: (indent d ++ lit ">>> " ++ line ++ '\n' :: (expected ++ ['\n']))

/-! ### `SimpleTable.build_table_string` -/

/-- the longest cell or heading (`row_separator_width`) -/
def tableWidth (rows : List (List Str)) (heads : List Str) : Nat :=
  heads.foldl (fun w h => if h.length > w then h.length else w)
    (rows.foldl (fun w row => row.foldl (fun w c => if c.length > w then c.length else w) w) 0)

/-- a cell followed by blanks up to the column width and the two separating blanks -/
def padCell (w : Nat) (c : Str) : Str := c ++ List.replicate (w - c.length) ' ' ++ [' ', ' ']

/-- `'=' * w` followed by the two separating blanks -/
def sepCell (w : Nat) : Str := List.replicate w '=' ++ [' ', ' ']

/-- the characters `heading[i] if i < len(heading) else " "` for `i in range(w)`, then two blanks -/
def headCell (w : Nat) (h : Str) : Str := h.take w ++ List.replicate (w - h.length) ' ' ++ [' ', ' ']

def concatMap (f : Str → Str) : List Str → Str
  | [] => []
  | x :: xs => f x ++ concatMap f xs

/-- what the constructor checks: a first row exists (`self.table[0]`), every row has its length, the headings — if any —
    are as many as the columns -/
def tableValid (rows : List (List Str)) (heads : List Str) : Bool :=
  match rows with
  | [] => false
  | r0 :: _ => (heads.length == 0 || heads.length == r0.length) && rows.all (fun r => r.length == r0.length)

def renderRows (w : Nat) : List (List Str) → Str
  | [] => []
  | r :: rs => concatMap (padCell w) r ++ '\n' :: renderRows w rs

def renderTable (rows : List (List Str)) (heads : List Str) : Str :=
  let w := tableWidth rows heads
  let over := concatMap (fun _ => sepCell w) heads
  let hl := concatMap (headCell w) heads
  over ++ '\n' :: (hl ++ '\n' :: (over ++ '\n' ::
    (renderRows w rows ++ (concatMap (fun _ => sepCell w) (rows.headD [])) ++ ['\n'])))

mutual
/-- `str(element)` for an element held by a writer whose `indent` is `d` -/
def FElem.render (d : Nat) : FElem → Str
  | .para t => renderPara d t
  | .field n t => renderField d n t
  | .list en items => renderList d en items
  | .doctest l e => renderDoctest d l e
  | .table rows heads => renderTable rows heads
  | .directive name args opts body =>
      renderDirHeading d name args ++ '\n' :: renderOpts (d + 1) opts
        ++ (if body.isEmpty then [] else ['\n']) ++ renderFElems (d + 1) body
  | .sect _ hc title body => renderHeading hc title ++ '\n' :: renderFElems 0 body
/-- the loop `for element in document[1:]: s += f"{element}\n"` -/
def renderFElems (d : Nat) : List FElem → Str
  | [] => []
  | e :: es => e.render d ++ '\n' :: renderFElems d es
end

/-- a top-level `RSTWriter` together with the header list its settings carry -/
structure FDoc where
  hs : List Str            -- `heading_level_chars` (from `settings.rst.headers`)
  hc : Str                 -- `header_char`, looked up by the constructor
  title : Str
  body : List FElem
deriving Repr, Inhabited

/-- `RSTWriter(title, settings=…)`: `IndexError` when the header list is empty -/
def FDoc.new (hs : List Str) (title : Str) : Option FDoc :=
  match hs with
  | [] => none
  | h :: _ => some { hs, hc := h, title, body := [] }

/-- `RSTWriter.to_text()` -/
def FDoc.render (w : FDoc) : Str := renderHeading w.hc w.title ++ '\n' :: renderFElems 0 w.body

/-! ## API histories -/

inductive FOp where
  | text (h : List Nat) (t : Str)
  | field (h : List Nat) (n t : Str)
  | list (h : List Nat) (enumerated : Bool) (items : List Str)
  | doctest (h : List Nat) (line expected : Str)
  | table (h : List Nat) (rows : List (List Str)) (heads : List Str)
  | directive (h : List Nat) (name : Str) (args : List Str)
  | sect (h : List Nat) (title : Str)
  | option (h : List Nat) (n v : Str)
  | setTitle (h : List Nat) (t : Str)
  | clear (h : List Nat)
deriving Repr

inductive FNodeOp where
  | append (e : FElem) | addOpt (n v : Str) | setTitle (t : Str) | clear

mutual
/-- apply `nop` to the writer (directive or section) reached from element `e` through `path` -/
def FElem.update (nop : FNodeOp) : List Nat → FElem → FElem
  | [], .directive name args opts body =>
    (match nop with
     | .append e => .directive name args opts (body ++ [e])
     | .addOpt n v => .directive name args (opts ++ [(n, v)]) body
     | .setTitle t => .directive t args opts body
     | .clear => .directive name args opts [])
  | [], .sect k hc title body =>
    (match nop with
     | .append e => .sect k hc title (body ++ [e])
     | .addOpt _ _ => .sect k hc title body          -- a plain `RSTWriter` has no `option`
     | .setTitle t => .sect k hc t body
     | .clear => .sect k hc title [])
  | i :: path, .directive name args opts body => .directive name args opts (fupdateAt nop i path body)
  | i :: path, .sect k hc title body => .sect k hc title (fupdateAt nop i path body)
  | _, e => e
def fupdateAt (nop : FNodeOp) : Nat → List Nat → List FElem → List FElem
  | _, _, [] => []
  | 0, path, e :: es => e.update nop path :: es
  | i + 1, path, e :: es => e :: fupdateAt nop i path es
end

def FDoc.update (w : FDoc) (nop : FNodeOp) : List Nat → FDoc
  | [] => (match nop with
     | .append e => { w with body := w.body ++ [e] }
     | .addOpt _ _ => w
     | .setTitle t => { w with title := t }
     | .clear => { w with body := [] })
  | i :: path => { w with body := fupdateAt nop i path w.body }

mutual
/-- `section_level` of the writer a handle points at (`none`: the handle names no writer) -/
def FElem.levelAt : List Nat → FElem → Option Nat
  | [], .directive _ _ _ _ => some 0          -- `Directive.__init__` leaves `section_level` at its default
  | [], .sect k _ _ _ => some k
  | i :: path, .directive _ _ _ body => flevelAt i path body
  | i :: path, .sect _ _ _ body => flevelAt i path body
  | _, _ => none
def flevelAt : Nat → List Nat → List FElem → Option Nat
  | _, _, [] => none
  | 0, path, e :: _ => e.levelAt path
  | i + 1, path, _ :: es => flevelAt i path es
end

def FDoc.levelAt (w : FDoc) : List Nat → Option Nat
  | [] => some 0
  | i :: path => flevelAt i path w.body

def FOp.handle : FOp → List Nat
  | .text h _ | .field h _ _ | .list h _ _ | .doctest h _ _ | .table h _ _ | .directive h _ _ | .sect h _
  | .option h _ _ | .setTitle h _ | .clear h => h

/-- One API call.  `.error` = the call raises (and, as in the code, leaves the document as it was):
    a table the constructor rejects; a section whose level has no header character; a handle that names no writer. -/
def FDoc.apply (w : FDoc) : FOp → Except String FDoc
  | .text h t => .ok (w.update (.append (.para t)) h)
  | .field h n t => .ok (w.update (.append (.field n t)) h)
  | .list h en items => .ok (w.update (.append (.list en items)) h)
  | .doctest h l e => .ok (w.update (.append (.doctest l e)) h)
  | .table h rows heads =>
      if tableValid rows heads then .ok (w.update (.append (.table rows heads)) h) else .error "table"
  | .directive h name args => .ok (w.update (.append (.directive name args [] [])) h)
  | .sect h title =>
      match w.levelAt h with
      | none => .error "handle"
      | some k =>
        match w.hs[k + 1]? with
        | none => .error "level"
        | some hc => .ok (w.update (.append (.sect (k + 1) hc title [])) h)
  | .option h n v => .ok (w.update (.addOpt n v) h)
  | .setTitle h t => .ok (w.update (.setTitle t) h)
  | .clear h => .ok (w.update .clear h)

/-- a history; calls that raise are skipped (the caller catches the exception and goes on) -/
def FDoc.run (w : FDoc) : List FOp → FDoc
  | [] => w
  | op :: ops => match w.apply op with
    | .ok w' => w'.run ops
    | .error _ => w.run ops

/-! ## embedding of `Rst.lean` -/

mutual
def FElem.ofElem : Elem → FElem
  | .para t => .para t
  | .field n t => .field n t
  | .list en items => .list en items
  | .directive name args opts body => .directive name args opts (ofElems body)
def ofElems : List Elem → List FElem
  | [] => []
  | e :: es => FElem.ofElem e :: ofElems es
end

def FDoc.ofDoc (hs : List Str) (w : Doc) : FDoc := { hs, hc := w.hc, title := w.title, body := ofElems w.body }

def FOp.ofOp : Op → FOp
  | .text h t => .text h t
  | .field h n t => .field h n t
  | .list h en items => .list h en items
  | .directive h name args => .directive h name args
  | .option h n v => .option h n v
  | .setTitle h t => .setTitle h t
  | .clear h => .clear h

/-! ## `write_to_file` -/

inductive WriteArg where
  | path (p : Str) | stream | other
/-- what `write_to_file(file)` does with its argument: `ValueError` for `""`/`None` (`none` here),
    the stripped path, the stream's `write`, or `TypeError` -/
inductive WriteTarget where
  | valueError | openPath (p : Str) | streamWrite | typeError
deriving Repr, DecidableEq

def writeTarget : Option WriteArg → WriteTarget
  | none => .valueError
  | some (.path []) => .valueError
  | some (.path p) => .openPath (stripWs p)
  | some .stream => .streamWrite
  | some .other => .typeError

end Cminx
