import CminxModel.Clean
import CminxModel.DocTypes
/-!
# L4 — `aggregator.py`: the listener callbacks as a state machine over the flat command list

The grammar has no nesting of commands: function bodies, classes and tests are recognised by the stack
discipline below.  Python mutates entries through object references after they were stored
(`has_kwargs`, class member lists, parameters of the entry awaiting its definition); here a reference is an
index into `documented` (which only ever grows during the walk), so the order of effects stays visible.
-/
namespace Cminx

/-- a command argument as the parse tree has it -/
inductive Arg where
  | single (text : Str)
  | compound (args : List Arg)
deriving Repr, Inhabited

structure Cmd where
  name : Str            -- the `Identifier` token as written
  args : List Arg
deriving Repr, Inhabited

/-- `ctx.single_argument()`: the direct single-argument children, in order -/
def singlesOf : List Arg → List Str
  | [] => []
  | .single t :: as => t :: singlesOf as
  | .compound _ :: as => singlesOf as

def Cmd.singles (c : Cmd) : List Str := singlesOf c.args

mutual
/-- `DocumentationAggregator.argument_text` -/
def Arg.text : Arg → Str
  | .single t => t
  | .compound as => '(' :: (joinWith [' '] (argTexts as) ++ [')'])
def argTexts : List Arg → List Str
  | [] => []
  | a :: as => a.text :: argTexts as
end

/-- the part of `Settings.input` the aggregator reads; `re.sub(regex, "", ·)` enters as an arbitrary function -/
structure Cfg where
  inclFunction : Bool := true
  inclMacro : Bool := true
  inclCppClass : Bool := true
  inclCppAttr : Bool := true
  inclCppConstructor : Bool := true
  inclCppMember : Bool := true
  inclCtAddTest : Bool := true
  inclAddTest : Bool := true
  inclCtAddSection : Bool := true
  inclOption : Bool := true
  trigger : Str := lit ":param **kwargs:"
  stripFn : Str → Str := id
  stripMacro : Str → Str := id
  stripMember : Str → Str := id

/-- the reference held in `documented_awaiting_function_def` -/
inductive AwaitRef where
  | entry (idx : Nat)                                  -- a Test/SectionDocumentation in `documented`
  | method (cls : Nat) (isCtor : Bool) (pos : Nat)     -- a MethodDocumentation inside class entry `cls`
deriving Repr, DecidableEq

structure AggState where
  documented : List Entry := []
  classStack : List (Option Nat) := []      -- head = top; `none` = the Python `None` placeholder
  awaiting : Option AwaitRef := none
  defStack : List (Option Nat) := []        -- head = top; `none` = `DefinitionCommand(None, False)`
  errors : Nat := 0                         -- number of `logger.error` calls about incorrect parameters
deriving Repr

inductive AggErr where
  | syntaxException   -- `CMakeSyntaxException` (function()/macro() without a name)
  | indexError        -- `pop from empty list` (cpp_end_class / endfunction / endmacro without opener)
  | typeError         -- documented command named `generic_command` (K2)
  | keyError          -- undocumented command named `generic_command` (K2)
deriving Repr, DecidableEq

abbrev AggM := Except AggErr

def AggState.logError (st : AggState) : AggState := { st with errors := st.errors + 1 }
def AggState.push (st : AggState) (e : Entry) : AggState := { st with documented := st.documented ++ [e] }

/-- names for which `f"process_{command}" in dir(self)` holds -/
inductive Proc where
  | function | macro | cmakeParseArguments | ctAddTest | ctAddSection | set | cppClass | cppMember
  | cppConstructor | cppAttr | addTest | option | genericCommand
deriving Repr, DecidableEq

def procOf (command : Str) : Option Proc :=
  if command = lit "function" then some .function
  else if command = lit "macro" then some .macro
  else if command = lit "cmake_parse_arguments" then some .cmakeParseArguments
  else if command = lit "ct_add_test" then some .ctAddTest
  else if command = lit "ct_add_section" then some .ctAddSection
  else if command = lit "set" then some .set
  else if command = lit "cpp_class" then some .cppClass
  else if command = lit "cpp_member" then some .cppMember
  else if command = lit "cpp_constructor" then some .cppConstructor
  else if command = lit "cpp_attr" then some .cppAttr
  else if command = lit "add_test" then some .addTest
  else if command = lit "option" then some .option
  else if command = lit "generic_command" then some .genericCommand
  else none

/-- `settings.input.__dict__[f"include_undocumented_{command}"]`; `none` = `KeyError` -/
def Cfg.include (c : Cfg) : Proc → Option Bool
  | .function => some c.inclFunction
  | .macro => some c.inclMacro
  | .ctAddTest => some c.inclCtAddTest
  | .ctAddSection => some c.inclCtAddSection
  | .cppClass => some c.inclCppClass
  | .cppMember => some c.inclCppMember
  | .cppConstructor => some c.inclCppConstructor
  | .cppAttr => some c.inclCppAttr
  | .addTest => some c.inclAddTest
  | .option => some c.inclOption
  | .set | .cmakeParseArguments | .genericCommand => none

/-! ### entry mutation through references -/

def setKwargs : Entry → Entry
  | .func m n d ps _ => .func m n d ps true
  | e => e

def addInner (nm : Str) : Entry → Entry
  | .cls n d s inner c m a => .cls n d s (inner ++ [nm]) c m a
  | e => e

def addMethod (isCtor : Bool) (md : Method) : Entry → Entry
  | .cls n d s i c m a => if isCtor then .cls n d s i (c ++ [md]) m a else .cls n d s i c (m ++ [md]) a
  | e => e

def addAttr (attr : Attr) : Entry → Entry
  | .cls n d s i c m a => .cls n d s i c m (a ++ [attr])
  | e => e

/-- number of constructors / members of a class entry (the position the next one gets) -/
def methodCount (isCtor : Bool) : Entry → Nat
  | .cls _ _ _ _ c m _ => if isCtor then c.length else m.length
  | _ => 0

/-- the `is_macro = …; params.extend(…)` update of the entry awaiting its definition -/
def Method.define (isMacro : Bool) (extra : List Str) (m : Method) : Method :=
  { m with isMacro := isMacro, params := m.params ++ extra }

def defineEntry (isMacro : Bool) (extra : List Str) : Entry → Entry
  | .test s n d ef ps _ => .test s n d ef (ps ++ extra) isMacro
  | e => e

def defineMethodIn (isCtor : Bool) (pos : Nat) (isMacro : Bool) (extra : List Str) : Entry → Entry
  | .cls n d s i c m a =>
    if isCtor then .cls n d s i (c.modify pos (Method.define isMacro extra)) m a
    else .cls n d s i c (m.modify pos (Method.define isMacro extra)) a
  | e => e

/-! ### the `process_*` methods -/

/-- `process_function` / `process_macro` -/
def processDef (cfg : Cfg) (isMacro : Bool) (st : AggState) (cmd : Cmd) (doc : Str) : AggM AggState :=
  match cmd.singles with
  | [] => throw .syntaxException
  | name :: ps =>
    let strip := if isMacro then cfg.stripMacro else cfg.stripFn
    let e := Entry.func isMacro name doc (ps.map strip) (isInfix cfg.trigger doc)
    pure { st.push e with defStack := some st.documented.length :: st.defStack }

/-- `process_cmake_parse_arguments` -/
def processCpa (st : AggState) : AggState :=
  match st.defStack with
  | some i :: _ => { st with documented := st.documented.modify i setKwargs }
  | _ => st

/-- the `NAME` scan shared by the three test commands: `none` if some `NAME` is the last argument (IndexError),
    otherwise the argument after the last `NAME` (or `""`), with the positions of that pair -/
def scanName : List Str → Nat → (Str × Option Nat) → Option (Str × Option Nat)
  | [], _, acc => some acc
  | p :: rest, i, acc =>
    if p = lit "NAME" then
      match rest with
      | [] => none
      | nm :: _ => scanName rest (i + 1) (nm, some i)
    else scanName rest (i + 1) acc

/-- `process_ct_add_test` / `process_ct_add_section` -/
def processCtTest (isSection : Bool) (st : AggState) (cmd : Cmd) (doc : Str) : AggState :=
  let params := cmd.singles
  if params.length < 2 then st.logError
  else match scanName params 0 ([], none) with
    | none => st.logError
    | some (name, _) =>
      let e := Entry.test isSection name doc (params.contains (lit "EXPECTFAIL")) [] false
      { st.push e with awaiting := some (.entry st.documented.length) }

/-- `value[1:-1]` if the value is wrapped in a pair of double quotes -/
def unquote (v : Str) : Str :=
  if v.length ≥ 2 ∧ v.head? = some '"' ∧ v.getLast? = some '"' then (v.drop 1).dropLast else v

/-- `process_set` -/
def processSet (st : AggState) (cmd : Cmd) (doc : Str) : AggState :=
  match cmd.singles with
  | [] => st.logError
  | [name] => st.push (.var name doc .unset none)
  | [name, v] => st.push (.var name doc .string (some (unquote v)))
  | name :: vs => st.push (.var name doc .list (some (joinWith [' '] vs)))

/-- `process_cpp_class` -/
def processCppClass (st : AggState) (cmd : Cmd) (doc : Str) : AggState :=
  match cmd.singles with
  | [] => st.logError
  | name :: supers =>
    let idx := st.documented.length
    let docd := match st.classStack with
      | some outer :: _ => st.documented.modify outer (addInner name)
      | _ => st.documented
    { st with documented := docd ++ [.cls name doc supers [] [] [] []], classStack := some idx :: st.classStack }

/-- `process_cpp_member` / `process_cpp_constructor` -/
def processCppMember (isCtor : Bool) (st : AggState) (cmd : Cmd) (doc : Str) : AggState :=
  match cmd.singles with
  | name :: parent :: types =>
    (match st.classStack with
     | [] => st.logError
     | none :: _ => st
     | some ci :: _ =>
       let pos := methodCount isCtor (st.documented.getD ci default)
       let md : Method := { name, doc, parentClass := parent, paramTypes := types, params := [], isCtor, isMacro := false }
       { st with documented := st.documented.modify ci (addMethod isCtor md),
                 awaiting := some (.method ci isCtor pos) })
  | _ => st.logError

/-- `process_cpp_attr` -/
def processCppAttr (st : AggState) (cmd : Cmd) (doc : Str) : AggState :=
  match cmd.singles with
  | parent :: name :: rest =>
    (match st.classStack with
     | [] => st.logError
     | none :: _ => st
     | some ci :: _ =>
       { st with documented := st.documented.modify ci (addAttr { name, doc, parentClass := parent, dflt := rest.head? }) })
  | _ => st.logError

/-- `[p for i, p in enumerate(params) if i not in (k, k+1)]` -/
def dropPairAt : List Str → Nat → List Str
  | [], _ => []
  | _ :: rest, 0 => rest.drop 1
  | p :: rest, k + 1 => p :: dropPairAt rest k

/-- `process_add_test` -/
def processAddTest (st : AggState) (cmd : Cmd) (doc : Str) : AggState :=
  let params := argTexts cmd.args      -- all arguments in source order, parenthesised groups included (repair D19)
  if params.length < 2 then st.logError
  else match scanName params 0 ([], none) with
    | none => st.logError
    | some (name, none) => st.push (.ctest name doc params)
    | some (name, some k) => st.push (.ctest name doc (dropPairAt params k))

/-- `process_option` -/
def processOption (st : AggState) (cmd : Cmd) (doc : Str) : AggState :=
  match cmd.singles with
  | [name, help] => st.push (.opt name doc help none)
  | [name, help, dflt] => st.push (.opt name doc help (some dflt))
  | _ => st.logError

/-- `getattr(self, f"process_{command}")(ctx, docstring)`; the two-argument call of `process_generic_command`
    is a `TypeError` -/
def runProc (cfg : Cfg) (p : Proc) (st : AggState) (cmd : Cmd) (doc : Str) : AggM AggState :=
  match p with
  | .function => processDef cfg false st cmd doc
  | .macro => processDef cfg true st cmd doc
  | .cmakeParseArguments => pure (processCpa st)
  | .ctAddTest => pure (processCtTest false st cmd doc)
  | .ctAddSection => pure (processCtTest true st cmd doc)
  | .set => pure (processSet st cmd doc)
  | .cppClass => pure (processCppClass st cmd doc)
  | .cppMember => pure (processCppMember false st cmd doc)
  | .cppConstructor => pure (processCppMember true st cmd doc)
  | .cppAttr => pure (processCppAttr st cmd doc)
  | .addTest => pure (processAddTest st cmd doc)
  | .option => pure (processOption st cmd doc)
  | .genericCommand => throw .typeError

/-- `enterDocumented_command` (without the `enterCommand_invocation` the walker issues next) -/
def enterDocumented (cfg : Cfg) (st : AggState) (docText : Str) (cmd : Cmd) : AggM AggState :=
  let doc := cleanDoc docText
  let command := asciiLower cmd.name
  match procOf command with
  | some p => runProc cfg p st cmd doc
  | none => pure (st.push (.generic command doc (argTexts cmd.args)))

/-- the branch of `enterCommand_invocation` taken when a definition is claimed by the awaiting entry -/
def claimDefinition (cfg : Cfg) (st : AggState) (ref : AwaitRef) (isMacro : Bool) (cmd : Cmd) : AggState :=
  let docd := match ref with
    | .entry idx => st.documented.modify idx (defineEntry isMacro (cmd.singles.drop 2))
    | .method ci isCtor pos =>
      st.documented.modify ci (defineMethodIn isCtor pos isMacro ((cmd.singles.map cfg.stripMember).drop 2))
  { st with documented := docd, awaiting := none, defStack := none :: st.defStack }

/-- `enterCommand_invocation`; `consumed` = the context was already handled through its doccomment -/
def enterCommand (cfg : Cfg) (st : AggState) (consumed : Bool) (cmd : Cmd) : AggM AggState :=
  let command := asciiLower cmd.name
  let isDef := command = lit "function" ∨ command = lit "macro"
  if command = lit "cpp_class" ∧ cfg.inclCppClass = false then
    pure { st with classStack := none :: st.classStack }
  else if command = lit "cpp_end_class" then
    match st.classStack with
    | [] => throw .indexError
    | _ :: rest => pure { st with classStack := rest }
  else if command = lit "cmake_parse_arguments" then pure (processCpa st)
  else if isDef ∧ st.awaiting.isSome then
    match st.awaiting with
    | some ref =>
      -- a definition with a doccomment of its own (`consumed`) has already pushed its entry on the definition stack
      let st' := claimDefinition cfg st ref (command = lit "macro") cmd
      pure (if consumed then { st' with defStack := st.defStack } else st')
    | none => pure st
  else if command = lit "endfunction" ∨ command = lit "endmacro" then
    match st.defStack with
    | [] => throw .indexError
    | _ :: rest => pure { st with defStack := rest }
  else if command ≠ lit "set" ∧ !consumed then
    match procOf command with
    | none => pure st
    | some p =>
      match cfg.include p with
      | none => throw .keyError
      | some true => runProc cfg p st cmd []
      | some false => if isDef then pure { st with defStack := none :: st.defStack } else pure st
  else pure st

/-- what the tree walker delivers, in document order -/
inductive Event where
  | moduleDoc (tokenText : Str)            -- `documented_module`
  | docCmd (docText : Str) (cmd : Cmd)     -- `documented_command`
  | cmd (cmd : Cmd)                        -- bare `command_invocation`
  | dangling                               -- bare `bracket_doccomment` (warning only)
deriving Repr, Inhabited

def step (cfg : Cfg) (st : AggState) : Event → AggM AggState
  | .moduleDoc t => let (n, d) := moduleNameDoc t; pure (st.push (.module n d))
  | .docCmd d c => do
      let st ← enterDocumented cfg st d c
      enterCommand cfg st true c
  | .cmd c => enterCommand cfg st false c
  | .dangling => pure st

def aggregate (cfg : Cfg) (evs : List Event) : AggM AggState := evs.foldlM (step cfg) {}

/-! ### `documenter.py: Documenter.process_docs` -/

def isModule : Entry → Bool
  | .module .. => true
  | _ => false

/-- fill in the path-derived name of unnamed module entries -/
def nameModule (modName : Str) : Entry → Entry
  | .module n d => if n.isEmpty then .module modName d else .module n d
  | e => e

/-- the title after the loop over `module_docs` (the last named module doccomment wins) -/
def titleOf (title : Str) : List Entry → Str
  | [] => title
  | .module n _ :: es => titleOf (if n.isEmpty then title else n) es
  | _ :: es => titleOf title es

/-- `process_docs`: entries in list order, a path-named module entry inserted in front when there is none -/
def processDocs (hc title modName : Str) (docs : List Entry) : Doc :=
  let docs' := if docs.any isModule then docs else .module modName [] :: docs
  { hc, title := titleOf title docs, body := (docs'.map (nameModule modName)).map Entry.toElem }

end Cminx
