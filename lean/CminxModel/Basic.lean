def hello := "world"
