import CminxModel.Str
/-!
# L2 — `rstwriter.py`

The document tree an `RSTWriter` holds, and `to_text()`.
Modelled: `Paragraph`, `Field`, `RSTList` (both kinds), `Heading`, `DirectiveHeading`, `Option`,
`get_indents`, `RSTWriter.text/field/bulleted_list/enumerated_list/directive/title/clear/to_text`,
`Directive.option/to_text`.  Not modelled (never used by the pipeline, outside C20's quantifier):
`section`, `doctest`, `simple_table`.
-/
namespace Cminx

/-- an element of `RSTWriter.document[1:]` -/
inductive Elem where
  | para (text : Str)
  | field (name text : Str)
  | list (enumerated : Bool) (items : List Str)
  | directive (name : Str) (args : List Str) (opts : List (Str × Str)) (body : List Elem)
deriving Repr, Inhabited

/-- `get_indents(d)` -/
def indent (d : Nat) : Str := List.replicate (3 * d) ' '

/-- `Paragraph.build_text_string` -/
def renderPara (d : Nat) (text : Str) : Str := joinNl ((splitNl text).map (indent d ++ ·))

/-- `Field.build_field_string` -/
def renderField (d : Nat) (name text : Str) : Str :=
  '\n' :: (indent d ++ ':' :: (name ++ ':' :: ' ' :: text))

/-- items of `RSTList.build_list_string`; `i` is the zero-based index of the first item -/
def renderItems (d : Nat) (enumerated : Bool) : Nat → List Str → Str
  | _, [] => []
  | i, it :: its =>
    indent d ++ (if enumerated then natStr (i + 1) ++ ['.', ' '] else ['*', ' ']) ++ it ++ '\n' ::
      renderItems d enumerated (i + 1) its

def renderList (d : Nat) (enumerated : Bool) (items : List Str) : Str :=
  '\n' :: renderItems d enumerated 0 items

/-- `Option.build_option_string` followed by the `"\n"` `Directive.to_text` appends; options live at the body's depth -/
def renderOpts (d : Nat) : List (Str × Str) → Str
  | [] => []
  | (n, v) :: os => indent d ++ ':' :: (n ++ ':' :: ' ' :: v) ++ '\n' :: renderOpts d os

/-- `DirectiveHeading.build_heading_string`; `format_arguments` joins with `,` -/
def renderDirHeading (d : Nat) (name : Str) (args : List Str) : Str :=
  '\n' :: (indent d ++ lit ".. " ++ name ++ lit ":: " ++ joinWith [','] args)

mutual
/-- `str(element)` for an element held by a writer whose `indent` is `d` -/
def Elem.render (d : Nat) : Elem → Str
  | .para t => renderPara d t
  | .field n t => renderField d n t
  | .list en items => renderList d en items
  | .directive name args opts body =>
      renderDirHeading d name args ++ '\n' :: renderOpts (d + 1) opts
        ++ (if body.isEmpty then [] else ['\n']) ++ renderElems (d + 1) body
/-- the loop `for element in document[1:]: s += f"{element}\n"` -/
def renderElems (d : Nat) : List Elem → Str
  | [] => []
  | e :: es => e.render d ++ '\n' :: renderElems d es
end

/-- `Heading.build_heading_string`: the header string once per code point of the title -/
def renderHeading (hc title : Str) : Str :=
  let bar := repeatStr hc title.length
  '\n' :: (bar ++ '\n' :: (title ++ '\n' :: bar))

/-- a top-level `RSTWriter` (section level 0, indent 0) -/
structure Doc where
  hc : Str                 -- `heading_level_chars[0]`
  title : Str
  body : List Elem
deriving Repr, Inhabited

/-- `RSTWriter.to_text()` -/
def Doc.render (w : Doc) : Str := renderHeading w.hc w.title ++ '\n' :: renderElems 0 w.body

/-! ## API histories (C20): operations addressed by handle paths

A handle is the path of child indices from the root writer to a directive. -/

inductive Op where
  | text (h : List Nat) (t : Str)
  | field (h : List Nat) (n t : Str)
  | list (h : List Nat) (enumerated : Bool) (items : List Str)
  | directive (h : List Nat) (name : Str) (args : List Str)
  | option (h : List Nat) (n v : Str)
  | setTitle (h : List Nat) (t : Str)
  | clear (h : List Nat)
deriving Repr

/-- what an operation does to the node a handle points at; `none` = the API has no such call on that node
    (`option` on the root writer) -/
inductive NodeOp where
  | append (e : Elem) | addOpt (n v : Str) | setTitle (t : Str) | clear

mutual
/-- apply `nop` to the directive reached from element `e` through `path` -/
def Elem.update (nop : NodeOp) : List Nat → Elem → Elem
  | [], .directive name args opts body =>
    (match nop with
     | .append e => .directive name args opts (body ++ [e])
     | .addOpt n v => .directive name args (opts ++ [(n, v)]) body
     | .setTitle t => .directive t args opts body
     | .clear => .directive name args opts [])
  | i :: path, .directive name args opts body => .directive name args opts (updateAt nop i path body)
  | _, e => e
def updateAt (nop : NodeOp) : Nat → List Nat → List Elem → List Elem
  | _, _, [] => []
  | 0, path, e :: es => e.update nop path :: es
  | i + 1, path, e :: es => e :: updateAt nop i path es
end

def Doc.update (w : Doc) (nop : NodeOp) : List Nat → Doc
  | [] => (match nop with
     | .append e => { w with body := w.body ++ [e] }
     | .addOpt _ _ => w
     | .setTitle t => { w with title := t }
     | .clear => { w with body := [] })
  | i :: path => { w with body := updateAt nop i path w.body }

def Op.handle : Op → List Nat
  | .text h _ | .field h _ _ | .list h _ _ | .directive h _ _ | .option h _ _ | .setTitle h _ | .clear h => h

def Op.nodeOp : Op → NodeOp
  | .text _ t => .append (.para t)
  | .field _ n t => .append (.field n t)
  | .list _ en items => .append (.list en items)
  | .directive _ name args => .append (.directive name args [] [])
  | .option _ n v => .addOpt n v
  | .setTitle _ t => .setTitle t
  | .clear _ => .clear

def Doc.apply (w : Doc) (op : Op) : Doc := w.update op.nodeOp op.handle

def Doc.run (w : Doc) (ops : List Op) : Doc := ops.foldl Doc.apply w

end Cminx
