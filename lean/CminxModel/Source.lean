import CminxModel.Parse
/-!
# L5' — decorated abstract syntax of a CMake module and its printer

Written from cmake-language(7) plus CMinx's doccomment convention, *not* from CMinx's grammar.
The tree carries its layout (every inter-token separator, doc-block indentation, line-ending style, the
command name as spelled); `render` prints it.  Two trees with the same `Item.skeleton` are layout variants of
one module.  The harness generates these trees and feeds `render`'s output to the real code, so the printer
the theorems talk about is the printer that produces the test inputs.
-/
namespace Cminx

/-- one piece of inter-token filler -/
inductive SepAtom where
  | spaces (n : Nat)
  | tabs (n : Nat)
  | nl (crlf : Bool)
  | lineComment (text : Str) (eol : Option Bool)   -- `#text` + LF (`some false`) / CRLF (`some true`) / end of file (`none`)
  | bracketComment (level : Nat) (text : Str)      -- `#[=*[text]=*]`
deriving Repr, DecidableEq, Inhabited

abbrev Sep := List SepAtom

def eolStr (crlf : Bool) : Str := if crlf then ['\r', '\n'] else ['\n']
def bracketOpen (lvl : Nat) : Str := '[' :: (List.replicate lvl '=' ++ ['['])
def bracketClose (lvl : Nat) : Str := ']' :: (List.replicate lvl '=' ++ [']'])

def SepAtom.render : SepAtom → Str
  | .spaces n => List.replicate n ' '
  | .tabs n => List.replicate n '\t'
  | .nl crlf => eolStr crlf
  | .lineComment t eol => '#' :: (t ++ (match eol with | some c => eolStr c | none => []))
  | .bracketComment lvl t => '#' :: (bracketOpen lvl ++ t ++ bracketClose lvl)

def renderSep : Sep → Str
  | [] => []
  | a :: as => a.render ++ renderSep as

/-- an argument token by its content -/
inductive ArgTok where
  | bare (s : Str)                   -- Identifier / unquoted argument, as written (escapes included)
  | quoted (s : Str)                 -- the text between the quotes, as written
  | bracket (lvl : Nat) (s : Str)    -- the text between `[=*[` and `]=*]`
deriving Repr, DecidableEq, Inhabited

/-- the token text, which is also what `getText()` returns for the argument -/
def ArgTok.text : ArgTok → Str
  | .bare s => s
  | .quoted s => '"' :: (s ++ ['"'])
  | .bracket lvl s => bracketOpen lvl ++ s ++ bracketClose lvl

/-- an argument with the separator that precedes it -/
inductive SArg where
  | tok (pre : Sep) (t : ArgTok)
  | group (pre : Sep) (args : List SArg) (close : Sep)     -- `( … )`, `close` precedes the `)`
deriving Repr, Inhabited

mutual
def SArg.render : SArg → Str
  | .tok pre t => renderSep pre ++ t.text
  | .group pre args close => renderSep pre ++ '(' :: (renderSArgs args ++ renderSep close ++ [')'])
def renderSArgs : List SArg → Str
  | [] => []
  | a :: as => a.render ++ renderSArgs as
end

mutual
/-- the parse-tree argument (layout erased) -/
def SArg.toArg : SArg → Arg
  | .tok _ t => .single t.text
  | .group _ args _ => .compound (toArgs args)
def toArgs : List SArg → List Arg
  | [] => []
  | a :: as => a.toArg :: toArgs as
end

/-- a command invocation with its layout -/
structure Call where
  pre : Sep            -- filler before the command name
  name : Str           -- as spelled
  sp : Nat             -- blanks between the name and `(`
  args : List SArg
  close : Sep          -- filler before `)`
deriving Repr, Inhabited

def Call.render (c : Call) : Str :=
  renderSep c.pre ++ c.name ++ List.replicate c.sp ' ' ++ '(' :: (renderSArgs c.args ++ renderSep c.close ++ [')'])

def Call.toCmd (c : Call) : Cmd := ⟨c.name, toArgs c.args⟩

/-- a doccomment in the form the documentation prescribes -/
structure DocC where
  pre : Sep            -- filler before the block
  ind : Str            -- the block's uniform indentation (blanks/tabs)
  openSuffix : Str     -- rest of the opening line after `#[[[` (`[]`, or ` @module name`)
  lines : List Str     -- body lines (text after the leader)
  leader : Bool        -- `true`: every body line is `ind # text`; `false`: leaderless (`text` alone, `ind = []`)
  crlf : Bool          -- line endings inside the block
deriving Repr, Inhabited

def DocC.bodyLine (d : DocC) (t : Str) : Str :=
  if d.leader then d.ind ++ '#' :: (if t.isEmpty then [] else ' ' :: t) else t

/-- the text of the `Docstring` / `Module_docstring` token -/
def DocC.tokenText (d : DocC) : Str :=
  let eol := eolStr d.crlf
  docStart ++ d.openSuffix ++ eol ++ (d.lines.map (fun t => d.bodyLine t ++ eol)).flatten ++ d.ind ++ docEnd

def DocC.render (d : DocC) : Str := renderSep d.pre ++ d.ind ++ d.tokenText

def renderDocOpt : Option DocC → Str
  | some d => d.render
  | none => []

/-- file elements with nesting; the *kind* of a command is determined by its lower-cased name, as in CMake -/
inductive Item where
  | cmd (doc : Option DocC) (call : Call)
      -- a single command: set / option / add_test / cpp_attr / cmake_parse_arguments / anything else
  | block (doc : Option DocC) (opener : Call) (body : List Item) (closer : Call)
      -- function…endfunction, macro…endmacro, cpp_class…cpp_end_class, if…endif, foreach…endforeach, while…endwhile
  | decl (doc : Option DocC) (declCall : Call) (impl : Call) (body : List Item) (closer : Call)
      -- cpp_member / cpp_constructor / ct_add_test / ct_add_section immediately followed by its implementing
      -- function/macro definition
  | dangling (d : DocC)
      -- a doccomment not followed by a command (the next element is another doccomment or the end of file)
deriving Repr, Inhabited

mutual
def Item.render : Item → Str
  | .cmd doc call => renderDocOpt doc ++ call.render
  | .block doc o body c => renderDocOpt doc ++ o.render ++ renderSrcItems body ++ c.render
  | .decl doc d i body c => renderDocOpt doc ++ d.render ++ i.render ++ renderSrcItems body ++ c.render
  | .dangling d => d.render
def renderSrcItems : List Item → Str
  | [] => []
  | i :: is => i.render ++ renderSrcItems is
end

structure Module where
  bom : Bool                 -- file starts with a UTF-8 byte-order mark
  modDoc : Option DocC       -- `#[[[ @module …` doccomment, first token of the file
  items : List Item
  tail : Sep                 -- filler after the last element
deriving Repr, Inhabited

def Module.render (m : Module) : Str :=
  (if m.bom then [Char.ofNat 0xFEFF] else []) ++ renderDocOpt m.modDoc ++ renderSrcItems m.items ++ renderSep m.tail

/-! ## what the parser should deliver for a module: the listener events in document order -/

def docEvent (doc : Option DocC) (c : Call) : Event :=
  match doc with
  | some d => .docCmd d.tokenText c.toCmd
  | none => .cmd c.toCmd

mutual
def Item.events : Item → List Event
  | .cmd doc call => [docEvent doc call]
  | .block doc o body c => docEvent doc o :: (itemsEvents body ++ [.cmd c.toCmd])
  | .decl doc d i body c => docEvent doc d :: .cmd i.toCmd :: (itemsEvents body ++ [.cmd c.toCmd])
  | .dangling _ => [.dangling]
def itemsEvents : List Item → List Event
  | [] => []
  | i :: is => i.events ++ itemsEvents is
end

def Module.events (m : Module) : List Event :=
  (match m.modDoc with | some d => [Event.moduleDoc d.tokenText] | none => []) ++ itemsEvents m.items

end Cminx
