import CminxModel.Config
import CminxModel.CMakeWrap
/-!
# L8/L9 bridge — from the command line to the highest-priority configuration source

`main` gives argparse destinations the dotted names of the options (`dest="output.directory"`, …) and hands the namespace to
`confuse.Configuration.set_args(args, dots=True)`, which ignores attributes that are `None`: an option absent from the command line
does not exist in that source (so lower sources show through), an option present — also with an empty value — does.
`-r` is `store_true` with `default=None`: present = `True`, absent = unset (never `False`).  `-e` is `append`: absent = unset,
present = the list of all its values in order.  `files` and `settings` have no dotted destination and are not options.
-/
namespace Cminx

/-- the command-line source of `resolveMain`, from what the parser extracted -/
def cliSource (p : Parsed) : Source :=
  (match p.output with | some v => [(lit "output.directory", CVal.str v)] | none => []) ++
  (if p.recursive then [(lit "input.recursive", CVal.bool true)] else []) ++
  (match p.pfx with | some v => [(lit "rst.prefix", CVal.str v)] | none => []) ++
  (if p.excludes.isEmpty then [] else [(filtersKey, CVal.list (p.excludes.map CVal.str))])

/-- `main` from the argument vector to the settings handed to `document`: usage error (`none`), configuration error, or the
    input paths with the resolved options and the exclude patterns.  `sfile`: the content of the file named by `-s`, read by the
    caller (`none` when `-s` is absent), `user` the per-user file, `defaults` the packaged `config_default.yaml` -/
def mainSettings (argv : List Str) (sfile : Str → Source) (user defaults : Source) :
    Option (Except Str (List Str × List (Str × Option CVal) × List CVal)) :=
  match parseArgv argv {} with
  | none => none
  | some p =>
    let sf : Source := match p.settings with | some f => sfile f | none => []
    some (match resolveMain [cliSource p, sf, user, defaults] with
      | .error k => .error k
      | .ok (vals, filters) => .ok (p.files, vals, filters))

end Cminx
