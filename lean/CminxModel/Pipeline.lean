import CminxModel.Parse
/-!
# L6 — `documenter.py: Documenter.process` : decode → lex → parse → aggregate → `process_docs` → text
-/
namespace Cminx

inductive Err where
  | lex (pos : Nat)       -- token recognition error at this code-point index (after BOM removal)
  | parse                 -- the parser reported a syntax error
  | agg (e : AggErr)      -- an exception escaped a listener callback
  | noHeaders             -- `rst.headers` is empty: `heading_level_chars[0]` raises
deriving Repr, DecidableEq

/-- the `utf-8-sig` codec drops one leading U+FEFF -/
def dropBom : Str → Str
  | c :: cs => if c.toNat = 0xFEFF then cs else c :: cs
  | [] => []

/-- the `documented` list after the tree walk -/
def documentedOf (cfg : Cfg) (src : Str) : Except Err (List Entry) :=
  match lexAll (dropBom src) with
  | .error p => .error (.lex p)
  | .ok ts =>
    match parse (significant ts) with
    | none => .error .parse
    | some evs =>
      match aggregate cfg evs with
      | .error e => .error (.agg e)
      | .ok st => .ok st.documented

/-- `str(Documenter(file, title, module_name, settings).process())`.
    `RSTWriter.__init__` runs before anything is read, so an empty header list fails first. -/
def pipeline (cfg : Cfg) (headers : List Str) (title modName src : Str) : Except Err Str :=
  match headers with
  | [] => .error .noHeaders
  | hc :: _ =>
    match documentedOf cfg src with
    | .error e => .error e
    | .ok docs => .ok (processDocs hc title modName docs).render

end Cminx
