import CminxModel.Str
/-!
L7g — the exclusion patterns.  `cminx.document` compiles `settings.input.exclude_filters` with
`pathspec.PathSpec.from_lines(GitWildMatchPattern, …)` and asks `spec.match_file(<absolute path>)` for the
input path, for every sub-directory (`…/sub/`, with a trailing slash) and for every file of the walk.

This file models that third-party computation for pathspec 1.1.1 (`patterns/gitignore/spec.py`,
`patterns/gitignore/base.py`, `util.normalize_file`, `_backends/simple`): the pattern is normalised into
segments, translated into a regular expression, and the regular expression is searched in the normalised
path; the last pattern that matches decides.  The regular expressions pathspec emits use only a handful of
constructs, so the model carries its own tiny regular-expression semantics (`Re.m`, matching with a
continuation = Python's backtracking search as far as the *existence* of a match is concerned).

Outside the model, and reported as `unsupported`: range notation `[...]`.
-/
namespace Cminx
namespace Glob

/-- the character classes that occur in the emitted regular expressions -/
inductive CC where
  | lit (c : Char)      -- `re.escape(c)`
  | notSlash            -- `[^/]`
  | dot                 -- `.`  (no DOTALL: everything but a line feed)
  deriving Repr, DecidableEq

def CC.test : CC → Char → Bool
  | .lit c, x => x == c
  | .notSlash, x => x != '/'
  | .dot, x => x != '\n'

inductive Re where
  | eps
  | chr (p : CC)
  | seq (a b : Re)
  | alt (a b : Re)
  | star (p : CC)       -- `p*`
  | plus (p : CC)       -- `p+`
  | eol                 -- `$` without MULTILINE: at the end, or before a line feed that ends the string
  deriving Repr

/-- `p*` followed by the continuation `k` -/
def starK (p : CC) (k : Str → Bool) : Str → Bool
  | [] => k []
  | x :: xs => k (x :: xs) || (p.test x && starK p k xs)

/-- does `re`, started at the beginning of `s`, match a prefix after which `k` accepts the rest? -/
def Re.m : Re → (Str → Bool) → Str → Bool
  | .eps, k, s => k s
  | .chr p, k, s => match s with
    | [] => false
    | x :: xs => p.test x && k xs
  | .seq a b, k, s => a.m (b.m k) s
  | .alt a b, k, s => a.m k s || b.m k s
  | .star p, k, s => starK p k s
  | .plus p, k, s => match s with
    | [] => false
    | x :: xs => p.test x && starK p k xs
  | .eol, k, s => (s == [] || s == ['\n']) && k s

def Re.opt (a : Re) : Re := .alt a .eps

/-- `re.search` for an expression that does not start with `^`: try every start position -/
def searchFrom (re : Re) : Str → Bool
  | [] => re.m (fun _ => true) []
  | x :: xs => re.m (fun _ => true) (x :: xs) || searchFrom re xs

inductive GErr where
  | invalid        -- pathspec raises `GitIgnorePatternError` (CMinx does not catch it)
  | unsupported    -- range notation: not modelled
  deriving Repr, DecidableEq

/-- `_translate_segment_glob(seg, 'raise')` -/
def segGlob : Str → Except GErr Re
  | [] => .ok .eps
  | c :: r =>
    if c = '\\' then
      match r with
      | [] => .error .invalid
      | d :: r' => (segGlob r').map (Re.seq (.chr (.lit d)))
    else if c = '*' then (segGlob r).map (Re.seq (.star .notSlash))
    else if c = '?' then (segGlob r).map (Re.seq (.chr .notSlash))
    else if c = '[' then .error .unsupported
    else (segGlob r).map (Re.seq (.chr (.lit c)))

def splitSlash : Str → List Str
  | [] => [[]]
  | c :: r =>
    if c = '/' then [] :: splitSlash r
    else match splitSlash r with
      | [] => [[c]]
      | w :: ws => (c :: w) :: ws

def dstar : Str := ['*', '*']

/-- consecutive `**` segments collapse into one -/
def dedupStars : List Str → List Str
  | [] => []
  | a :: r =>
    match dedupStars r with
    | [] => [a]
    | b :: r' => if a = dstar ∧ b = dstar then b :: r' else a :: b :: r'

/-- the first two steps of `__normalize_segments` -/
def normHead (segs : List Str) : List Str :=
  match segs with
  | [] => []
  | s0 :: rest =>
    if s0 = [] then rest
    else if rest = [] ∨ rest = [[]] then (if s0 = dstar then segs else dstar :: segs)
    else segs

def lastToStars : List Str → List Str
  | [] => []
  | [a] => if a = [] then [dstar] else [a]
  | a :: r => a :: lastToStars r

inductive Compiled where
  | skip                                     -- `(None, None)`: blank, comment, `/`, bad range
  | pat (excl : Bool) (anchored : Bool) (re : Re)
  deriving Repr

/-- `__translate_segments`; `first`: `i == 0`; `needSlash` as in the code -/
def transSegs (isDir : Bool) : List Str → Bool → Bool → Except GErr Re
  | [], _, _ => .ok .eps
  | seg :: rest, first, needSlash =>
    if seg = dstar then
      if first then
        (transSegs isDir rest false needSlash).map (Re.seq (Re.opt (.seq (.plus .dot) (.chr (.lit '/')))))
      else if rest ≠ [] then
        (transSegs isDir rest false true).map (Re.seq (Re.opt (.seq (.chr (.lit '/')) (.plus .dot))))
      else .ok (.chr (.lit '/'))
    else
      match (if seg = ['*'] then Except.ok (Re.plus .notSlash) else segGlob seg) with
      | .error e => .error e
      | .ok g =>
        let lead : Re := if needSlash then .chr (.lit '/') else .eps
        if rest = [] then .ok (.seq lead (.seq g (.alt (.chr (.lit '/')) .eol)))
        else (transSegs isDir rest false true).map (fun t => Re.seq lead (.seq g t))

/-- `GitIgnoreSpecPattern.pattern_to_regex` (registered as `gitwildmatch`) -/
def compile (pattern : Str) : Except GErr Compiled :=
  let p0 : Str := if (['\\', ' '] : Str).reverse.isPrefixOf pattern.reverse then pattern else rstripWs pattern
  if p0 = [] then .ok .skip
  else if p0.head? = some '#' then .ok .skip
  else if p0 = ['/'] then .ok .skip
  else
    let (excl, p1) : Bool × Str := match p0 with
      | '!' :: r => (false, r)
      | _ => (true, p0)
    let orig := splitSlash p1
    let isDir : Bool := orig.getLast? = some []
    let s1 := normHead orig
    if s1 = [] then .error .invalid
    else
      let s3 := dedupStars (lastToStars s1)
      if s3 = [dstar] then
        .ok (.pat excl false (if isDir then .chr (.lit '/') else .chr .dot))
      else if s3 = [dstar, ['*']] then .ok (.pat excl false (.chr .dot))
      else if s3 = [dstar, ['*'], dstar] then .ok (.pat excl false (.chr (.lit '/')))
      else
        match transSegs isDir s3 true false with
        | .ok re => .ok (.pat excl true re)
        | .error .unsupported => .error .unsupported
        | .error .invalid => .error .invalid

/-- `util.normalize_file` on a POSIX system -/
def normalizeFile (s : Str) : Str :=
  match s with
  | '/' :: r => r
  | '.' :: '/' :: r => r
  | _ => s

def Compiled.hits : Compiled → Str → Bool
  | .skip, _ => false
  | .pat _ true re, s => re.m (fun _ => true) s
  | .pat _ false re, s => searchFrom re s

/-- `check_match_file`: the last pattern that matches decides -/
def verdict (pats : List Compiled) (s : Str) : Bool :=
  pats.foldl (fun acc p => match p with
    | .skip => acc
    | .pat excl _ _ => if p.hits s then excl else acc) false

def compileAll : List Str → Except GErr (List Compiled)
  | [] => .ok []
  | p :: ps => match compile p with
    | .error e => .error e
    | .ok c => (compileAll ps).map (c :: ·)

/-- `PathSpec.from_lines(GitWildMatchPattern, patterns).match_file(path)` -/
def matchFile (patterns : List Str) (path : Str) : Except GErr Bool :=
  (compileAll patterns).map (fun cs => verdict cs (normalizeFile path))

/-- the string CMinx hands to `match_file` for an entry of the walk: the absolute input directory (no trailing
slash), the path components below it, and a trailing slash for directories -/
def queryPath (absInput : Str) (rel : List Str) (isDir : Bool) : Str :=
  joinWith ['/'] (absInput :: rel) ++ (if isDir then ['/'] else [])

/-- the exclusion function of the walk (`Walk.lean` takes it as a parameter), computed from the patterns -/
def exclOf (cs : List Compiled) (absInput : Str) : List Str → Bool → Bool :=
  fun rel isDir => verdict cs (normalizeFile (queryPath absInput rel isDir))

end Glob
end Cminx
