/-!
# L0 — the Python `str` operations CMinx actually uses, over `List Char`

A Python `str` is a sequence of code points; `Str := List Char` is the same thing
(Lean's `Char` is a Unicode scalar value; lone surrogates are outside the model, see DESIGN §4).
Every function here is total, structural and free of `partial`/`unsafe`.
-/
namespace Cminx

abbrev Str := List Char

/-- `"lit".toList`, used for the literal text fragments of the templates. -/
@[inline] def lit (x : String) : Str := x.toList

/-- `s.split("\n")` — always at least one piece. -/
def splitNl : Str → List Str
  | [] => [[]]
  | c :: cs =>
    if c = '\n' then [] :: splitNl cs
    else match splitNl cs with
      | l :: ls => (c :: l) :: ls
      | [] => [[c]]          -- unreachable: `splitNl` never returns `[]` (`splitNl_ne_nil`)

/-- `sep.join(parts)` -/
def joinWith (sep : Str) : List Str → Str
  | [] => []
  | [l] => l
  | l :: l' :: ls => l ++ sep ++ joinWith sep (l' :: ls)

/-- `"\n".join(lines)` -/
def joinNl (ls : List Str) : Str := joinWith ['\n'] ls

/-- `s.lstrip(chars)` -/
def lstripSet (cs : List Char) (s : Str) : Str := s.dropWhile (fun c => cs.contains c)

/-- `s.rstrip(chars)` -/
def rstripSet (cs : List Char) (s : Str) : Str := (lstripSet cs s.reverse).reverse

/-- Python's `str.isspace()` for one code point (the set `str.strip()`/`lstrip()` without arguments removes). -/
def pyIsSpace (c : Char) : Bool :=
  let n := c.toNat
  (0x09 ≤ n && n ≤ 0x0D) || (0x1C ≤ n && n ≤ 0x20) || n == 0x85 || n == 0xA0 || n == 0x1680 ||
  (0x2000 ≤ n && n ≤ 0x200A) || n == 0x2028 || n == 0x2029 || n == 0x202F || n == 0x205F || n == 0x3000

/-- `s.lstrip()` -/
def lstripWs (s : Str) : Str := s.dropWhile pyIsSpace
/-- `s.rstrip()` -/
def rstripWs (s : Str) : Str := (s.reverse.dropWhile pyIsSpace).reverse
/-- `s.strip()` -/
def stripWs (s : Str) : Str := rstripWs (lstripWs s)

/-- `p` is a prefix of `s` (`s.startswith(p)`) -/
def startsWith (p s : Str) : Bool := p.isPrefixOf s

/-- `pat in s` -/
def isInfix (pat : Str) : Str → Bool
  | [] => pat.isEmpty
  | c :: cs => pat.isPrefixOf (c :: cs) || isInfix pat cs

/-- `s.replace(pat, rep)` for non-empty `pat` (left to right, non-overlapping).
`fuel` bounds the number of steps (each consumes at least one character); call with `s.length`. -/
def replaceAux (pat rep : Str) : Nat → Str → Str
  | 0, s => s
  | _, [] => []
  | fuel + 1, c :: cs =>
    if pat.isPrefixOf (c :: cs) then rep ++ replaceAux pat rep fuel ((c :: cs).drop pat.length)
    else c :: replaceAux pat rep fuel cs

def replaceAll (pat rep s : Str) : Str :=
  if pat.isEmpty then s else replaceAux pat rep s.length s

def asciiLowerChar (c : Char) : Char :=
  if 'A' ≤ c ∧ c ≤ 'Z' then Char.ofNat (c.toNat + 32) else c

/-- `s.lower()` on text that matches `[A-Za-z_][A-Za-z0-9_]*` (command names are `Identifier` tokens). -/
def asciiLower (s : Str) : Str := s.map asciiLowerChar

/-- `c * n` for a string `c` -/
def repeatStr (c : Str) : Nat → Str
  | 0 => []
  | n + 1 => c ++ repeatStr c n

/-- decimal `str(n)` -/
def natStr (n : Nat) : Str := (Nat.repr n).toList

/-- `xs[-1]` -/
def lastD (xs : List Str) : Str := xs.getLastD []

end Cminx
