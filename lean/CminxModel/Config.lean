import CminxModel.Str
/-!
# L8 — `__init__.py: main` (argparse destinations, `set_file`, `set_args`, `all_contents`) and `config.py`

The stacking itself is done by `confuse` (not modelled); what CMinx *decides* is modelled: the order of the
sources, the template (type) of every option, that exclude filters are concatenated rather than overridden, and
how a relative output directory is resolved.
-/
namespace Cminx

/-- a configuration value as YAML / argparse deliver it -/
inductive CVal where
  | bool (b : Bool)
  | str (s : Str)
  | int (n : Int)
  | list (xs : List CVal)
  | map                      -- a mapping (only `logging` is one; its content is not inspected)
deriving Repr, Inhabited, BEq

/-- the templates of `config_template` -/
inductive CType where
  | bool            -- `bool`                      : a YAML boolean, nothing else
  | str             -- `"."` / `confuse.String()`  : a string
  | optStr          -- `Optional(String())`        : a string (or absent)
  | strSeq          -- `confuse.StrSeq()`          : a list of strings, or one string split on whitespace
  | optList         -- `Optional(list)`            : a list
  | optFilename     -- `Optional(Filename(...))`   : a string
  | dict            -- `TypeTemplate(dict)`
deriving Repr, DecidableEq

def isStrVal : CVal → Bool
  | .str _ => true
  | _ => false

def CType.accepts : CType → CVal → Bool
  | .bool, .bool _ => true
  | .str, .str _ => true
  | .optStr, .str _ => true
  | .strSeq, .str _ => true
  | .strSeq, .list xs => xs.all isStrVal
  | .strSeq, .map => true        -- known finding K6: `StrSeq` iterates any iterable, a mapping yields its keys
  | .optList, .list _ => true
  | .optFilename, .str _ => true
  | .dict, .map => true
  | _, _ => false

/-- one configuration source: the options it sets (dotted paths) -/
abbrev Source := List (Str × CVal)

def Source.get (s : Source) (k : Str) : Option CVal := (s.find? (·.1 == k)).map (·.2)

/-- the value in effect: the first source, in priority order, that sets the option -/
def effective (sources : List Source) (k : Str) : Option CVal := sources.findSome? (·.get k)

/-- validated retrieval: a value of the wrong type in the winning source is an error, never a fallback -/
def resolveOpt (sources : List Source) (k : Str) (ty : CType) : Except Str (Option CVal) :=
  match effective sources k with
  | none => .ok none
  | some v => if ty.accepts v then .ok (some v) else .error k

/-- `list(settings["input"]["exclude_filters"].all_contents())`: all sources' lists, highest priority first -/
def allContents (sources : List Source) (k : Str) : List CVal :=
  (sources.filterMap (·.get k)).flatMap (fun v => match v with | .list xs => xs | _ => [])

/-- where a source came from, for resolving relative file names -/
structure Origin where
  fileDir : Option Str       -- directory of the YAML file, `none` for command-line arguments

/-- `Filename(cwd=os.getcwd())` vs. `Filename(in_source_dir=True)` for a relative path (joined with `/`, then normalised
    by `os.path.abspath`, which is not modelled) -/
def resolveDir (cwd : Str) (relativeToConfig : Bool) (origin : Origin) (isAbs : Bool) (path : Str) : Str :=
  if isAbs then path
  else if relativeToConfig then
    match origin.fileDir with
    | some d => d ++ '/' :: path
    | none => cwd ++ '/' :: path
  else cwd ++ '/' :: path

/-- index of the source that supplies the effective value -/
def winner (sources : List Source) (k : Str) : Option Nat :=
  (sources.findIdx? (fun s => (s.get k).isSome))

/-- the option table of `config_template` (the `logging` section is a single `dict`) -/
def optionTable : List (Str × CType) :=
  [ (lit "input.include_undocumented_function", .bool), (lit "input.include_undocumented_macro", .bool),
    (lit "input.include_undocumented_cpp_class", .bool), (lit "input.include_undocumented_cpp_attr", .bool),
    (lit "input.include_undocumented_cpp_constructor", .bool), (lit "input.include_undocumented_cpp_member", .bool),
    (lit "input.include_undocumented_ct_add_test", .bool), (lit "input.include_undocumented_add_test", .bool),
    (lit "input.include_undocumented_ct_add_section", .bool), (lit "input.include_undocumented_option", .bool),
    (lit "input.auto_exclude_directories_without_cmake", .bool), (lit "input.kwargs_doc_trigger_string", .optStr),
    (lit "input.exclude_filters", .optList), (lit "input.function_parameter_name_strip_regex", .optStr),
    (lit "input.macro_parameter_name_strip_regex", .optStr), (lit "input.member_parameter_name_strip_regex", .optStr),
    (lit "input.recursive", .bool), (lit "input.follow_symlinks", .bool),
    (lit "output.directory", .optFilename), (lit "output.relative_to_config", .bool),
    (lit "logging", .dict),
    (lit "rst.file_extensions_in_titles", .bool), (lit "rst.file_extensions_in_modules", .bool),
    (lit "rst.module_path_separator", .str), (lit "rst.headers", .strSeq), (lit "rst.prefix", .optStr) ]

/-- the whole resolution: every option of the table, or the first option whose effective value has the wrong type -/
def resolveAll (sources : List Source) : Except Str (List (Str × Option CVal)) :=
  optionTable.mapM (fun (k, ty) => do let v ← resolveOpt sources k ty; pure (k, v))

def filtersKey : Str := lit "input.exclude_filters"

def isListVal : CVal → Bool
  | .list _ => true
  | _ => false

/-- the loop of `main` over `settings["input"]["exclude_filters"].resolve()` (repair D13): the patterns are the union over
    *all* sources, so a value that is not a list is rejected in whichever source it stands — not only in the one that wins -/
def filtersWellTyped (sources : List Source) : Bool := (sources.filterMap (·.get filtersKey)).all isListVal

/-- `main` up to the call of `document`: template validation of every option (first failure wins), then the per-source check
    of the exclude filters, then their concatenation over the command line, the `-s` file and the user file -/
def resolveMain (sources : List Source) : Except Str (List (Str × Option CVal) × List CVal) :=
  match resolveAll sources with
  | .error k => .error k
  | .ok vals =>
    if filtersWellTyped sources then .ok (vals, allContents (sources.take 3) filtersKey) else .error filtersKey

end Cminx
