"""Per-property plans: which suites run at which size, how a violation is shrunk and replayed."""
import copy, random
import suites, shrink, impl, gen_modules as GM, oracle

PLANS = {}


# ---- module-based properties -------------------------------------------------------------------------------------
def _module_fails(prop, drv):
    def fails(v_or_m, cfg=None):
        m = v_or_m
        r = drv.run([dict(op='render', module=m)])[0]
        with impl.Sandbox() as sb:
            real = impl.real_pipeline(sb, r['src'], impl.make_settings(cfg, headers=['#']), 'T', 'M')
        model = drv.run([dict(op='pipeline', cfg=suites.model_cfg(m, cfg), headers=['#'], title='T', mod='M', src=r['src'])])[0]
        dis, vio, _ = suites.compare_case(prop, m, cfg, r['src'], model, real)
        return vio, dis, r['src'], real
    return fails


def module_shrink(prop):
    def go(v, drv):
        f = _module_fails(prop, drv); cfg = v['cfg']
        m = shrink.shrink_module(v['module'], lambda c: f(c, cfg)[0] is not None)
        vio, dis, src, real = f(m, cfg)
        if vio is None: return v
        return dict(v, module=m, source=src, detail=vio, model_agrees=dis is None, shrunk=True)
    return go


def module_replay(prop):
    def go(v, drv):
        vio, dis, src, real = _module_fails(prop, drv)(v['module'], v['cfg'])
        return dict(fails=vio is not None, source=src, detail=vio, real=real)
    return go


def module_plan(prop, quick, thorough, rule, extra_run=None, assumptions=()):
    def run(tier, seed, out, drv):
        n = quick if tier == 'quick' else thorough
        suites.module_suite(prop, seed, n, out, drv, budget_s=100 if tier == 'quick' else 1500)
        if extra_run: extra_run(tier, seed, out, drv)
    def search(tier, seed, out, drv, disagreements):
        # replay the disagreeing cases' neighbourhood: many more cases of the same profile under fresh seeds
        suites.module_suite(prop, seed + 7919, (quick if tier == 'quick' else thorough) * 4, out, drv,
                            budget_s=200 if tier == 'quick' else 1500)
    PLANS[prop] = dict(run=run, search=search, shrink=module_shrink(prop), replay=module_replay(prop), replay_kind='module',
                       rule=rule, assumptions=list(assumptions))


module_plan('C01', 250, 5000,
            "random decorated modules, doc-heavy profile (85% of items documented, hazard line alphabet, block indentation by "
            "spaces/tabs, leaderless blocks); non-trivial = at least one doccomment with a non-blank body line; distinct by case key")
module_plan('C02', 300, 8000,
            "random decorated modules, structure-heavy profile (nesting <= 4, dangling doccomments, generic commands, blocks, 15% "
            "malformed stream); non-trivial = >=3 undocumented and >=1 documented command")
module_plan('C03', 300, 8000,
            "random decorated modules, kwargs profile (definitions, cmake_parse_arguments at all placements, random trigger strings "
            "and strip patterns incl. ones matching the name); non-trivial = a definition plus a cmake_parse_arguments call or trigger hit")
module_plan('C08', 300, 6000,
            "random decorated modules x random subsets of the ten include_undocumented_* flags; non-trivial = some flag off and >=2 commands")
module_plan('C09', 300, 8000,
            "random decorated modules, class-heavy profile (sibling/nested classes, members/ctors/attrs, function or macro "
            "implementations with bodies, member strip patterns); non-trivial = a class with at least one member/attr/ctor")
module_plan('C10', 400, 8000,
            "random decorated modules, set/option profile (0..5 values in all argument forms, options with/without default); "
            "non-trivial = at least one set/option")
module_plan('C11', 400, 8000,
            "random decorated modules, test profile (NAME at every position, look-alike keywords, equal-to-name arguments, nested "
            "sections); non-trivial = at least one test command")
