"""Per-property plans: which suites run at which size, how a violation is shrunk and replayed."""
import copy, random
import suites, shrink, impl, gen_modules as GM, oracle

PLANS = {}


# ---- module-based properties -------------------------------------------------------------------------------------
def _module_fails(prop, drv):
    def fails(v_or_m, cfg=None):
        m = v_or_m
        r = drv.run([dict(op='render', module=m)])[0]
        with impl.Sandbox() as sb:
            real = impl.real_pipeline(sb, r['src'], impl.make_settings(cfg, headers=['#']), 'T', 'M')
        model = drv.run([dict(op='pipeline', cfg=suites.model_cfg(m, cfg), headers=['#'], title='T', mod='M', src=r['src'])])[0]
        dis, vio, _ = suites.compare_case(prop, m, cfg, r['src'], model, real)
        return vio, dis, r['src'], real
    return fails


def module_shrink(prop):
    def go(v, drv):
        f = _module_fails(prop, drv); cfg = v['cfg']
        m = shrink.shrink_module(v['module'], lambda c: f(c, cfg)[0] is not None)
        vio, dis, src, real = f(m, cfg)
        if vio is None: return v
        return dict(v, module=m, source=src, detail=vio, model_agrees=dis is None, shrunk=True)
    return go


def module_replay(prop):
    def go(v, drv):
        vio, dis, src, real = _module_fails(prop, drv)(v['module'], v['cfg'])
        return dict(fails=vio is not None, source=src, detail=vio, real=real)
    return go


def module_plan(prop, quick, thorough, rule, extra_run=None, assumptions=()):
    def run(tier, seed, out, drv):
        n = quick if tier == 'quick' else thorough
        suites.module_suite(prop, seed, n, out, drv, budget_s=100 if tier == 'quick' else 1500)
        if extra_run: extra_run(tier, seed, out, drv)
    def search(tier, seed, out, drv, disagreements):
        # replay the disagreeing cases' neighbourhood: many more cases of the same profile under fresh seeds
        suites.module_suite(prop, seed + 7919, (quick if tier == 'quick' else thorough) * 4, out, drv,
                            budget_s=200 if tier == 'quick' else 1500)
    PLANS[prop] = dict(run=run, search=search, shrink=module_shrink(prop), replay=module_replay(prop), replay_kind='module',
                       rule=rule, assumptions=list(assumptions))


def _c01_extra(tier, seed, out, drv):
    import s_clean
    s_clean.clean_suite(seed, 2000 if tier == 'quick' else 50000, out, drv)
    s_clean.l0_table_suite(out, drv)


module_plan('C01', 600, 12000,
            "random decorated modules, doc-heavy profile (85% of items documented, hazard line alphabet, block indentation by "
            "spaces/tabs, leaderless blocks); non-trivial = at least one doccomment with a non-blank body line; distinct by case key; "
            "plus clean_doc_lines itself on canonical / near-canonical / arbitrary line lists", extra_run=_c01_extra)
def _c02_extra(tier, seed, out, drv):
    """the dispatch table of the model must be the set of process_* methods / include_undocumented_* options the code has NOW"""
    import dataclasses
    from impl import DocumentationAggregator
    from cminx.config import InputSettings
    real_procs = sorted(n[len('process_'):] for n in dir(DocumentationAggregator) if n.startswith('process_'))
    real_flags = sorted(f.name[len('include_undocumented_'):] for f in dataclasses.fields(InputSettings) if f.name.startswith('include_undocumented_'))
    mo = drv.run([dict(op='procs')])[0]
    out.traces_validated += 1
    if sorted(mo['procs']) != real_procs or sorted(mo['flagged']) != real_flags:
        out.disagreements.append(dict(suite='dispatch-table', key='procs', detail=dict(kind='process_* methods / include flags', model=mo, real=dict(procs=real_procs, flagged=real_flags))))
    dispatch_collisions('C02', out, drv, real_procs, mo)


def dispatch_collisions(prop, out, drv, real_procs=None, mo=None):
    """commands are dispatched by `"process_" + name in dir(self)`: every method of the aggregator that happens to be called process_<x> turns the
    user command <x> into a special one (known finding K2 is the instance x = generic_command).  For every such name the model does not know, a
    file that calls a command of that name — valid CMake — is put through the real pipeline: it must be accepted (C05), and with a doccomment
    it must get its generic entry (C02)"""
    from impl import DocumentationAggregator
    if real_procs is None: real_procs = sorted(n[len('process_'):] for n in dir(DocumentationAggregator) if n.startswith('process_'))
    if mo is None: mo = drv.run([dict(op='procs')])[0]
    for name in sorted(set(real_procs) - set(mo['procs'])):
        for documented in (False, True):
            src = ('#[[[\n# About it.\n#]]\n' if documented else '') + f'{name}(alpha "b c")\nfunction(after_{name} x)\nendfunction()\n'
            with impl.Sandbox() as sb:
                real = impl.real_pipeline(sb, src, impl.make_settings({}, headers=['#']), 'T', 'M')
            out.traces_validated += 1; out.note_case((prop, 'dispatch', name, documented), True)
            rec = dict(suite='dispatch-collision', key=(prop, 'dispatch', name, documented), source=src)
            if 'rst' not in real:
                out.violations.append(dict(rec, detail=dict(kind='a valid file calling a user command named like a process_* method is rejected', command=name, real=real), model_agrees=False))
            elif documented and f'.. function:: {name}(' not in real['rst']:
                out.violations.append(dict(rec, detail=dict(kind='documented command without its generic entry', command=name, page=real['rst'][:600]), model_agrees=False))


module_plan('C02', 800, 20000,
            "random decorated modules, structure-heavy profile (nesting <= 4, dangling doccomments, generic commands, blocks, 15% "
            "malformed stream); non-trivial = >=3 undocumented and >=1 documented command; plus the dispatch table (process_* methods, "
            "include_undocumented_* fields) read off the code at run time", extra_run=_c02_extra)
def _c03_extra(tier, seed, out, drv):
    """the same property with the settings arriving the way a user's do: main() + a -s file, patterns drawn from the module's own text"""
    import s_modcli
    s_modcli.settings_path_suite('C03', seed, 80 if tier == 'quick' else 3000, out, drv, budget_s=40 if tier == 'quick' else 600)


module_plan('C03', 800, 20000,
            "random decorated modules, kwargs profile (definitions, cmake_parse_arguments at all placements, random trigger strings "
            "and strip patterns incl. ones matching the name); non-trivial = a definition plus a cmake_parse_arguments call or trigger hit; "
            "settings path: well-formed modules with definitions x trigger strings / strip patterns drawn from the module's own doccomments, "
            "parameters and names (white-space edges, padding, anchors, empty), given in a -s YAML file to the real main(); the page main() "
            "writes is compared with the API's page under the same settings and judged by the module's prescription", extra_run=_c03_extra)
def _c03_wrap():
    import s_modcli
    p = PLANS['C03']; mod = dict(p); mine = lambda v: v.get('suite') == 'settings-path'
    def search(tier, seed, out, drv, dis):
        if any(mine(d) for d in dis): s_modcli.settings_path_suite('C03', seed + 7919, 400, out, drv, budget_s=120)
        mod['search'](tier, seed, out, drv, dis)
    p.update(search=search, shrink=lambda v, drv: (s_modcli.shrink('C03') if mine(v) else mod['shrink'])(v, drv),
             replay=lambda v, drv: (s_modcli.replay('C03') if mine(v) else mod['replay'])(v, drv))
_c03_wrap()
def _c08_exhaustive(tier, seed, out, drv):
    """all 2^10 combinations of the include flags on a fixed family of modules that contain every kind documented and undocumented"""
    import itertools
    fam = []
    n = 0
    while len(fam) < (1 if tier == 'quick' else 12):
        g = random.Random(f"C08/family/{n}"); n += 1
        gen = GM.Gen(g, lg=random.Random(f"C08/family/{n}/l"), layout=1, p_doc=0.5, max_depth=3, max_items=7,
                     weights={'class': 3, 'member': 2.5, 'attr': 2.5, 'ctor': 2, 'cttest': 2, 'section': 2, 'add_test': 1.5, 'option': 1.5, 'dangling': 0.2})
        m = gen.module(moddoc=False)
        ks = suites.kinds_of(m)
        if GM.well_formed(m)[0] and sum(1 for k in ('function', 'macro', 'cpp_class', 'cpp_attr', 'cpp_member', 'ct_add_test', 'option', 'add_test') if ks[k]) >= 6:
            fam.append(m)
    with impl.Sandbox() as sb:
        for fi, m in enumerate(fam):
            cases = []
            for bits in itertools.product([True, False], repeat=len(GM.FLAGS)):
                cfg = {'incl': dict(zip(GM.FLAGS, bits)), 'trigger': ':param **kwargs:', 'regex': {'fn': '', 'macro': '', 'member': ''}}
                cases.append((('C08', 'exh', fi, ''.join('1' if b else '0' for b in bits)), m, cfg))
            for i in range(0, len(cases), 256):
                suites.run_cases('C08', cases[i:i + 256], out, drv, sb, 'exhaustive-flags')
    out.exhaustive = True
    out.suites.append(dict(name='exhaustive-flags', modules=len(fam), combinations_each=1024))


module_plan('C08', 800, 20000,
            "random decorated modules x random subsets of the ten include_undocumented_* flags, plus ALL 2^10 flag combinations on a fixed "
            "family of modules containing every kind documented and undocumented (quick: 1 module, thorough: 12); non-trivial = some flag off "
            "and >=2 commands", extra_run=_c08_exhaustive)
module_plan('C09', 700, 20000,
            "random decorated modules, class-heavy profile (sibling/nested classes, members/ctors/attrs, function or macro "
            "implementations with bodies, member strip patterns); non-trivial = a class with at least one member/attr/ctor")
module_plan('C10', 1000, 20000,
            "random decorated modules, set/option profile (0..5 values in all argument forms, options with/without default); "
            "non-trivial = at least one set/option")
module_plan('C11', 1000, 20000,
            "random decorated modules, test profile (NAME at every position, look-alike keywords, equal-to-name arguments, nested "
            "sections); non-trivial = at least one test command")


# ---- C20 -----------------------------------------------------------------------------------------------------------
import s_rst, s_rstfull


def _c20_run(tier, seed, out, drv):
    s_rst.rst_suite(seed, 1500 if tier == 'quick' else 40000, out, drv)
    s_rstfull.full_suite(seed, 1500 if tier == 'quick' else 40000, out, drv)
    s_rstfull.write_target_suite(out, drv)


def _c20_search(tier, seed, out, drv, dis):
    s_rst.rst_suite(seed + 7919, 6000 if tier == 'quick' else 60000, out, drv, max_ops=40)
    s_rstfull.full_suite(seed + 7919, 6000 if tier == 'quick' else 60000, out, drv, max_ops=40)


def _c20_shrink(v, drv): return (s_rstfull if v.get('suite') == 'rst-full' else s_rst).shrink(v, drv)
def _c20_replay(v, drv): return (s_rstfull if v.get('suite') == 'rst-full' else s_rst).replay(v, drv)


PLANS['C20'] = dict(run=_c20_run, search=_c20_search, shrink=_c20_shrink, replay=_c20_replay, replay_kind='rst-history',
                    rule="random API histories over handle paths (text incl. multi-line and leading-space paragraphs, field, bulleted/"
                         "enumerated list, directive, option, title change on writer and directives, clear, serialise), nesting <= 5; "
                         "non-trivial = >= 4 operations and at least one nested directive (or, in the full-API suite, at least one section); "
                         "purity = pickle equality around each to_text(). Full-API suite (RstFull.lean): the same plus sections on writers, "
                         "sections and directives (heading character by section level; header lists of 1-10 entries incl. repeated and "
                         "multi-character ones; levels beyond the list raise), doctests, simple tables (also ragged/empty ones and wrong "
                         "heading counts, which the constructor rejects); 'core' stream (inside the quantifier) judged by a reference "
                         "renderer, 'ext' stream by purity, order of uniquely marked elements and the frame of every section title",
                    assumptions=["the text of doctests and simple tables, and sections opened below a directive (reST has none; the nested writer "
                                 "starts at indent 0 again), are modelled and compared but are outside the property's quantifier: a difference "
                                 "there breaks the correspondence, it is not reported as a failing input",
                                 "purity and repeatability of the Python object are established by the correspondence (pickle equality), not by a theorem"])


# ---- tree-level properties ---------------------------------------------------------------------------------------------
import s_treeprops


def tree_plan(prop, quick, thorough, rule, assumptions=()):
    def run(tier, seed, out, drv):
        s_treeprops.tree_suite(prop, seed, quick if tier == 'quick' else thorough, out, drv, budget_s=120 if tier == 'quick' else 1500)
        if prop in ('C14', 'C15'): s_treeprops.T.alias_suite(prop, seed, 50 if tier == 'quick' else 1200, out, drv, budget_s=40 if tier == 'quick' else 500)      # C15: a pattern that excludes a directory says nothing about another name for it
        if prop in ('C13', 'C18'): s_treeprops.odd_inputs_suite(prop, out, drv)
        if prop == 'C12': s_treeprops.documenter_defaults_suite(out, drv)
        if prop in ('C12', 'C15'):
            import s_clean
            s_clean.l0_table_suite(out, drv)
        if prop == 'C15':
            import s_glob
            s_glob.glob_suite(prop, seed, tier, out, drv)
        if prop in ('C13', 'C18', 'C15'):
            import s_cli
            s_cli.cli_suite(prop, seed, 25 if tier == 'quick' else 600, out, drv)
    def search(tier, seed, out, drv, dis):
        s_treeprops.tree_suite(prop, seed + 7919, (quick if tier == 'quick' else thorough) * 3, out, drv, budget_s=240 if tier == 'quick' else 1500)
    PLANS[prop] = dict(run=run, search=search, replay=s_treeprops.replay(prop), replay_kind='tree', rule=rule, assumptions=list(assumptions))


TREE_ASSUME = ["the walk model takes the exclusion predicate as a parameter: its bits are obtained by calling pathspec with exactly the strings CMinx builds; "
               "pathspec's gitwildmatch translation itself is modelled in Glob.lean (range notation excepted) and compared with pathspec in the C15 check",
               "os.walk/scandir/makedirs/open and the file system are trusted; listing orders are imposed through a harness-side os.walk wrapper",
               "the Lean FsNode has no link constructor: symbolic links are resolved by the harness before the model sees the tree (a link to a "
               "regular file = that file; a link to a directory = that directory when input.follow_symlinks is on, absent otherwise); the real "
               "code runs on the real links. Special files, link cycles, non-ASCII case mappings in file names and trees that change during the "
               "run are not modelled"]
tree_plan('C13', 150, 4000, "random directory trees (depth<=3, mixed-case extensions, dotted/dashed names, empty and non-CMake directories) x recursive x "
          "auto-exclusion x prefixes x pattern sets x output locations (absolute, relative, nested in the input); non-trivial = at least 2 files written",
          TREE_ASSUME)
tree_plan('C14', 150, 4000, "as C13 with the closure profile (pattern-excluded, auto-excluded and emptied sub-directories); the oracle resolves every "
          "toctree entry of every real index.rst and walks reachability from the top index; non-trivial = at least 2 files written; "
          "alias suite: the same trees with followed links between their own directories (siblings and cousins, several links to one target, "
          "never to an ancestor)", TREE_ASSUME)
tree_plan('C15', 100, 2500, "random trees x pattern sets (bare names, trailing slash, *, **, absolute paths, negation, several patterns hitting adjacent "
          "siblings or every CMake file of a directory) x 4 listing orders each; non-trivial = patterns present and at least 2 files written; "
          "glob suite: Glob.lean (the model the C15G theorems are about) against pathspec on random pattern lists x path strings, and on every "
          "(string, answer) pair observed at PathSpec.match_file during real cminx.document() runs, with the model's queryPath/exclOf for that entry; "
          "command-line suite: patterns spread over -e, the -s file and the user file, started from working directories in which the names exist", TREE_ASSUME)
tree_plan('C12', 150, 4000, "random trees and lone files x prefixes x separators (. / :: -) x both extension options x custom header lists x input spelled "
          "absolute/relative/'.'; module doccomments named and unnamed; non-trivial = at least 2 files written", TREE_ASSUME)
tree_plan('C18', 120, 3000, "random trees and lone files with output absolute / relative / nested in the input / pre-populated / absent (stdout), sandbox "
          "snapshot (path, sha256) before and after; stdout compared with the pages of the -o run; non-trivial = at least 2 files written or a page printed",
          TREE_ASSUME)


# ---- text-level properties C04, C05, C06 -------------------------------------------------------------------------------
import s_text

TEXT_ASSUME = ["the ANTLR runtime's lexer/parser semantics for this grammar are modelled by hand (Lex.lean, Parse.lean) and validated token for "
               "token, including skipped tokens and error positions, against the generated lexer on random, exhaustive and corpus inputs",
               "lexical and syntactic errors are compared as one class (ANTLR's lazy token look-ahead decides which is reported first)"]


def _c04_run(tier, seed, out, drv):
    q = tier == 'quick'
    s_text.family_suite(seed, 120 if q else 3000, 4 if q else 8, out, drv, budget_s=70 if q else 1200)
    s_text.lex_suite('C04', seed, 1500 if q else 30000, out, drv, exhaustive_len=3 if q else 5, corpus_files=15 if q else 300)


def _c04_search(tier, seed, out, drv, dis):
    s_text.family_suite(seed + 7919, 500 if tier == 'quick' else 3000, 6, out, drv, budget_s=200 if tier == 'quick' else 1200)
    suites.module_suite('C04', seed + 7919, 600, out, drv, budget_s=100)


PLANS['C04'] = dict(run=_c04_run, search=_c04_search, replay=s_text.family_replay, replay_kind='layout-family',
                    rule="one abstract module rendered under k layouts (canonical, mild, wild: any amount/kind of filler incl. comments that look "
                         "like code or doccomment delimiters, arguments spread over lines, tabs/spaces, doc-block re-indentation, command-name "
                         "case) plus the CRLF conversion, all fed to the real pipeline and compared byte-wise (CRLF modulo '\\r' and blank lines); "
                         "plus scanner model vs ANTLR on random strings, all strings up to a length over a 12-symbol alphabet, and shipped CMake "
                         "modules; non-trivial = module with >= 2 commands", assumptions=TEXT_ASSUME)


def _c05_run(tier, seed, out, drv):
    q = tier == 'quick'
    s_text.accept_suite(seed, 300 if q else 6000, out, drv, budget_s=60 if q else 1200)
    s_text.corpus_suite(60 if q else 1100, seed, out, drv)
    s_text.lex_suite('C05', seed, 1500 if q else 30000, out, drv, exhaustive_len=0 if q else 5)
    s_text.cmake_trace_suite(seed, 150 if q else 4000, out, drv)
    s_text.big_file_suite(seed, 6 if q else 60, out, drv)
    dispatch_collisions('C05', out, drv)
    s_text.charclass_suite('C05', seed, out, drv, full=not q)


def _c05_search(tier, seed, out, drv, dis):
    s_text.accept_suite(seed + 7919, 1500, out, drv, budget_s=240)


PLANS['C05'] = dict(run=_c05_run, search=_c05_search, replay=s_text.accept_replay, replay_kind='module',
                    rule="grammar-driven decorated modules (every argument form x special characters x comment shapes adjacent to arguments, "
                         "wild layouts): real parse tree's command/argument lists vs the abstract module, real pipeline must finish; CMake's own "
                         "raw argument lists (--trace-format=json-v1) as independent reference; the .cmake modules shipped with CMake 3.25; "
                         "scanner model vs ANTLR on random strings", assumptions=TEXT_ASSUME + [
                             "legacy unquoted arguments, the degenerate argument `[=`, recursion-limit nesting and non-UTF-8 input are outside the guarantee"])


def _c06_run(tier, seed, out, drv):
    q = tier == 'quick'
    s_text.fault_suite(seed, 12 if q else 400, out, drv, budget_s=80 if q else 1500, pairs=not q)
    s_text.cli_fault_suite(seed, 15 if q else 60, out, drv)
    s_text.lex_suite('C06', seed, 800 if q else 20000, out, drv)


def _c06_search(tier, seed, out, drv, dis):
    s_text.fault_suite(seed + 7919, 60, out, drv, budget_s=240, pairs=True)


PLANS['C06'] = dict(run=_c06_run, search=_c06_search, replay=s_text.fault_replay, replay_kind='text',
                    rule="every fault kind (stray/unterminated quote, backslash before alphanumeric or at EOF, unterminated #[[ / #[=[, extra/"
                         "missing parenthesis, bare word) inserted at EVERY character position outside comments of generated valid modules (and "
                         "deletion of every parenthesis/quote); thorough: also random pairs of faults; the real Documenter must raise iff the "
                         "model errs; CLI runs of main() on faulty files must exit non-zero and leave no page; non-trivial = faulty file the "
                         "model rejects", assumptions=TEXT_ASSUME)


# ---- C07 --------------------------------------------------------------------------------------------------------------
import s_rstcheck


def _c07_run(tier, seed, out, drv):
    s_rstcheck.c07_suite(seed, 400 if tier == 'quick' else 5000, out, drv, budget_s=90 if tier == 'quick' else 1500)


def _c07_search(tier, seed, out, drv, dis):
    s_rstcheck.c07_suite(seed + 7919, 1000, out, drv, budget_s=240)


PLANS['C07'] = dict(run=_c07_run, search=_c07_search, replay=s_rstcheck.replay, replay_kind='module',
                    rule="random decorated modules whose doc texts are composed from valid reST blocks (paragraphs, field lists, bullet/"
                         "enumerated lists, literal blocks, nested note/warning/code directives with indented bodies), every entry kind, class "
                         "nesting <= 3, single-line arguments; the REAL output is parsed by docutils 0.23 with stub directives/roles; "
                         "non-trivial = at least one documented item",
                    assumptions=["'docutils reports no error-level message' is a statement about docutils' parser, which no model here expresses: "
                                 "the theorems cover containment, order and indentation (indent homomorphism); acceptance is validated by "
                                 "parsing the real output, not proved", "Sphinx is not installed: module/function/data/py:* directives and the "
                                 "class/code roles are stubs that parse their content as nested body"])


# ---- C16 --------------------------------------------------------------------------------------------------------------
import s_config


def _c16_run(tier, seed, out, drv):
    s_config.config_suite(seed, tier, out, drv)
    import s_argv       # the command line as a source: parseArgv + cliSource against the real parse_args / set_args
    s_argv.argv_suite('C16', seed, 1500 if tier == 'quick' else 40000, out, drv)


PLANS['C16'] = dict(run=_c16_run, replay=s_config.replay, replay_kind='config',
                    rule="EXHAUSTIVE: every option of the input/output/rst sections x every subset of the sources that can set it (user file, -s "
                         "file, command-line flag) with distinct values (+ relative_to_config for the directory); every wrong-typed value per "
                         "option in the winning source with a valid lower-priority value present; plus random multi-option combinations; "
                         "the real main() runs with document() stubbed and HOME/XDG_CONFIG_HOME in the sandbox; non-trivial = some source sets it",
                    assumptions=["confuse, argparse and PyYAML are trusted third-party code: the theorems state CMinx's decision logic (source order, "
                                 "templates, filter concatenation, directory resolution); the tie to the real stack is exhaustive enumeration of "
                                 "the finite configuration space, not proof", "null values in a higher-priority source are outside the quantifier",
                                 "defaults are read from config_default.yaml at run time"])


# ---- C17 --------------------------------------------------------------------------------------------------------------
import s_c17


def _c17_run(tier, seed, out, drv):
    s_c17.c17_suite(seed, 50 if tier == 'quick' else 1000, out, drv, thorough=tier != 'quick', budget_s=120 if tier == 'quick' else 1500)


def _c17_search(tier, seed, out, drv, dis):
    s_c17.c17_suite(seed + 7919, 150, out, drv, budget_s=240)


PLANS['C17'] = dict(run=_c17_run, search=_c17_search, replay=s_c17.replay, replay_kind='tree',
                    rule="random trees and lone files, each documented by the real code from two working directories, at two absolute locations "
                         "(same directory name), under permuted directory listings, twice into the same output directory, and inside a longer run "
                         "with other files documented before and after through the same settings object (thorough: also fresh interpreters with "
                         "PYTHONHASHSEED 0/1/12345); all output trees byte-compared; non-trivial = at least 2 files written or a lone file",
                    assumptions=TREE_ASSUME + ["hash seed and re-execution have no counterpart in a functional model: that half is carried by the "
                                               "correspondence runs, the theorems cover history independence of the model"])


# ---- C19 --------------------------------------------------------------------------------------------------------------
import s_cmake


def _c19_run(tier, seed, out, drv):
    s_cmake.cmake_suite(seed, 24 if tier == 'quick' else 264, out, drv, budget_s=150 if tier == 'quick' else 1500)
    s_cmake.history_suite(seed, 12 if tier == 'quick' else 120, out, drv, budget_s=100 if tier == 'quick' else 1200)
    import s_argv       # what an argument vector means to main(): the parser model C19_equiv speaks about, against the real parser
    s_argv.argv_suite('C19', seed, 800 if tier == 'quick' else 20000, out, drv)


PLANS['C19'] = dict(run=_c19_run, replay=s_cmake.replay, replay_kind='cmake',
                    rule="real `cmake -P` runs of cminx_gen_rst with CMINX_EXECUTABLE bound to (a) an argv recorder — compared with the Lean genArgv, "
                         "(b) the working-tree CMinx — output tree byte-compared with a direct command-line run, (c) a failing child; inputs: lone "
                         "files, flat and nested directories, missing paths, syntax-error files; extra lists of 0-3 option groups (-p, -e, -s, "
                         "--prefix); histories: 3-7 calls from one build directory (one configure each, or all in one CMake run) with the settings file, "
                         "the user file, the input's content or membership, the output or the call's arguments changed in between, each step compared "
                         "with the same history on the command line; non-trivial = every run",
                    assumptions=["CMake's evaluation of the function body, list expansion and execute_process(COMMAND_ERROR_IS_FATAL ANY) are trusted; "
                                 "only list flattening is modelled", "argparse's abbreviation matching is not modelled"])
