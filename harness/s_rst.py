"""C20: RSTWriter API histories — real writer vs Lean model vs an independent reference renderer; purity via pickle."""
import pickle, random
import impl
from impl import RSTWriter, Settings

TXT = ['x', 'two\nlines', '  lead', 'a\n\n  b', '', 'ünï ✓', '   deep\n lead\n', 'tab\there', ':field: like', '.. dots', '* star']
ONE = ['v', '', 'w w', 'é', '  sp', ':x:', 'a,b']
NAMES = ['note', 'function', 'py:class', 'toctree', 'warning', 'x-y']
TITLES = ['T', 'Title', 'Tïtle long ✓', '', 'a b c', 'x' * 30,
          # length = code points, not display columns: East-Asian wide, fullwidth and halfwidth forms, combining marks, astral
          '日本語のモジュール', 'ＡＰＩ reference', 'Cafe\u0301 module', '한국어 ｶﾀｶﾅ', 'a\u0300\u0323 \u0e01\u0e34\u0e48', '😀 emoji x']


def ind(d): return '   ' * d


def ref_elem(e, d):
    """reference renderer: states every line explicitly"""
    k = e['k']
    if k == 'para': return '\n'.join(ind(d) + l for l in e['t'].split('\n'))
    if k == 'field': return '\n' + ind(d) + ':' + e['n'] + ': ' + e['t']
    if k == 'bl': return '\n' + ''.join(ind(d) + '* ' + i + '\n' for i in e['items'])
    if k == 'el': return '\n' + ''.join(ind(d) + str(j + 1) + '. ' + i + '\n' for j, i in enumerate(e['items']))
    if k == 'dir':
        s = '\n' + ind(d) + '.. ' + e['title'] + ':: ' + ','.join(e['args']) + '\n'
        for (n, v) in e['opts']: s += ind(d + 1) + ':' + n + ': ' + str(v) + '\n'
        if e['ch']: s += '\n'
        for c in e['ch']: s += ref_elem(c, d + 1) + '\n'
        return s
    raise ValueError(k)


def ref_doc(m):
    h = m['hc'] * len(m['title'])
    s = '\n' + h + '\n' + m['title'] + '\n' + h + '\n'
    for c in m['ch']: s += ref_elem(c, 0) + '\n'
    return s


def gen_history(g, max_ops, max_depth=5):
    """returns (hc, title, ops) with handles as child-index paths; handles detached by clear() are dropped"""
    hc = g.choice(['#', '*', '=', '~'])
    title = g.choice(TITLES)
    ops = []
    # shadow tree to know valid handles: node = dict(path, nchildren, isdir)
    root = dict(path=[], n=0); handles = [root]
    for _ in range(g.randint(0, max_ops)):
        h = g.choice(handles); p = h['path']
        op = g.choice(['text', 'text', 'field', 'bl', 'el', 'dir', 'dir', 'opt', 'title', 'clear', 'ser', 'ser'])
        if op == 'text': ops.append(dict(op='text', h=p, t=g.choice(TXT))); h['n'] += 1
        elif op == 'field': ops.append(dict(op='field', h=p, n=g.choice(['Author', 'type x', 'param é']), t=g.choice(ONE))); h['n'] += 1
        elif op in ('bl', 'el'):
            n_items = g.randint(0, 3) if g.random() < 0.85 else g.randint(9, 13)     # long lists: two-digit enumerators
            ops.append(dict(op=op, h=p, items=[g.choice(ONE) for _ in range(n_items)])); h['n'] += 1
        elif op == 'dir':
            if len(p) < max_depth:
                ops.append(dict(op='dir', h=p, name=g.choice(NAMES), args=[g.choice(['a', 'f(x y)', '', 'é']) for _ in range(g.randint(0, 2))]))
                handles.append(dict(path=p + [h['n']], n=0)); h['n'] += 1
        elif op == 'opt':
            if p: ops.append(dict(op='opt', h=p, n=g.choice(['maxdepth', 'value', 'noindex']), v=g.choice(['2', 'x', '', 'a b'])))
        elif op == 'title':
            ops.append(dict(op='title', h=p, t=g.choice(TITLES + NAMES)))
        elif op == 'clear':
            ops.append(dict(op='clear', h=p)); h['n'] = 0
            handles = [x for x in handles if not (len(x['path']) > len(p) and x['path'][:len(p)] == p)]
        else:
            ops.append(dict(op='ser'))
    ops.append(dict(op='ser'))
    return hc, title, ops


def run_real(hc, title, ops):
    """drive the real RSTWriter; returns (outputs at each 'ser', purity_ok, detail)"""
    s = Settings(); s.rst.headers = [hc, '-', '^']
    w = RSTWriter(title, settings=s)
    objs = {(): w}
    ref = dict(title=title, hc=hc, ch=[]); refs = {(): ref}
    outs = []; refouts = []; pure = True; detail = None
    for o in ops:
        k = o['op']
        if k == 'ser':
            before = pickle.dumps(w)
            a = w.to_text(); b = str(w); c = w.to_text()
            after = pickle.dumps(w)
            if not (a == b == c) or before != after:
                pure = False; detail = dict(a=a, b=b, c=c, state_changed=before != after)
            outs.append(a); refouts.append(ref_doc(ref)); continue
        h = tuple(o['h']); obj = objs[h]; r = refs[h]
        if k == 'text': obj.text(o['t']); r['ch'].append(dict(k='para', t=o['t']))
        elif k == 'field': obj.field(o['n'], o['t']); r['ch'].append(dict(k='field', n=o['n'], t=o['t']))
        elif k == 'bl': obj.bulleted_list(*o['items']); r['ch'].append(dict(k='bl', items=o['items']))
        elif k == 'el': obj.enumerated_list(*o['items']); r['ch'].append(dict(k='el', items=o['items']))
        elif k == 'dir':
            idx = len(r['ch']); d = obj.directive(o['name'], *o['args'])
            e = dict(k='dir', title=o['name'], args=o['args'], opts=[], ch=[]); r['ch'].append(e)
            objs[h + (idx,)] = d; refs[h + (idx,)] = e
        elif k == 'opt': obj.option(o['n'], o['v']); r['opts'].append((o['n'], o['v']))
        elif k == 'title': obj.title = o['t']; r['title'] = o['t']
        elif k == 'clear':
            obj.clear(); r['ch'] = []
            for key in [key for key in objs if len(key) > len(h) and key[:len(h)] == h]:
                del objs[key]; del refs[key]
    return outs, refouts, pure, detail


def rst_suite(seed, count, out, drv, max_ops=25):
    cases = []
    for n in range(count):
        g = random.Random(f"C20/{seed}/{n}")
        cases.append(gen_history(g, max_ops))
    models = drv.run([dict(op='rstops', hc=hc, title=t, ops=ops) for hc, t, ops in cases])
    for n, ((hc, title, ops), mo) in enumerate(zip(cases, models)):
        outs, refouts, pure, detail = run_real(hc, title, ops)
        out.traces_validated += 1
        depth = max([len(o.get('h', [])) for o in ops] + [0])
        kinds = {o['op'] for o in ops}
        out.dist['depth%d' % depth] += 1
        for k in kinds: out.dist['op:' + k] += 1
        out.note_case(('C20', seed, n), nontrivial=len(ops) >= 4 and depth >= 1)
        out.sample(dict(suite='rst-histories', hc=hc, title=title, ops=ops[:12]))
        case = dict(suite='rst-histories', key=('C20', seed, n), hc=hc, title=title, ops=ops)
        if mo['outs'] != outs:
            out.disagreements.append(dict(case, detail=dict(kind='serialisation', model=mo['outs'], real=outs)))
        if not pure:
            out.violations.append(dict(case, detail=dict(kind='serialising changed the document or was not repeatable', info=detail), model_agrees=True))
        elif refouts != outs:
            out.violations.append(dict(case, detail=dict(kind='text differs from the reference rendering', expected=refouts, real=outs),
                                       model_agrees=mo['outs'] == outs))
    out.suites.append(dict(name='rst-histories', cases=count))


def replay(v, drv):
    outs, refouts, pure, detail = run_real(v['hc'], v['title'], v['ops'])
    return dict(fails=(not pure) or refouts != outs, real=outs, expected=refouts, pure=pure)


def shrink(v, drv):
    ops = list(v['ops'])
    def fails(o):
        try:
            outs, refouts, pure, _ = run_real(v['hc'], v['title'], o)
            return (not pure) or refouts != outs
        except Exception:
            return False
    i = 0
    while i < len(ops) and len(ops) > 1:
        cand = ops[:i] + ops[i + 1:]
        # dropping a directive invalidates handles below it: only accept candidates that still run
        if fails(cand): ops = cand
        else: i += 1
    return dict(v, ops=ops, shrunk=True)
