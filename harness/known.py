"""Open known findings: signature matchers and witnesses.  known-findings.txt (committed, never written at run time)
lists which of these are open; a violation is suppressed only if it matches an open entry's signature AND the real
code still agrees with the faithful Lean model on it (a different defect changes that agreement)."""
import gen_modules as GM


def _documented_class_hidden(v):
    m, cfg = v.get('module'), v.get('cfg') or {}
    if m is None: return False
    if cfg.get('incl', {}).get('cpp_class', True): return False
    return any(it['k'] == 'block' and GM.cname(it['open']) == 'cpp_class' and it.get('doc') is not None
               for it in GM.walk_items(m['items']))


def _generic_command_name(v):
    m = v.get('module')
    if m is None: return 'generic_command' in (v.get('source') or '').lower()
    return any(GM.cname(it.get('call') or it.get('open') or it.get('decl') or {'name': ''}) == 'generic_command'
               for it in GM.walk_items(m['items']))


def _stale_declaration(v):
    m = v.get('module')
    if m is None: return False
    return GM.well_formed(m, documented_impl=True)[1] == 'declaration not followed by its definition'


MATCHERS = {
    'declaration_never_implemented': _stale_declaration,
    'documented_class_with_cpp_class_flag_off': _documented_class_hidden,
    'command_named_generic_command': _generic_command_name,
    'doc_prefix_in_plain_comment': lambda v: v.get('tag') == 'K3',
    'case_colliding_extensions': lambda v: v.get('tag') == 'K4',
    'cmake_list_flattening': lambda v: v.get('tag') == 'K5',
    'pattern_matches_ancestor_of_input': lambda v: v.get('tag') == 'K7',
    'user_config_dir_created': lambda v: v.get('tag') == 'K9',
    'value_is_rest_transition': lambda v: v.get('tag') == 'K10',
    'extra_is_execute_process_keyword': lambda v: v.get('tag') == 'K11',
    'strseq_accepts_mapping': lambda v: (v.get('key') or [None, None, None])[0] == 'wrongtype' and v['key'][1] == 'rst.headers' and v['key'][2].startswith('{'),
}


def match(prop, violation, findings):
    """id of the open finding that explains this violation, or None"""
    for f in findings:
        fn = MATCHERS.get(f.get('matcher'))
        if fn is None: continue
        try:
            if fn(violation) and violation.get('model_agrees', True): return f['id']
        except Exception:
            continue
    return None


def witness_still_fails(finding, drv):
    """re-run the recorded witness of a finding on the real code; True if it still shows the defect"""
    import witnesses
    fn = witnesses.WITNESSES.get(finding['id'])
    if fn is None: return True
    try: return bool(fn(drv))
    except Exception: return True
