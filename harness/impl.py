"""Adapters that call the REAL CMinx code (from /repo/src) in-process and canonicalise what it does."""
import contextlib, io, logging, os, shutil, sys, tempfile
from common import REPO_SRC, HarnessError

if REPO_SRC not in sys.path:
    sys.path.insert(0, REPO_SRC)
import warnings
warnings.filterwarnings("ignore")
try:
    import cminx
    from cminx import documentation_types as DT
    from cminx.config import Settings, InputSettings, RSTSettings, OutputSettings, LoggingSettings
    from cminx.documenter import Documenter
    from cminx.aggregator import DocumentationAggregator
    from cminx.rstwriter import RSTWriter
except Exception as e:  # pragma: no cover
    raise HarnessError(f"cannot import cminx from {REPO_SRC}: {e!r}")
if not os.path.abspath(cminx.__file__).startswith(os.path.abspath(REPO_SRC)):
    raise HarnessError(f"cminx imported from {cminx.__file__}, expected {REPO_SRC}")

FLAGS = ['function', 'macro', 'cpp_class', 'cpp_attr', 'cpp_constructor', 'cpp_member', 'ct_add_test', 'add_test',
         'ct_add_section', 'option']


class _Counter(logging.Handler):
    def __init__(self):
        super().__init__(level=logging.DEBUG); self.errors = 0; self.warnings = 0; self.msgs = []
    def emit(self, record):
        if record.levelno >= logging.ERROR:
            msg = record.getMessage()
            if not msg.startswith("Caught exception"):
                self.errors += 1
            self.msgs.append(msg[:200])
        elif record.levelno == logging.WARNING:
            self.warnings += 1


@contextlib.contextmanager
def capture_logs():
    """count logger.error calls of cminx without printing them"""
    h = _Counter()
    lg = logging.getLogger("cminx")
    old = (lg.handlers[:], lg.propagate, lg.level, logging.root.manager.disable)
    logging.disable(logging.NOTSET)
    for sub in ("cminx", "cminx.aggregator", "cminx.parser"):
        l2 = logging.getLogger(sub); l2.handlers = []; l2.propagate = True; l2.setLevel(logging.DEBUG); l2.disabled = False
    lg.handlers = [h]; lg.propagate = False
    try:
        yield h
    finally:
        lg.handlers, lg.propagate = old[0], old[1]; lg.setLevel(old[2]); logging.disable(old[3])


def make_settings(cfg=None, headers=None, **rst):
    """cfg: {'incl': {flag: bool}, 'trigger': str, 'regex': {'fn','macro','member'}}"""
    cfg = cfg or {}
    kw = {'include_undocumented_' + f: cfg.get('incl', {}).get(f, True) for f in FLAGS}
    if 'trigger' in cfg: kw['kwargs_doc_trigger_string'] = cfg['trigger']
    rx = cfg.get('regex', {})
    kw['function_parameter_name_strip_regex'] = rx.get('fn', '')
    kw['macro_parameter_name_strip_regex'] = rx.get('macro', '')
    kw['member_parameter_name_strip_regex'] = rx.get('member', '')
    r = RSTSettings(**rst)
    if headers is not None: r.headers = list(headers)
    return Settings(input=InputSettings(**kw), rst=r)


def canon_method(x):
    return dict(name=x.name, doc=x.doc, pc=x.parent_class, types=list(x.param_types), params=list(x.params),
                macro=bool(x.is_macro), ctor=bool(x.is_constructor))


def canon_entry(e):
    if isinstance(e, DT.MacroDocumentation) or isinstance(e, DT.FunctionDocumentation):
        return dict(t='macro' if isinstance(e, DT.MacroDocumentation) else 'func', name=e.name, doc=e.doc,
                    params=list(e.params), kw=bool(e.has_kwargs))
    if isinstance(e, DT.OptionDocumentation):
        return dict(t='opt', name=e.name, doc=e.doc, help=e.help_text, val=e.value)
    if isinstance(e, DT.VariableDocumentation):
        return dict(t='var', name=e.name, doc=e.doc, vt=e.type.name, val=e.value)
    if isinstance(e, DT.CTestDocumentation):
        return dict(t='ctest', name=e.name, doc=e.doc, params=list(e.params))
    if isinstance(e, DT.SectionDocumentation) or isinstance(e, DT.TestDocumentation):
        return dict(t='section' if isinstance(e, DT.SectionDocumentation) else 'cttest', name=e.name, doc=e.doc,
                    ef=bool(e.expect_fail), params=list(e.params), macro=bool(e.is_macro))
    if isinstance(e, DT.GenericCommandDocumentation):
        return dict(t='gen', name=e.name, doc=e.doc, params=list(e.params))
    if isinstance(e, DT.ClassDocumentation):
        return dict(t='class', name=e.name, doc=e.doc, supers=list(e.superclasses),
                    inner=[c.name for c in e.inner_classes], ctors=[canon_method(x) for x in e.constructors],
                    members=[canon_method(x) for x in e.members],
                    attrs=[dict(name=a.name, doc=a.doc, pc=a.parent_class, dv=a.default_value) for a in e.attributes])
    if isinstance(e, DT.ModuleDocumentation):
        return dict(t='module', name=e.name, doc=e.doc)
    return dict(t='?' + type(e).__name__)


def classify_exception(e, text):
    """map an exception escaping Documenter to the model's error enum"""
    name = type(e).__name__
    if name == 'CMakeSyntaxError':
        msg = getattr(e, 'msg', '') or ''
        if msg.startswith('token recognition error'):
            pos = None
            try:
                line, col = str(e.lineno).split(':'); line = int(line); col = int(col)
                body = text[1:] if text.startswith('﻿') else text
                lines = body.split('\n')
                pos = sum(len(l) + 1 for l in lines[:line - 1]) + col
            except Exception:
                pass
            return dict(err='lex', pos=pos)
        return dict(err='parse')
    if name in ('RecognitionException', 'InputMismatchException', 'NoViableAltException', 'FailedPredicateException'):
        return dict(err='parse')
    if name in ('CMakeSyntaxException', 'IndexError', 'TypeError', 'KeyError'):
        return dict(err='agg', kind=name)
    if name == 'UnicodeDecodeError':
        return dict(err='decode')
    return dict(err='other', kind=name, msg=str(e)[:200])


class Sandbox:
    """scratch directory outside /repo and /verif, removed on exit"""
    def __enter__(self):
        self.dir = tempfile.mkdtemp(prefix='+cmxv_', suffix='+'); return self
    def __exit__(self, *a):
        shutil.rmtree(self.dir, ignore_errors=True)
    def write(self, rel, text, raw=None):
        p = os.path.join(self.dir, rel)
        os.makedirs(os.path.dirname(p), exist_ok=True)
        with open(p, 'wb') as f:
            f.write(raw if raw is not None else text.encode('utf-8'))
        return p


def real_pipeline(sb, text, settings, title='T', mod='M', fname='case.cmake'):
    """Documenter(file, title, mod, settings).process() on the real code.
    Returns {'rst','entries','errors'} or {'err',...}; `entries` is the documented list as the tree walk left it."""
    path = sb.write(fname, text)
    snap = {}
    with capture_logs() as logs, contextlib.redirect_stderr(io.StringIO()), contextlib.redirect_stdout(io.StringIO()):
        try:
            d = Documenter(path, title, mod, settings)
            orig = d.process_docs
            def hooked(docs):
                snap['entries'] = [canon_entry(x) for x in docs]
                return orig(docs)
            d.process_docs = hooked
            w = d.process()
            rst = str(w)
            # what a user gets is the page on disk: the writer's own write_to_file() must put exactly the serialised text there (UTF-8);
            # if it does not, the file's text is what every oracle judges
            page = os.path.join(sb.dir, 'page_of_' + os.path.basename(fname) + '.rst')
            w.write_to_file(page)
            with open(page, 'r', encoding='utf-8', newline='') as f: on_disk = f.read()
            os.unlink(page)
            if on_disk != rst: return dict(rst=on_disk, serialised=rst, written_differs=True, entries=snap['entries'], errors=logs.errors)
            return dict(rst=rst, entries=snap['entries'], errors=logs.errors)
        except RecursionError:
            raise
        except BaseException as e:
            if isinstance(e, (KeyboardInterrupt, SystemExit, MemoryError)): raise
            return classify_exception(e, text)


# ---- lexer / parser level adapters ---------------------------------------------------------------------------------
from antlr4 import InputStream, CommonTokenStream, Token
from antlr4.error.ErrorListener import ErrorListener
from antlr4.error.Errors import LexerNoViableAltException
from cminx.parser.CMakeLexer import CMakeLexer
from cminx.parser.CMakeParser import CMakeParser

TOKEN_NAMES = {1: 'LP', 2: 'RP'}


def _tok_name(ttype):
    return TOKEN_NAMES.get(ttype) or CMakeLexer.symbolicNames[ttype - 2]


class _StopLex(Exception):
    pass


def real_lex(text):
    """token stream of the generated ANTLR lexer INCLUDING skipped tokens: a per-token re-run of Lexer.nextToken's
    matching step (the generated rules and the ATN simulator are the real ones).  Returns {'toks': [...]} or
    {'err':'lex','pos':index}."""
    lx = CMakeLexer(InputStream(text)); lx.removeErrorListeners()
    toks = []
    while True:
        if lx._input.LA(1) == Token.EOF: break
        lx._token = None; lx._channel = Token.DEFAULT_CHANNEL
        lx._tokenStartCharIndex = lx._input.index
        lx._tokenStartColumn = lx._interp.column; lx._tokenStartLine = lx._interp.line; lx._text = None
        lx._type = Token.INVALID_TYPE
        try:
            ttype = lx._interp.match(lx._input, lx._mode)
        except LexerNoViableAltException as e:
            return dict(err='lex', pos=e.startIndex)
        start = lx._tokenStartCharIndex; stop = lx._input.index
        toks.append([_tok_name(ttype), lx._input.getText(start, stop - 1)])
    return dict(toks=toks)


def _arg_json(ctx):
    if isinstance(ctx, CMakeParser.Compound_argumentContext):
        return [_arg_json(c) for c in ctx.getChildren(lambda c: isinstance(c, (CMakeParser.Single_argumentContext, CMakeParser.Compound_argumentContext)))]
    return ctx.getText()


def _cmd_json(ctx):
    return dict(name=ctx.Identifier().getText(),
                args=[_arg_json(c) for c in ctx.getChildren(lambda c: isinstance(c, (CMakeParser.Single_argumentContext, CMakeParser.Compound_argumentContext)))])


def real_parse(sb, text):
    """the listener events of the real parse tree, in document order (same shape as the driver's `parse` op)"""
    path = sb.write('parse_case.cmake', text)
    with capture_logs(), contextlib.redirect_stderr(io.StringIO()):
        try:
            d = Documenter(path, 'T', 'M', make_settings())
            tree = d.parser.cmake_file()
            if d.parser.getNumberOfSyntaxErrors() > 0: return dict(err='parse')
        except BaseException as e:
            if isinstance(e, (KeyboardInterrupt, SystemExit, MemoryError, RecursionError)): raise
            return classify_exception(e, text)
    evs = []
    for ch in tree.getChildren():
        if isinstance(ch, CMakeParser.Documented_moduleContext):
            evs.append(dict(e='module', text=ch.Module_docstring().getText()))
        elif isinstance(ch, CMakeParser.Documented_commandContext):
            c = _cmd_json(ch.command_invocation())
            evs.append(dict(e='doccmd', doc=ch.bracket_doccomment().getText(), name=c['name'], args=c['args']))
        elif isinstance(ch, CMakeParser.Command_invocationContext):
            c = _cmd_json(ch); evs.append(dict(e='cmd', name=c['name'], args=c['args']))
        elif isinstance(ch, CMakeParser.Bracket_doccommentContext):
            evs.append(dict(e='dangling'))
    return dict(events=evs)
