"""Greedy shrinking of a failing decorated module: drop items, drop doc lines, flatten the layout."""
import copy


def _item_lists(m):
    """all lists that hold items (top level and bodies), as (list) references"""
    out = [m['items']]
    def rec(items):
        for it in items:
            if 'body' in it:
                out.append(it['body']); rec(it['body'])
    rec(m['items'])
    return out


def _docs(m):
    ds = [m['moddoc']] if m.get('moddoc') else []
    def rec(items):
        for it in items:
            if it.get('doc'): ds.append(it['doc'])
            if 'body' in it: rec(it['body'])
    rec(m['items'])
    return ds


def canonical_layout(m):
    """same tokens, plainest separators"""
    m = copy.deepcopy(m)
    def args(as_, first=True):
        for i, a in enumerate(as_):
            a[0] = [] if i == 0 else [['s', 1]]
            if a[1][0] == 'g':
                args(a[1][1]); a[1][2] = []
    def call(c):
        c['pre'] = [['n']]; c['sp'] = 0; c['close'] = []; args(c['args'])
    def doc(d):
        d['pre'] = [['n']]; d['ind'] = '' if d['leader'] else d['ind']; d['crlf'] = False
    def rec(items):
        for it in items:
            if it.get('doc'): doc(it['doc'])
            for k in ('call', 'open', 'close', 'decl', 'impl'):
                if k in it: call(it[k])
            if 'body' in it: rec(it['body'])
    if m.get('moddoc'):
        doc(m['moddoc']); m['moddoc']['pre'] = []
    rec(m['items']); m['tail'] = [['n']]; m['bom'] = False
    return m


def shrink_module(m, fails, budget=150):
    """fails(m) -> bool.  Returns a smaller module that still fails."""
    best = m; calls = [0]
    def ok(c):
        if calls[0] >= budget: return False
        calls[0] += 1
        try: return bool(fails(c))
        except Exception: return False
    c = canonical_layout(best)
    if ok(c): best = c
    changed = True
    while changed and calls[0] < budget:
        changed = False
        n_lists = len(_item_lists(best))
        for li in range(n_lists):
            j = 0
            while True:
                cand = copy.deepcopy(best)
                lst = _item_lists(cand)[li] if li < len(_item_lists(cand)) else None
                if lst is None or j >= len(lst): break
                del lst[j]
                if ok(cand): best = cand; changed = True
                else: j += 1
        if best.get('moddoc'):
            cand = copy.deepcopy(best); cand['moddoc'] = None
            if ok(cand): best = cand; changed = True
        for di in range(len(_docs(best))):
            k = 0
            while True:
                cand = copy.deepcopy(best); d = _docs(cand)[di]
                if k >= len(d['lines']): break
                del d['lines'][k]
                if ok(cand): best = cand; changed = True
                else: k += 1
    return best
