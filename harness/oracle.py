"""Ground-truth side of the checks: what the generated reST must look like, computed from the *abstract* input
(the expected entry list of gen_modules.spec_entries), independently of the Lean model and of CMinx.
Also the per-property projections applied identically to expected and real text."""
import re

MACRO_NOTE = "This is a macro, and so does not introduce a new scope."
GENERIC_WARNING = "This is a generic command invocation. It is not a function or macro definition."
CTEST_WARNING = ('This is a CTest test definition, do not call this manually. '
                 'Use the "ctest" program to execute this test.')
TEST_WARNING = "This is a CMakeTest test definition, do not call this manually."
SECTION_WARNING = "This is a CMakeTest section definition, do not call this manually."
METHOD_MACRO_NOTE = "This member is a macro and so does not introduce a new scope"
OPTION_NOTE = ["", "This variable is a user-editable option,", "meaning it appears within the cache and can be",
               "edited on the command line by the :code:`-D` flag.", ""]


def expected_rst(entries, title, mod, hc="#"):
    """The page for a list of expected entries.  Written as 'what lines must be there', element by element:
    each element is followed by the newline the writer appends, a directive additionally ends with the newline of
    its own last element, which yields the blank lines seen in real pages."""
    ents = list(entries)
    for e in ents:                       # a named @module doccomment overrides the path-derived title
        if e['t'] == 'module' and e['name']: title = e['name']
    if not any(e['t'] == 'module' for e in ents):
        ents.insert(0, dict(t='module', name=mod, doc=''))
    out = []
    bar = hc * len(title)
    out.append("\n" + bar + "\n" + title + "\n" + bar)
    for e in ents:
        out.append(_entry(e, mod))
    return "".join(x + "\n" for x in out)


def _ind(d): return "   " * d


def _dir(d, name, arg, opts, children):
    """children: list of element strings already rendered at depth d+1"""
    s = "\n" + _ind(d) + f".. {name}:: {arg}\n"
    for n, v in opts: s += _ind(d + 1) + f":{n}: {v}\n"
    if children: s += "\n"
    for c in children: s += c + "\n"
    return s


def _para(d, text): return "\n".join(_ind(d) + l for l in text.split("\n"))
def _field(d, n, t): return "\n" + _ind(d) + f":{n}: {t}"


def _method_str(d, m):
    pretty = ', '.join(m['params']) + ("[, ...]" if "args" in m['types'] else "")
    ch = []
    if m['macro']: ch.append(_dir(d + 1, "note", METHOD_MACRO_NOTE, [], []))
    ch.append(_para(d + 1, m['doc']))
    for i, ty in enumerate(m['types']):
        if i >= len(m['params']): break
        p = m['params'][i]
        if f":param {p}:" not in m['doc']: ch.append(_field(d + 1, f"param {p}", ""))
        if f":type {p}:" not in m['doc']: ch.append(_field(d + 1, f"type {p}", ty))
    return _dir(d, "py:method", f"{m['name']}({pretty})", [], ch)


def _entry(e, mod):
    t = e['t']
    if t == 'module':
        name = e['name'] if e['name'] else mod
        return _dir(0, "module", name, [], [_para(1, e['doc'])] if e['doc'] else [])
    if t in ('func', 'macro'):
        params = list(e['params']) + (["**kwargs"] if e['kw'] else [])
        ch = ([_dir(1, "note", MACRO_NOTE, [], [])] if t == 'macro' else []) + [_para(1, e['doc'])]
        return _dir(0, "function", f"{e['name']}({' '.join(params)})", [], ch)
    if t == 'var':
        vt = {'STRING': 'str', 'LIST': 'list', 'UNSET': 'UNSET'}[e['vt']]
        return _dir(0, "data", e['name'], [], [_para(1, e['doc']), _field(1, "Default value", e['val']), _field(1, "type", vt)])
    if t == 'opt':
        note = _dir(1, "note", "", [], [_para(2, "\n".join(OPTION_NOTE))])
        return _dir(0, "data", e['name'], [], [note, _para(1, e['doc']), _field(1, "Help text", e['help']),
                                               _field(1, "Default value", e['val'] if e['val'] is not None else "OFF"),
                                               _field(1, "type", "bool")])
    if t == 'gen':
        return _dir(0, "function", f"{e['name']}({' '.join(e['params'])})", [],
                    [_dir(1, "warning", GENERIC_WARNING, [], []), _para(1, e['doc'])])
    if t == 'ctest':
        return _dir(0, "function", f"{e['name']}({' '.join(e['params'])})", [],
                    [_dir(1, "warning", CTEST_WARNING, [], []), _para(1, e['doc'])])
    if t in ('cttest', 'section'):
        return _dir(0, "function", f"{e['name']}({'EXPECTFAIL' if e['ef'] else ''})", [],
                    [_dir(1, "warning", SECTION_WARNING if t == 'section' else TEST_WARNING, [], []), _para(1, e['doc'])])
    if t == 'class':
        ch = []
        if e['supers']:
            ch.append(_para(1, "Bases: " + ", ".join(f":class:`{s}`" for s in e['supers']) + "\n"))
        ch.append(_para(1, e['doc']))
        if e['ctors']:
            ch.append(_para(1, "**Additional Constructors**")); ch += [_method_str(1, m) for m in e['ctors']]
        if e['members']:
            ch.append(_para(1, "**Methods**")); ch += [_method_str(1, m) for m in e['members']]
        if e['attrs']:
            ch.append(_para(1, "**Attributes**"))
            for a in e['attrs']:
                ch.append(_dir(1, "py:attribute", a['name'], [("value", a['dv'])] if a['dv'] is not None else [], [_para(2, a['doc'])]))
        if e['inner']:
            ch.append(_para(1, "**Inner classes**"))
            ch.append("\n" + "".join(_ind(1) + "* " + f":class:`{n}`" + "\n" for n in e['inner']))
        return _dir(0, "py:class", e['name'], [], ch)
    raise ValueError(t)


def loosen(rst, entries, spec):
    """an entry whose heading no property prescribes (add_test without NAME): keep that there is a CTest entry at that position, blank
    what it is headed with — in the page and in the entry list alike.  `spec` says which positions are loose."""
    loose = [i for i, e in enumerate(spec) if e.get('loose')]
    if not loose: return rst, entries
    has_module = any(e['t'] == 'module' for e in spec)
    lines = rst.split("\n"); heads = [i for i, l in enumerate(lines) if l.startswith(".. ")]
    for i in loose:
        b = i + (0 if has_module else 1)        # the module block comes first on the page
        if b < len(heads) and lines[heads[b]].startswith(".. function:: "): lines[heads[b]] = ".. function:: <positional add_test>"
    ents = [dict(e) for e in entries]
    for i in loose:
        if i < len(ents) and ents[i].get('t') == 'ctest': ents[i]['name'] = '<positional>'; ents[i]['params'] = None; ents[i].pop('loose', None)
    return "\n".join(lines), ents


# ---- projections -------------------------------------------------------------------------------------------
def split_blocks(rst):
    """top-level blocks of a page: list of (heading line, [lines of the block]); heading lines start with '.. ' at
    column 0.  Only meaningful when arguments contain no line break."""
    lines = rst.split("\n"); blocks = []; cur = None; head = []
    for l in lines:
        if l.startswith(".. "):
            cur = [l, []]; blocks.append(cur)
        elif cur is None: head.append(l)
        else: cur[1].append(l)
    return head, blocks


def has_multiline_args(entries):
    def texts(e):
        yield e.get('name', '')
        for k in ('params', 'supers', 'inner'):
            for p in e.get(k, []) or []: yield p
        for k in ('val', 'help'):
            if e.get(k): yield e[k]
        for k in ('ctors', 'members'):
            for m in e.get(k, []) or []:
                yield m['name']
                for p in m['params'] + m['types']: yield p
        for a in e.get('attrs', []) or []:
            yield a['name']
            if a['dv']: yield a['dv']
    # every character str.splitlines() (and hence docutils) treats as a line boundary
    breaks = set('\n\r\x0b\x0c\x1c\x1d\x1e\x85\u2028\u2029')
    return any(any(c in breaks for c in t) for e in entries for t in texts(e))


def neutralise(rst):
    """For ORACLE comparisons only: the properties name *that* a macro note / a do-not-call warning / the option note is there,
    not its wording.  Keep each note/warning directive line without its text (for the test warnings: with the kind the property
    names — CMakeTest test / CMakeTest section / CTest test) and drop the directive's own body."""
    out = []; skip_indent = None
    for l in rst.split("\n"):
        stripped = l.lstrip(" ")
        ind = len(l) - len(stripped)
        if skip_indent is not None:
            if stripped == "" or ind > skip_indent: continue
            skip_indent = None
        if stripped.startswith(".. note::") or stripped.startswith(".. warning::"):
            kind = ""
            for k in ("CMakeTest test", "CMakeTest section", "CTest test", "generic command"):
                if k in stripped: kind = " <" + k + ">"
            out.append(" " * ind + stripped.split("::")[0] + "::" + kind)
            skip_indent = ind
            continue
        out.append(l)
    return "\n".join(out)


def project(prop, rst, entries):
    """π_P: the part of a page / entry list property P talks about"""
    if prop in ('C07', 'C20', 'C04', 'C05', 'C06', 'C12', 'C13', 'C17', 'C18'):
        return rst
    head, blocks = split_blocks(rst)
    if prop == 'C01':    # doc text of every entry, together with the entry it sits in (heading line)
        return [dict(t=e['t'], name=e['name'], doc=e['doc'],
                     sub=[(m['name'], m['doc']) for k in ('ctors', 'members') for m in e.get(k, [])] +
                         [(a['name'], a['doc']) for a in e.get('attrs', [])]) for e in entries], \
               [(h, [l for l in b if l.strip() and not l.lstrip().startswith(('.. note::', '.. warning::'))]) for h, b in blocks]
    if prop == 'C02':    # sequence of kinds / headings / notes+warnings
        return [(e['t'], e['name'], e.get('params')) for e in entries], \
               [(h, [l for l in b if l.lstrip().startswith(('.. note::', '.. warning::', '.. py:'))]) for h, b in blocks]
    if prop == 'C03':
        return [e for e in entries if e['t'] in ('func', 'macro')], [h for h, b in blocks if h.startswith('.. function::')]
    if prop == 'C08':
        return entries, rst
    if prop == 'C09':
        return [e for e in entries if e['t'] == 'class'], [(h, b) for h, b in blocks if h.startswith('.. py:class::')]
    if prop == 'C10':
        return [e for e in entries if e['t'] in ('var', 'opt')], [(h, b) for h, b in blocks if h.startswith('.. data::')]
    if prop == 'C11':
        ents = [e for e in entries if e['t'] in ('cttest', 'section', 'ctest')]
        # both the full wording and the neutralised form (`.. warning:: <CMakeTest section>`) name the kind
        keep = ('CMakeTest test', 'CMakeTest section', 'CTest test')
        return [(e['t'], e['name'], e.get('ef'), e.get('params') if e['t'] == 'ctest' else None) for e in ents], \
               [(h, [l for l in b if '.. warning::' in l]) for h, b in blocks if any(k in l for l in b for k in keep)]
    return entries, rst
