"""Text-level suites: the scanner/parser model against the generated ANTLR lexer/parser (C04, C05, C06 support),
layout families (C04), acceptance and argument boundaries (C05), fault injection (C06)."""
import glob, itertools, json, os, random, subprocess, tempfile, time

import common, impl, gen_modules as GM, suites, oracle

ALPHA = ['#', '[', ']', '=', '"', '\\', '(', ')', ' ', '\n', '\r', 'a', '_', '1', ';', '@module', '#[[[', '#]]', ']]', 't', '-',
         '\t', 'é', '\ufeff']
SMALL = ['#', '[', ']', '=', '"', '\\', '(', ')', ' ', '\n', 'a', ';']


def _syntax(r): return r.get('err') in ('lex', 'parse')


def compare_strings(strings, out, drv, sb, label, with_parse=True):
    mo = drv.run([dict(op='lex', src=s) for s in strings])
    mp = drv.run([dict(op='parse', src=s) for s in strings]) if with_parse else [None] * len(strings)
    for s, m, p in zip(strings, mo, mp):
        r = impl.real_lex(s)
        out.traces_validated += 1
        out.dist[label + (':lex-error' if 'err' in r else ':lex-ok')] += 1
        if r != m:
            out.disagreements.append(dict(suite=label, key=s, source=s, detail=dict(kind='token stream', model=m, real=r)))
        if with_parse:
            rp = impl.real_parse(sb, s)
            if rp != p and not (_syntax(rp) and _syntax(p)):
                out.disagreements.append(dict(suite=label, key=s, source=s, detail=dict(kind='parse events', model=p, real=rp)))
            out.dist[label + (':parse-ok' if 'events' in rp else ':parse-error')] += 1


def lex_suite(prop, seed, n_random, out, drv, exhaustive_len=0, corpus_files=0):
    g = random.Random(f"{prop}/lex/{seed}")
    with impl.Sandbox() as sb:
        strings = [''.join(g.choice(ALPHA) for _ in range(g.randint(1, 16))) for _ in range(n_random)]
        compare_strings(strings, out, drv, sb, 'random-strings')
        for s in strings[:3]: out.sample(dict(suite='random-strings', text=s))
        out.evaluations += len(strings)
        if exhaustive_len:
            ex = [''.join(t) for k in range(1, exhaustive_len + 1) for t in itertools.product(SMALL, repeat=k)]
            compare_strings(ex, out, drv, sb, 'exhaustive-len<=%d' % exhaustive_len, with_parse=False)
            out.evaluations += len(ex)
            out.notes.append(f"all {len(ex)} strings of length <= {exhaustive_len} over {SMALL!r} lexed by both")
        if corpus_files:
            files = sorted(glob.glob('/usr/share/cmake-3.25/**/*.cmake', recursive=True)) + sorted(glob.glob(os.path.join(common.REPO, '**/*.cmake'), recursive=True))
            g.shuffle(files); files = files[:corpus_files]; texts = []
            for f in files:
                try: texts.append(open(f, encoding='utf-8-sig').read())
                except Exception: pass
            compare_strings(texts, out, drv, sb, 'cmake-corpus')
            out.evaluations += len(texts)
    out.suites.append(dict(name='lexer/parser vs ANTLR', random=n_random, exhaustive_len=exhaustive_len, corpus=corpus_files))


def charclass_suite(prop, seed, out, drv, full=False):
    """the scanner model's character classes against the generated lexer, code point by code point: every code point (quick: 0..0x2FFF,
    the line/paragraph separators and a stride through the rest; thorough: all of them, surrogates excepted) in six lexical contexts —
    alone, inside an identifier/unquoted argument, after a backslash, as an argument, inside a quoted argument, inside a line comment"""
    cps = list(range(0, 0x110000)) if full else sorted(set(range(0, 0x3000)) | {0x3000, 0xFEFF, 0xFFFD, 0xFFFF, 0x10000, 0x1F600, 0x10FFFF}
                                                         | set(range(0x3000 + seed % 97, 0x110000, 97)))
    cps = [c for c in cps if not 0xD800 <= c <= 0xDFFF]
    ctxs = [lambda ch: ch, lambda ch: 'a' + ch + 'b', lambda ch: 'x\\' + ch + 'y', lambda ch: 'f(' + ch + ')', lambda ch: 'f("' + ch + '")', lambda ch: '#' + ch + '\nf()']
    strings = [f(chr(c)) for c in cps for f in ctxs]
    for k in range(0, len(strings), 60000):
        chunk = strings[k:k + 60000]
        mo = drv.run([dict(op='lex', src=s_) for s_ in chunk])
        for s_, m in zip(chunk, mo):
            r = impl.real_lex(s_)
            if r != m:
                out.disagreements.append(dict(suite='lexer-character-classes', key=s_, source=s_, detail=dict(kind='token stream', model=m, real=r)))
                if len(out.disagreements) > 20: break
    out.traces_validated += len(strings); out.evaluations += len(strings); out.dist['lexer-character-classes:code points'] += len(cps)
    out.suites.append(dict(name='lexer character classes', code_points=len(cps), contexts=len(ctxs)))


# ---- C04: layout families ------------------------------------------------------------------------------------------
def crlf_norm(s):
    return [l for l in s.replace('\r', '').split('\n') if l.strip() != '']


def verbatim_docs(m, rng):
    """the same module with some doccomments written 'verbatim' (the model's leaderless form whose lines happen to carry the block's
    indentation and '#'), so that a leader-only line can become a completely empty line: text the prescribed DocC form cannot express"""
    import copy
    m = copy.deepcopy(m); n = [0]
    def rec(x):
        if isinstance(x, dict):
            if 'lines' in x and 'leader' in x and x.get('leader') and not x.get('open') and x['lines'] and rng.random() < 0.8:
                lines = [x['ind'] + '#' + (' ' + l if l else '') for l in x['lines']]
                for i, l in enumerate(x['lines']):
                    if l == '' and rng.random() < 0.7: lines[i] = rng.choice(['', '', x['ind'], ' ']); n[0] += 1
                if rng.random() < 0.5: lines.insert(rng.randint(0, len(lines)), rng.choice(['', '', x['ind']])); n[0] += 1
                r = rng.random()       # untidy blocks: the closing line deeper than the body, or one body line deeper than the rest
                if r < 0.3: x['ind'] = x['ind'] + rng.choice(['  ', '\t', ' '])
                elif r < 0.45: i = rng.randrange(len(lines)); lines[i] = rng.choice(['  ', '\t']) + lines[i]
                x['lines'] = lines; x['leader'] = False; x['verbatim'] = True
            else:
                for v in x.values(): rec(v)
        elif isinstance(x, list):
            for v in x: rec(v)
    rec(m)
    return m, n[0]


def reindent_verbatim(m, prefix):
    """every verbatim doccomment block moved to the right as a whole (opening line, body lines that are not empty, closing line)"""
    import copy
    m = copy.deepcopy(m)
    def rec(x):
        if isinstance(x, dict):
            if x.get('verbatim'):
                x['ind'] = prefix + x['ind']; x['lines'] = [prefix + l if l != '' else l for l in x['lines']]
            else:
                for v in x.values(): rec(v)
        elif isinstance(x, list):
            for v in x: rec(v)
    rec(m)
    return m


def family_suite(seed, count, k, out, drv, budget_s=None):
    t0 = time.time(); done = 0
    with impl.Sandbox() as sb:
        for n in range(count):
            if budget_s and time.time() - t0 > budget_s:
                out.notes.append(f"family suite stopped at {done}/{count} (time budget)"); break
            variants = []
            for j in range(k):
                lay = 0 if j == 0 else (1 if j == 1 else 2)
                gen = GM.Gen(random.Random(f"C04/{seed}/{n}"), layout=lay, lg=random.Random(f"C04/{seed}/{n}/lay{j}"), max_items=5, p_cont=0.3, same_line=(0.3 if lay >= 1 and n % 2 == 0 else 0))      # also in the mild layout, where commands stay on one line: two commands that START on one line
                variants.append(gen.module())
            cfg = {}
            rend = drv.run([dict(op='render', module=m) for m in variants])
            srcs = [r['src'] for r in rend]
            srcs.append(srcs[1].replace('\r\n', '\n').replace('\n', '\r\n'))      # CRLF conversion of the mild layout
            vm, nblank = verbatim_docs(variants[1], random.Random(f"C04/{seed}/{n}/verb"))
            vsrc = drv.run([dict(op='render', module=vm)])[0]['src'].replace('\r\n', '\n')
            rsrc = drv.run([dict(op='render', module=reindent_verbatim(vm, random.Random(f"C04/{seed}/{n}/re").choice(['  ', '\t', '    '])))])[0]['src'].replace('\r\n', '\n')
            srcs += [vsrc, vsrc.replace('\n', '\r\n'), rsrc]; out.dist['verbatim-docs:empty-lines' if nblank else 'verbatim-docs:none'] += 1
            models = drv.run([dict(op='pipeline', cfg=suites.model_cfg(variants[0], cfg), headers=['#'], title='T', mod='M', src=s) for s in srcs])
            reals = [impl.real_pipeline(sb, s, impl.make_settings(cfg, headers=['#']), 'T', 'M') for s in srcs]
            out.traces_validated += len(srcs)
            m0 = variants[0]
            wf, _ = GM.well_formed(m0)
            key = ('C04', seed, n)
            out.note_case(key, suites.nontrivial('C04', m0, cfg))
            out.dist['wf' if wf else 'malformed'] += 1
            out.sample(dict(suite='layout-families', key=key, canonical=srcs[0][:300], wild=srcs[-2][:500]))
            for j, (mo, re_) in enumerate(zip(models, reals)):
                if ('err' in mo) != ('err' in re_) or ('rst' in mo and mo['rst'] != re_['rst']):
                    out.disagreements.append(dict(suite='layout-families', key=key, variant=j, source=srcs[j], module=variants[min(j, k - 1)], cfg=cfg,
                                                  detail=dict(kind='output', model=mo.get('rst', mo), real=re_.get('rst', re_))))
            base = reals[0]
            for j in range(1, k):
                if reals[j].get('rst') != base.get('rst') or ('err' in reals[j]) != ('err' in base):
                    out.violations.append(dict(suite='layout-families', key=key, module=variants[j], cfg=cfg, source=srcs[j], base_source=srcs[0],
                                               detail=dict(kind='two layouts of one token sequence give different pages', variant=j,
                                                           base=base.get('rst', base), real=reals[j].get('rst', reals[j])),
                                               model_agrees=models[j].get('rst') == reals[j].get('rst')))
                    break
            if 'rst' in base and 'rst' in reals[1]:
                cr = reals[k]
                if 'rst' not in cr or crlf_norm(cr['rst']) != crlf_norm(reals[1]['rst']):
                    out.violations.append(dict(suite='layout-families', key=key, module=variants[1], cfg=cfg, source=srcs[k], base_source=srcs[1], crlf=True,
                                               detail=dict(kind='CRLF conversion changes more than line endings and blank lines',
                                                           lf=reals[1]['rst'], crlf=cr.get('rst', cr)), model_agrees=models[k].get('rst') == cr.get('rst')))
            if 'rst' in reals[k + 1]:
                cr = reals[k + 2]
                if 'rst' not in cr or crlf_norm(cr['rst']) != crlf_norm(reals[k + 1]['rst']):
                    out.violations.append(dict(suite='layout-families', key=key, module=vm, cfg=cfg, source=srcs[k + 2], base_source=srcs[k + 1], crlf=True,
                                               detail=dict(kind='CRLF conversion changes more than line endings and blank lines (doccomments with empty lines)',
                                                           lf=reals[k + 1]['rst'], crlf=cr.get('rst', cr)), model_agrees=models[k + 2].get('rst') == cr.get('rst')))
            if reals[k + 3].get('rst') != reals[k + 1].get('rst') or ('err' in reals[k + 3]) != ('err' in reals[k + 1]):
                out.violations.append(dict(suite='layout-families', key=key, module=vm, cfg=cfg, source=srcs[k + 3], base_source=srcs[k + 1],
                                           detail=dict(kind='moving a doccomment block to the right as a whole changes the page', base=reals[k + 1].get('rst', reals[k + 1]),
                                                       real=reals[k + 3].get('rst', reals[k + 3])), model_agrees=models[k + 3].get('rst') == reals[k + 3].get('rst')))
            done += 1
    out.suites.append(dict(name='layout-families', modules=done, layouts_each=k + 4))


def family_replay(v, drv):
    with impl.Sandbox() as sb:
        a = impl.real_pipeline(sb, v['base_source'], impl.make_settings(v.get('cfg'), headers=['#']), 'T', 'M')
        b = impl.real_pipeline(sb, v['source'], impl.make_settings(v.get('cfg'), headers=['#']), 'T', 'M')
    if v.get('crlf'): fails = 'rst' not in b or 'rst' not in a or crlf_norm(a['rst']) != crlf_norm(b['rst'])
    else: fails = a != b
    return dict(fails=fails, base=a, variant=b)


# ---- C05: acceptance and argument boundaries ---------------------------------------------------------------------------
def abstract_commands(m):
    """the command list the abstract module denotes: (name as written, argument structure with token texts)"""
    def args(as_):
        out = []
        for a in as_:
            t = a[1]
            out.append(args(t[1]) if t[0] == 'g' else GM.tok_text(t))
        return out
    cmds = []
    def rec(items):
        for it in items:
            for key in ('call', 'open', 'decl', 'impl'):
                if key in it: cmds.append(dict(name=it[key]['name'], args=args(it[key]['args'])))
            if 'body' in it: rec(it['body'])
            if 'close' in it: cmds.append(dict(name=it['close']['name'], args=args(it['close']['args'])))
    rec(m['items'])
    return cmds


def balanced(m):
    """blocks balanced as CMake/CMakePP require: holds by construction of the tree (closer names may be swapped between
    endfunction/endmacro by the generator, which CMake rejects) — keep only trees whose closers match"""
    for it in GM.walk_items(m['items']):
        if it['k'] == 'block':
            if GM.STRUCT_OPEN.get(GM.cname(it['open'])) != GM.cname(it['close']): return False
        if it['k'] == 'decl':
            if 'end' + GM.cname(it['impl']) != GM.cname(it['close']): return False
    return True


def accept_suite(seed, count, out, drv, budget_s=None):
    t0 = time.time(); done = 0
    with impl.Sandbox() as sb:
        batch = 50
        while done < count:
            if budget_s and time.time() - t0 > budget_s:
                out.notes.append(f"acceptance suite stopped at {done}/{count} (time budget)"); break
            cases = []
            for n in range(done, min(count, done + batch)):
                m, cfg = suites.gen_case('C05', seed, n)
                cases.append(((('C05', seed, n)), m, cfg))
            rend = drv.run([dict(op='render', module=m) for _, m, _ in cases])
            parses = drv.run([dict(op='parse', src=r['src']) for r in rend])
            models = drv.run([dict(op='pipeline', cfg=suites.model_cfg(m, cfg), headers=['#'], title='T', mod='M', src=r['src'])
                              for (_, m, cfg), r in zip(cases, rend)])
            for (key, m, cfg), r, mp, mo in zip(cases, rend, parses, models):
                src = r['src']
                rp = impl.real_parse(sb, src)
                real = impl.real_pipeline(sb, src, impl.make_settings(cfg, headers=['#']), 'T', 'M')
                out.traces_validated += 1
                wf, why = GM.well_formed(m); bal = balanced(m)
                out.note_case(key, True)
                out.dist['wf' if wf else 'malformed'] += 1
                out.sample(dict(suite='acceptance', key=key, source=src[:500]))
                if rp != mp and not (_syntax(rp) and _syntax(mp)):
                    out.disagreements.append(dict(suite='acceptance', key=key, source=src, module=m, cfg=cfg, detail=dict(kind='parse events', model=mp, real=rp)))
                if ('err' in mo) != ('err' in real):
                    out.disagreements.append(dict(suite='acceptance', key=key, source=src, module=m, cfg=cfg, detail=dict(kind='accept/reject', model=mo, real=real)))
                if not (wf and bal): continue
                want = abstract_commands(m)
                if 'events' not in rp:
                    out.violations.append(dict(suite='acceptance', key=key, source=src, module=m, cfg=cfg, detail=dict(kind='valid file rejected by the parser', real=rp),
                                               model_agrees='events' not in mp))
                    continue
                got = [dict(name=e['name'], args=e['args']) for e in rp['events'] if e['e'] in ('cmd', 'doccmd')]
                if got != want:
                    out.violations.append(dict(suite='acceptance', key=key, source=src, module=m, cfg=cfg,
                                               detail=dict(kind='command/argument boundaries differ from the file', expected=want, real=got), model_agrees=rp == mp))
                elif 'err' in real and not (real.get('kind') in ('TypeError', 'KeyError')):
                    out.violations.append(dict(suite='acceptance', key=key, source=src, module=m, cfg=cfg, detail=dict(kind='valid file not processed to completion', real=real),
                                               model_agrees=('err' in mo)))
            done += len(cases)
    out.suites.append(dict(name='acceptance', modules=done))


def big_file_suite(seed, count, out, drv):
    """files larger than any read buffer, full of multi-byte UTF-8 text in comments: the page must be the one of the unpadded file
    (a decoder working on fixed-size chunks splits a character at a chunk boundary for some padding)"""
    with impl.Sandbox() as sb:
        n = 0; done = 0
        while done < count and n < count * 6:
            m, cfg = suites.gen_case('C05', seed + 104729, n); n += 1
            if not (GM.well_formed(m)[0] and balanced(m)) or m.get('bom'): continue
            src = drv.run([dict(op='render', module=m)])[0]['src']
            base = impl.real_pipeline(sb, src, impl.make_settings(cfg, headers=['#']), 'T', 'M')
            if 'err' in base: continue
            line = '# ' + 'é✓𝒳ü' * 12 + '\n'
            for shift in range(12):      # the shift comes first, so that every chunk boundary falls on every byte of some character
                pad = '#' + 'x' * shift + '\n' + line * (9000 // len(line.encode('utf-8')) + 1)
                big = pad + src
                real = impl.real_pipeline(sb, big, impl.make_settings(cfg, headers=['#']), 'T', 'M')
                mo = drv.run([dict(op='pipeline', cfg=suites.model_cfg(m, cfg), headers=['#'], title='T', mod='M', src=big)])[0]
                key = ('C05', 'big', seed, n, shift); out.traces_validated += 1; out.note_case(key, True); out.dist['big-file'] += 1
                rec = dict(suite='big-file', key=key, source=big, module=m, cfg=cfg, pad_bytes=len(pad.encode('utf-8')))
                if ('err' in mo) != ('err' in real) or mo.get('rst') != real.get('rst'):
                    out.disagreements.append(dict(rec, detail=dict(kind='padded file', model=str(mo)[:300], real=str(real)[:300])))
                if 'err' in real:
                    out.violations.append(dict(rec, detail=dict(kind='valid file not processed to completion once it is preceded by %d bytes of comment lines' % len(pad.encode('utf-8')),
                                                                real=real), model_agrees='err' in mo))
                elif real['rst'] != base['rst']:
                    out.violations.append(dict(rec, detail=dict(kind='comment lines in front of the file changed the page', expected=base['rst'][:400], real=real['rst'][:400]),
                                               model_agrees=mo.get('rst') == real['rst']))
            done += 1
    out.suites.append(dict(name='big-file', modules=done))


def accept_replay(v, drv):
    if v.get('suite') == 'big-file':
        with impl.Sandbox() as sb:
            real = impl.real_pipeline(sb, v['source'], impl.make_settings(v.get('cfg'), headers=['#']), 'T', 'M')
        return dict(fails='err' in real, real=str(real)[:600])
    m = v['module']
    r = drv.run([dict(op='render', module=m)])[0]
    with impl.Sandbox() as sb:
        rp = impl.real_parse(sb, r['src']); real = impl.real_pipeline(sb, r['src'], impl.make_settings(v.get('cfg'), headers=['#']), 'T', 'M')
    want = abstract_commands(m)
    got = [dict(name=e['name'], args=e['args']) for e in rp.get('events', []) if e['e'] in ('cmd', 'doccmd')]
    return dict(fails=('events' not in rp) or got != want or 'err' in real, parse=rp, expected=want, real=real)


def corpus_suite(n_files, seed, out, drv):
    """real-world modules shipped with CMake: the model and ANTLR must agree; every file CMake ships must be accepted"""
    files = sorted(glob.glob('/usr/share/cmake-3.25/**/*.cmake', recursive=True))
    random.Random(f"C05/corpus/{seed}").shuffle(files); files = files[:n_files]
    with impl.Sandbox() as sb:
        texts = []
        for f in files:
            try: texts.append((f, open(f, encoding='utf-8-sig').read()))
            except Exception: out.dist['corpus:not-utf8'] += 1
        parses = drv.run([dict(op='parse', src=t) for _, t in texts])
        for (f, t), mp in zip(texts, parses):
            rp = impl.real_parse(sb, t)
            out.traces_validated += 1; out.evaluations += 1
            if ('events' in rp) != ('events' in mp) or ('events' in rp and rp != mp):
                out.disagreements.append(dict(suite='corpus', key=f, source=t[:2000], detail=dict(kind='parse of shipped module', model=str(mp)[:500], real=str(rp)[:500])))
            if 'events' not in rp:
                if '@' in t and ('.in' in f or 'Template' in f or '@_' in t or '@)' in t or '(@' in t):
                    out.dist['corpus:template-rejected'] += 1     # configure_file templates are not CMake code until substituted
                else:
                    out.violations.append(dict(suite='corpus', key=f, source=t[:3000], detail=dict(kind='shipped CMake module rejected', real=rp), model_agrees='events' not in mp))
            else: out.dist['corpus:accepted'] += 1
    out.suites.append(dict(name='corpus', files=len(files)))


def cmake_trace_suite(seed, count, out, drv):
    """independent reference for argument boundaries: CMake's own raw argument lists (`--trace-format=json-v1`)"""
    import shutil
    if not shutil.which('cmake'):
        out.notes.append('cmake not found: trace oracle skipped'); return
    g = random.Random(f"C05/trace/{seed}")
    gen = GM.Gen(g, layout=2)
    calls = []
    for _ in range(count):
        toks = [gen.tok() for _ in range(g.randint(0, 5))]
        # CMake splits the degenerate unquoted argument `[=` …; legacy forms are outside the guarantee
        toks = [t for t in toks if not (t[0] == 'b' and (t[1].startswith('[') or '"' in t[1].replace('\\"', '')))]
        calls.append(gen.call('probe', toks, 0, groups=False))
    m = dict(bom=False, moddoc=None, items=[dict(k='cmd', doc=None, call=c) for c in calls], tail=[['n']])
    src = drv.run([dict(op='render', module=m)])[0]['src']
    with impl.Sandbox() as sb:
        p = sb.write('probe.cmake', 'function(probe)\nendfunction()\n' + src)
        tr = os.path.join(sb.dir, 'trace.json')
        pr = subprocess.run(['cmake', '--trace-format=json-v1', '--trace-redirect=' + tr, '-P', p], capture_output=True, text=True, errors='replace')
        if pr.returncode != 0:
            out.violations.append(dict(suite='cmake-trace', key=seed, source=src, detail=dict(kind='CMake itself rejects the rendered file (reference spec wrong?)', stderr=pr.stderr[-500:]), model_agrees=True)); return
        got = []
        for line in open(tr, encoding='utf-8'):
            try: j = json.loads(line)
            except Exception: continue
            if str(j.get('cmd', '')).lower() == 'probe': got.append(j.get('args', []))
        rp = impl.real_parse(sb, src)
    def unq(t):   # CMake reports quoted/bracket arguments without their delimiters, unevaluated
        return t
    want = [[GM.tok_text(a[1]) for a in c['args']] for c in calls]
    mine = [e['args'] for e in rp.get('events', [])]
    out.evaluations += len(calls); out.traces_validated += len(calls)
    def strip_delims(t):
        if t.startswith('"') and t.endswith('"') and len(t) >= 2:
            return t[1:-1].replace('\\\r\n', '').replace('\\\n', '')      # CMake's lexer removes quoted line continuations
        if t.startswith('['):
            n = len(t) - len(t.lstrip('[').lstrip('=')) if False else None
            k = 1
            while k < len(t) and t[k] == '=': k += 1
            if k < len(t) and t[k] == '[': return t[k + 1:len(t) - (k + 1)]
        return t
    norm = lambda a: [strip_delims(x) for x in a]
    bad = [(w, g_) for w, g_ in zip(want, got) if norm(w) != list(g_)]
    if len(got) != len(want) or bad:
        out.violations.append(dict(suite='cmake-trace', key=seed, source=src, detail=dict(kind='abstract argument boundaries differ from CMake', sample=bad[:3], n_want=len(want), n_got=len(got)), model_agrees=True))
    if mine != want:
        out.violations.append(dict(suite='cmake-trace', key=seed, source=src, detail=dict(kind='CMinx argument boundaries differ from the file', sample=[(w, m_) for w, m_ in zip(want, mine) if w != m_][:3]), model_agrees=True))
    out.suites.append(dict(name='cmake-trace', calls=len(calls)))


# ---- C06: fault injection ----------------------------------------------------------------------------------------------
FAULTS = ['"', '\\a', '\\', '(', ')', 'zz', '#[[ ', '#[=[ ', '\\9', ' " ', '\\Z',
          # a module doccomment where none may stand, alone and followed by stray text (an error handler that forgives the first must
          # not swallow the second while it resynchronises)
          '\n#[[[ @module m\n#]]\n', '\n#[[[ @module m\n#]]\n"stray")\n', '\n#[[[ @module m\n#]]\nstray text\n']


def comment_spans(src, drv):
    """character ranges covered by comment/doccomment tokens of the unmodified file (faults go outside comments)"""
    r = drv.run([dict(op='lex', src=src)])[0]
    spans = []; pos = 0
    for kind, text in r.get('toks', []):
        if kind in ('Bracket_comment', 'Line_comment', 'Docstring', 'Module_docstring'): spans.append((pos, pos + len(text)))
        pos += len(text)
    return spans


def fault_suite(seed, n_modules, out, drv, budget_s=None, pairs=False, max_len=500):
    t0 = time.time(); done = 0
    with impl.Sandbox() as sb:
        for n in range(n_modules):
            if budget_s and time.time() - t0 > budget_s:
                out.notes.append(f"fault suite stopped at {done}/{n_modules} modules (time budget)"); break
            g = random.Random(f"C06/{seed}/{n}")
            gen = GM.Gen(g, layout=g.choice([0, 1, 1, 2]), lg=random.Random(f"C06/{seed}/{n}/l"), max_items=4, max_depth=2, p_doc=0.4)
            m = gen.module(moddoc=False)
            wf, _ = GM.well_formed(m)
            src = drv.run([dict(op='render', module=m)])[0]['src']
            if not wf or len(src) > max_len or src.startswith('\ufeff'): continue
            # the fault must be reported under every configuration, also with all include_undocumented_* options off
            fcfg = g.choice([{}, {}, {'incl': {f: False for f in GM.FLAGS}}, {'incl': {f: g.random() < 0.5 for f in GM.FLAGS}}])
            if fcfg.get('incl') and not fcfg['incl'].get('cpp_class', True) and any(it['k'] == 'block' and GM.cname(it['open']) == 'cpp_class' and it.get('doc') for it in GM.walk_items(m['items'])):
                fcfg = {}      # K1 region
            base = impl.real_pipeline(sb, src, impl.make_settings(fcfg), 'T', 'M')
            if 'err' in base: continue
            spans = comment_spans(src, drv)
            inside = lambda p: any(a < p < b or (a == p and False) for a, b in spans)
            faulty = []
            for pos in range(len(src) + 1):
                if inside(pos): continue
                for f in FAULTS:
                    faulty.append((pos, f, 'ins', src[:pos] + f + src[pos:]))
                if pos < len(src) and src[pos] in '()"' and not inside(pos) and not any(a <= pos < b for a, b in spans):
                    faulty.append((pos, src[pos], 'del', src[:pos] + src[pos + 1:]))
            # a file cut off at any point (alone, or with another well-formed piece pasted behind it), and two closing parentheses lost
            tail = '\n#[[[\n# pasted\n#]]\nfunction(pasted_fn a)\nendfunction()\n'
            for pos in range(1, len(src)):
                if inside(pos): continue
                faulty.append((pos, 'EOF', 'trunc', src[:pos]))
                if src[pos - 1] in '( \n': faulty.append((pos, 'EOF+doc', 'trunc', src[:pos] + tail))
            closes = [i for i, ch in enumerate(src) if ch == ')' and not any(a <= i < b for a, b in spans)]
            for a_, b_ in zip(closes, closes[1:]):
                faulty.append(((a_, b_), '))', 'del2', src[:a_] + src[a_ + 1:b_] + src[b_ + 1:]))
            if pairs:
                singles = [x for x in faulty if x[2] == 'ins']
                for _ in range(len(singles) // 10):
                    (p1, f1, _, _), (p2, f2, _, _) = g.choice(singles), g.choice(singles)
                    if p1 > p2: p1, f1, p2, f2 = p2, f2, p1, f1
                    faulty.append(((p1, p2), (f1, f2), 'pair', src[:p1] + f1 + src[p1:p2] + f2 + src[p2:]))
            models = drv.run([dict(op='pipeline', cfg=dict(incl=fcfg.get('incl', {})), headers=['#'], title='T', mod='M', src=s) for _, _, _, s in faulty])
            out.sample(dict(suite='fault-injection', module_source=src[:400], faults=len(faulty)))
            for (pos, f, mode, s), mo in zip(faulty, models):
                real = impl.real_pipeline(sb, s, impl.make_settings(fcfg), 'T', 'M')
                out.traces_validated += 1
                key = ('C06', seed, n, pos, f, mode)
                m_ok = 'rst' in mo; r_ok = 'rst' in real
                out.dist['both-reject' if not m_ok and not r_ok else ('both-accept' if m_ok and r_ok else 'differ')] += 1
                out.dist['fault:' + (f if isinstance(f, str) and mode != 'pair' else 'pair')] += 1
                out.note_case(key, not m_ok)
                if m_ok != r_ok or (m_ok and mo['rst'] != real['rst']):
                    out.disagreements.append(dict(suite='fault-injection', key=key, source=s, detail=dict(kind='accept/reject', model=mo, real=real)))
                # the property: a faulty file must fail loudly.  Ground truth "faulty" = the model's lexer/parser (proved
                # lossless) rejects it, cross-checked by a direct lossless-view test on the REAL tokens when the real code accepts
                if r_ok:
                    rl = impl.real_lex(s)
                    if 'err' in rl:
                        out.violations.append(dict(suite='fault-injection', key=key, source=s, detail=dict(kind='page produced although the lexer cannot tokenise the file', lex=rl, real=real), model_agrees=m_ok))
                    elif ''.join(t for _, t in rl['toks']) != s:
                        out.violations.append(dict(suite='fault-injection', key=key, source=s, detail=dict(kind='token texts do not add up to the file (characters skipped)', real=real), model_agrees=m_ok))
                    elif not m_ok and mo.get('err') in ('lex', 'parse'):
                        out.violations.append(dict(suite='fault-injection', key=key, source=s, detail=dict(kind='file with a lexical/syntactic fault was documented', model=mo, real=real), model_agrees=False))
            done += 1
    out.suites.append(dict(name='fault-injection', modules=done))


def fault_replay(v, drv):
    if v.get('suite') == 'cli-faults':
        status, wrote = cli_fault_case(v['source'], v.get('layout', 'flat'))
        return dict(fails=status == 0 or bool(wrote), status=status, pages_written=wrote)
    with impl.Sandbox() as sb:
        real = impl.real_pipeline(sb, v['source'], impl.make_settings(), 'T', 'M')
    mo = drv.run([dict(op='pipeline', cfg={}, headers=['#'], title='T', mod='M', src=v['source'])])[0]
    rl = impl.real_lex(v['source'])
    fails = 'rst' in real and ('err' in rl or mo.get('err') in ('lex', 'parse'))
    return dict(fails=fails, real=real, model=mo, lex=rl if 'err' in rl else 'ok')


CLI_LAYOUTS = ['file', 'flat', 'flat-r', 'root-then-sub', 'sub-then-sub', 'last-sub', 'deep-first', 'two-bad', 'stale-page', 'stale-page-file', 'same-name-inputs']


def cli_fault_case(text, layout):
    """run main() on a tree holding the faulty file `text` (layout names where it sits among healthy files); -> (status, pages written for faulty files)"""
    import contextlib, io
    good = 'function(g)\nendfunction()\n'
    with impl.Sandbox() as sb:
        inp = os.path.join(sb.dir, 'in'); os.makedirs(inp)
        files = {'a_good.cmake': good}
        bad = ['bad.cmake']; rec = layout not in ('file', 'flat', 'stale-page', 'stale-page-file', 'same-name-inputs')
        if layout == 'root-then-sub': files.update({'bad.cmake': text, 'sub/ok.cmake': good})
        elif layout == 'sub-then-sub': files.update({'a_sub/bad.cmake': text, 'z_sub/ok.cmake': good}); bad = ['a_sub/bad.cmake']
        elif layout == 'last-sub': files.update({'a_sub/ok.cmake': good, 'z_sub/bad.cmake': text}); bad = ['z_sub/bad.cmake']
        elif layout == 'deep-first': files.update({'a_sub/deep/bad.cmake': text, 'a_sub/ok.cmake': good, 'z_sub/ok.cmake': good, 'zz.cmake': good}); bad = ['a_sub/deep/bad.cmake']
        elif layout == 'two-bad': files.update({'bad.cmake': text, 'sub/bad2.cmake': 'set(x "abc)\n', 'sub/zub/ok.cmake': good}); bad = ['bad.cmake', 'sub/bad2.cmake']
        else: files['bad.cmake'] = text
        for rel, t in files.items():
            os.makedirs(os.path.dirname(os.path.join(inp, rel)), exist_ok=True)
            with open(os.path.join(inp, rel), 'w', newline='') as f: f.write(t)
        outd = os.path.join(sb.dir, 'out')
        args = [os.path.join(inp, 'bad.cmake') if layout in ('file', 'stale-page-file') else inp, '-o', outd] + (['-r'] if rec else [])
        stale = None
        if layout in ('stale-page', 'stale-page-file'):
            # the page of an earlier run is still there and is newer than the (restored, older) broken source
            os.makedirs(outd); stale = 'STALE PAGE OF AN EARLIER RUN\n'
            with open(os.path.join(outd, 'bad.rst'), 'w') as f: f.write(stale)
            old_t = time.time() - 86400
            os.utime(os.path.join(inp, 'bad.cmake'), (old_t, old_t))
        if layout == 'same-name-inputs':
            # two lone inputs with one base name: the page just written for the healthy one must not stand in for the broken one
            os.makedirs(os.path.join(sb.dir, 'good')); os.makedirs(os.path.join(sb.dir, 'worse'))
            with open(os.path.join(sb.dir, 'good', 'util.cmake'), 'w') as f: f.write(good)
            with open(os.path.join(sb.dir, 'worse', 'util.cmake'), 'w', newline='') as f: f.write(text)
            old_t = time.time() - 86400
            os.utime(os.path.join(sb.dir, 'worse', 'util.cmake'), (old_t, old_t))
            args = [os.path.join(sb.dir, 'good', 'util.cmake'), os.path.join(sb.dir, 'worse', 'util.cmake'), '-o', outd]; bad = []
        status = 0
        cfgdir = os.path.join(sb.dir, 'home'); os.makedirs(cfgdir)
        old_env = {k_: os.environ.get(k_) for k_ in ('HOME', 'XDG_CONFIG_HOME')}
        os.environ['HOME'] = cfgdir; os.environ['XDG_CONFIG_HOME'] = os.path.join(cfgdir, '.config')
        try:
            with contextlib.redirect_stdout(io.StringIO()), contextlib.redirect_stderr(io.StringIO()):
                try: impl.cminx.main(args)
                except SystemExit as e: status = e.code if isinstance(e.code, int) else (0 if e.code is None else 1)
                except BaseException as e:
                    if isinstance(e, (KeyboardInterrupt, MemoryError)): raise
                    status = 1
        finally:
            for k_, v_ in old_env.items():
                if v_ is None: os.environ.pop(k_, None)
                else: os.environ[k_] = v_
            import logging
            logging.disable(logging.NOTSET)
        def written(b):
            pg = os.path.join(outd, b[:-len('.cmake')] + '.rst')
            if not os.path.exists(pg): return False
            return stale is None or open(pg).read() != stale
        wrote = [b for b in bad if written(b)]
    return status, wrote


def cli_fault_suite(seed, n, out, drv):
    """CLI level: a faulty file anywhere in the processed tree makes `main` fail (exception or non-zero SystemExit) and leaves no .rst for that file"""
    bad_files = ['set(x a\\bc)\n', 'set(x "abc)\nfoo()\n', 'set(x a)\n"\nset(y b)\n', '#[[ unterminated\nset(x a)\n', '#[=[ unterminated ]]\nset(x a)\n',
                 'set(y b)\nfoo', 'set(y b))\n', 'set(y (b)\n', 'set(x a\\', 'foo bar()\n', 'set(x \\9)\n', 'set(x "a\\qb")\n', 'set(x a)\n)\n',
                 'function(f)\nendfunction()\n"', 'function(f)\n#[[[\n# d\n#]]\nset(v 1)\nendfunction(\n']
    g = random.Random(f"C06/cli/{seed}")
    for k in range(n):
        text = g.choice(bad_files); layout = CLI_LAYOUTS[k % len(CLI_LAYOUTS)]
        status, wrote = cli_fault_case(text, layout)
        out.traces_validated += 1; out.evaluations += 1
        out.dist['cli:status-nonzero' if status else 'cli:status-zero'] += 1; out.dist[f'cli-layout:{layout}'] += 1
        if status == 0 or wrote:
            out.violations.append(dict(suite='cli-faults', key=(seed, k), source=text, layout=layout,
                                       detail=dict(kind='faulty file did not fail loudly at the command line', status=status, pages_written=wrote), model_agrees=False))
    out.suites.append(dict(name='cli-faults', runs=n))
