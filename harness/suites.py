"""Correspondence + oracle suites.  Each suite explores inputs for one property and fills an Outcome:
  disagreements – model (Lean, for which the theorems are proved) and real code differ under the property's projection
  violations    – the property's own predicate, evaluated on the REAL code's output against ground truth computed from
                  the abstract input, fails
"""
import collections, copy, hashlib, json, os, random, re, time

import common, impl, gen_modules as GM, oracle


class Outcome:
    def __init__(self, prop):
        self.prop = prop
        self.evaluations = 0
        self.nontrivial = set()
        self.samples = []
        self.dist = collections.Counter()
        self.disagreements = []
        self.violations = []
        self.known_hits = collections.Counter()
        self.traces_validated = 0
        self.exhaustive = False
        self.notes = []
        self.suites = []

    def sample(self, s, limit=4):
        if len(self.samples) < limit: self.samples.append(s)

    def note_case(self, key, nontrivial):
        self.evaluations += 1
        if nontrivial:
            self.nontrivial.add(hashlib.sha1(json.dumps(key, sort_keys=True, default=str, ensure_ascii=False).encode()).hexdigest())


def strip_tables(m, cfg):
    rx = cfg.get('regex', {})
    texts = GM.all_arg_texts(m)
    return {k: {t: re.sub(rx.get(k, ''), '', t) for t in texts} for k in ('fn', 'macro', 'member')}


def model_cfg(m, cfg):
    return dict(incl=cfg.get('incl', {}), trigger=cfg.get('trigger', ':param **kwargs:'), strip=strip_tables(m, cfg))


def has_crlf_doc(m):
    return bool((m['moddoc'] or {}).get('crlf')) or any((it.get('doc') or {}).get('crlf') for it in GM.walk_items(m['items']))


# ---- non-triviality rules ------------------------------------------------------------------------------------
def kinds_of(m):
    ks = collections.Counter()
    for it in GM.walk_items(m['items']):
        if it['k'] == 'cmd': ks[GM.cname(it['call'])] += 1
        elif it['k'] == 'block': ks[GM.cname(it['open'])] += 1
        elif it['k'] == 'decl': ks[GM.cname(it['decl'])] += 1
        else: ks['dangling'] += 1
        if it.get('doc') is not None and it['k'] != 'dangling': ks['documented'] += 1
    return ks


def nontrivial(prop, m, cfg):
    ks = kinds_of(m)
    docs = [it['doc'] for it in GM.walk_items(m['items']) if it.get('doc')] + ([m['moddoc']] if m['moddoc'] else [])
    if prop == 'C01': return any(any(l.strip() for l in d['lines']) for d in docs)
    if prop == 'C02': return sum(ks.values()) - ks['documented'] >= 3 and ks['documented'] >= 1
    if prop == 'C03': return (ks['function'] + ks['macro'] >= 1) and (ks['cmake_parse_arguments'] >= 1 or any(cfg.get('trigger', 'x') in GM.doc_text(d) for d in docs))
    if prop == 'C04': return sum(ks.values()) >= 2
    if prop == 'C05': return sum(ks.values()) >= 1
    if prop == 'C07': return ks['documented'] >= 1
    if prop == 'C08': return any(not v for v in cfg.get('incl', {}).values()) and sum(ks.values()) >= 2
    if prop == 'C09': return ks['cpp_class'] >= 1 and (ks['cpp_member'] + ks['cpp_attr'] + ks['cpp_constructor'] >= 1)
    if prop == 'C10': return ks['set'] + ks['option'] >= 1
    if prop == 'C11': return ks['ct_add_test'] + ks['ct_add_section'] + ks['add_test'] >= 1
    if prop == 'C12': return True
    return True


# ---- profiles --------------------------------------------------------------------------------------------------
def profile(prop, g):
    """generator settings per property: (Gen kwargs, cfg)"""
    base_cfg = {'incl': {}, 'trigger': ':param **kwargs:', 'regex': {'fn': '', 'macro': '', 'member': ''}}
    kw = dict(layout=g.choice([0, 1, 1, 2]), p_doc=0.5, max_depth=3, max_items=6, malformed=0.0)
    cfg = copy.deepcopy(base_cfg)
    if prop == 'C01':
        kw.update(p_doc=0.85, layout=g.choice([1, 2, 2]), max_items=5, p_docimpl=g.choice([0, 0, 0.4]), p_stale=g.choice([0, 0, 0.3]))
    elif prop == 'C02':
        kw.update(max_depth=4, layout=g.choice([1, 2, 2]), malformed=g.choice([0, 0, 0, 0.15]), p_docimpl=g.choice([0, 0, 0.4]),
                  p_dup=g.choice([0, 0.35]), p_stale=g.choice([0, 0, 0, 0.25]), same_line=g.choice([0, 0, 0.3]), weights={'dangling': 1.5, 'generic': 2.0, 'blk': 1.5})
    elif prop == 'C03':
        kw.update(max_depth=4, p_docimpl=g.choice([0, 0, 0.4]), p_dup=g.choice([0, 0.5]), weights={'func': 3, 'macro': 3, 'cpa': 4, 'blk': 2, 'member': 2, 'cttest': 1.5, 'class': 1.5,
                                        'set': 0.3, 'option': 0.3, 'add_test': 0.3, 'generic': 0.5, 'dangling': 0.3})
        cfg['trigger'] = g.choice([':keyword', ':param **kwargs:', '', 'x', ':param'])
        cfg['regex'] = {'fn': g.choice(['', '^_[a-zA-Z]*_', 'x', '^.', '[0-9]+$', 'f|g']), 'macro': g.choice(['', '^_', 'a']),
                        'member': g.choice(['', '^_[a-z]*_'])}
    elif prop == 'C08':
        kw.update(weights={'class': 2.5, 'member': 2, 'attr': 2, 'ctor': 1.5, 'cttest': 1.5, 'section': 1.5}, p_doc=0.5)
        cfg['incl'] = {f: g.random() < 0.5 for f in GM.FLAGS}
    elif prop == 'C09':
        kw.update(max_depth=4, weights={'class': 5, 'member': 3, 'attr': 3, 'ctor': 2, 'func': 0.7, 'set': 0.4, 'option': 0.3,
                                        'add_test': 0.2, 'cttest': 0.4, 'dangling': 0.3, 'generic': 0.6},
                  malformed=g.choice([0, 0, 0.15]), p_docimpl=g.choice([0, 0, 0.4]), p_stale=g.choice([0, 0, 0, 0.25]))
        cfg['regex']['member'] = g.choice(['', '^_[a-z]*_', 'x', '^.'])
    elif prop == 'C10':
        # set()/option() also between a member/test declaration and its implementing definition (p_gap), and inside classes
        kw.update(weights={'set': 6, 'option': 5, 'func': 0.7, 'class': 0.6, 'member': 0.6, 'cttest': 0.9, 'add_test': 0.3}, p_doc=0.7,
                  malformed=g.choice([0, 0, 0.15]), p_dup=g.choice([0, 0.35, 0.6]), p_gap=g.choice([0.12, 0.5]))
    elif prop == 'C11':
        kw.update(weights={'cttest': 5, 'section': 5, 'add_test': 5, 'func': 0.5, 'class': 0.3, 'set': 0.3}, p_doc=0.6, max_depth=4,
                  malformed=g.choice([0, 0, 0.15]), p_docimpl=g.choice([0, 0, 0.4]), p_stale=g.choice([0, 0, 0, 0.25]))
        if g.random() < 0.3:      # the property holds under every setting: documented tests and their sections with some undocumented kinds hidden
            cfg['incl'] = {f: g.random() < 0.5 for f in GM.FLAGS}; cfg['incl']['cpp_class'] = True
    elif prop == 'C04':
        kw.update(layout=2, max_items=5, same_line=g.choice([0, 0.25]))
    elif prop == 'C05':
        kw.update(layout=2, p_doc=0.4, weights={'generic': 4, 'set': 3, 'blk': 2}, p_bracketish=0.4)
    elif prop == 'C07':
        kw.update(p_doc=0.8, layout=1, weights={'class': 2, 'member': 2, 'attr': 1.5})
    return kw, cfg


def strip_stale(m):
    """the module without its never-implemented declarations (and the cpp_virtual_member commands that go with them)"""
    import copy
    m = copy.deepcopy(m)
    def rec(items):
        out = []
        for i, it in enumerate(items):
            if it['k'] == 'cmd' and GM.cname(it['call']) in GM.DECLS:
                nxt = items[i + 1] if i + 1 < len(items) else None
                if not (nxt is not None and nxt['k'] == 'block' and GM.cname(nxt['open']) in ('function', 'macro')): continue
            if it['k'] == 'cmd' and GM.cname(it['call']) == 'cpp_virtual_member': continue
            if 'body' in it: it['body'] = rec(it['body'])
            out.append(it)
        return out
    m['items'] = rec(m['items'])
    return m


def canon_err(r):
    """lexical and syntactic errors form one class: ANTLR's parser pulls tokens lazily, so which of the two is reported
    first depends on look-ahead, while the model lexes the whole file before parsing"""
    if r.get('err') in ('lex', 'parse'): return ('syntax',)
    return (r.get('err'), r.get('kind'))


# ---- the generic module suite ------------------------------------------------------------------------------------
def compare_case(prop, m, cfg, src, model, real):
    """returns (disagreement or None, violation or None, tags)"""
    tags = []
    dis = vio = None
    wf, why = GM.well_formed(m)
    tags.append('wf' if wf else 'malformed:' + str(why).split(':')[0])
    if not wf and GM.well_formed(m, positional=True)[0]: wf = True; tags.append('wf-with-positional-add_test')
    # --- correspondence under the projection
    if ('err' in model) != ('err' in real):
        dis = dict(kind='error-status', model=model if 'err' in model else 'ok', real=real if 'err' in real else 'ok')
    elif 'err' in model:
        tags.append('err:' + model['err'])
        if canon_err(model) != canon_err(real):
            dis = dict(kind='error-kind', model=model, real=real)
    else:
        pm = oracle.project(prop, model['rst'], model['entries'])
        pr = oracle.project(prop, real['rst'], real['entries'])
        if pm != pr or model.get('errors') != real.get('errors'):
            dis = dict(kind='output', model=pm, real=pr, model_errors=model.get('errors'), real_errors=real.get('errors'))
    # --- the property's own predicate on the real output, ground truth from the abstract module
    if wf and not has_crlf_doc(m):
        spec = GM.spec_entries(m, cfg)
        if spec is None:
            tags.append('K1-region')
        elif 'err' in real:
            vio = dict(kind='well-formed module rejected', real=real)
        else:
            exp_rst = oracle.expected_rst(spec, 'T', 'M', '#')
            e_rst, e_ent = oracle.loosen(oracle.neutralise(exp_rst), spec, spec)
            r_rst, r_ent = oracle.loosen(oracle.neutralise(real['rst']), real['entries'], spec)
            pe = oracle.project(prop, e_rst, e_ent)
            pr = oracle.project(prop, r_rst, r_ent)
            if pe != pr:
                vio = dict(kind='output differs from what the module prescribes', expected=pe, real=pr)
    elif not wf and not has_crlf_doc(m) and GM.well_formed(m, documented_impl=True)[0]:
        # implementing definitions with doccomments of their own: both readings of the property text are accepted for that
        # definition's own entry; everything else on the page is prescribed as usual
        tags.append('wf-with-documented-impl')
        # C01 ("no doccomment line is dropped") leaves no choice: the definition's own doccomment must appear, so it has an entry
        specs = [GM.spec_entries(m, cfg, reading=r) for r in (('A', 'A2', 'A2') if prop == 'C01' else ('A', 'B', 'A2'))]
        if specs[0] is None: tags.append('K1-region')
        elif 'err' in real: vio = dict(kind='well-formed module rejected', real=real)
        else:
            pr = oracle.project(prop, oracle.neutralise(real['rst']), real['entries'])
            pes = [oracle.project(prop, oracle.neutralise(oracle.expected_rst(sp, 'T', 'M', '#')), sp) for sp in specs]
            if pr not in pes:
                vio = dict(kind='output differs from what the module prescribes (under either reading of a documented implementing definition)',
                           expected=pes[0], expected_other_reading=pes[1], real=pr)
    elif prop == 'C09' and not wf and not has_crlf_doc(m) and 'err' not in real and GM.well_formed(strip_stale(m), documented_impl=True)[0] \
            and all(cfg.get('incl', {}).get(f, True) for f in ('cpp_class', 'cpp_member', 'cpp_constructor')):
        # the only irregularity is a declaration that is never implemented (known finding K8: the NEXT definition anywhere later is taken for
        # its implementation).  What a declaration that IS directly followed by its definition shows does not depend on that: its
        # parameter names are those of its own definition, whatever was left pending before it
        tags.append('adjacent-pairs-only')
        methods = [x for e in real['entries'] if e.get('t') == 'class' for x in e['ctors'] + e['members']]
        rx = (cfg.get('regex') or {}).get('member', '')
        def pairs(items, in_class):
            for it in items:
                if it['k'] == 'decl' and in_class and GM.cname(it['decl']) in ('cpp_member', 'cpp_constructor'):
                    d_ = GM.singles(it['decl']); i_ = GM.singles(it['impl'])
                    if len(d_) >= 2 and len(i_) >= 1 and GM.cname(it['impl']) in ('function', 'macro'):
                        yield dict(name=d_[0], types=d_[2:], params=[re.sub(rx, '', p_) for p_ in i_[2:]], macro=GM.cname(it['impl']) == 'macro', ctor=GM.cname(it['decl']) == 'cpp_constructor')
                if it['k'] == 'block':
                    n_ = GM.cname(it['open'])
                    yield from pairs(it['body'], (n_ == 'cpp_class' and len(GM.singles(it['open'])) >= 1) or (in_class and n_ in ('if', 'foreach', 'while')))
                elif it['k'] == 'decl': yield from pairs(it['body'], False)
        for want in pairs(m['items'], False):
            if not any(all(x.get(k_) == v_ for k_, v_ in want.items()) for x in methods):
                vio = dict(kind='a member declaration directly followed by its definition does not show that definition\'s parameters', expected=want,
                           real=[x for x in methods if x['name'] == want['name']][:4])
                break
    elif prop == 'C01' and not wf and not has_crlf_doc(m) and 'err' not in real:
        # no structural prescription for this module (malformed stream, declarations that are never implemented, ...), but the
        # property still says where the text of a doccomment on a function/macro definition goes: into the page, line for line
        tags.append('containment-only')
        for it in GM.walk_items(m['items']):
            if it['k'] == 'block' and it.get('doc') is not None and GM.cname(it['open']) in ('function', 'macro') and len(GM.singles(it['open'])) >= 1:
                para = "\n".join("   " + l for l in GM.doc_text(it['doc']).split("\n"))
                if "\n" + para + "\n" not in real['rst']:
                    vio = dict(kind='the doccomment of a function/macro definition does not appear in the page', definition=GM.singles(it['open'])[0],
                               expected_lines=para, real=real['rst'])
                    break
    return dis, vio, tags


def run_cases(prop, cases, out, drv, sb, label):
    """cases: list of (key, m, cfg)"""
    rend = drv.run([dict(op='render', module=m) for _, m, _ in cases])
    reqs = [dict(op='pipeline', cfg=model_cfg(m, cfg), headers=['#'], title='T', mod='M', src=r['src'])
            for (_, m, cfg), r in zip(cases, rend)]
    models = drv.run(reqs)
    hyps = common.ValidCheck().run([m for _, m, _ in cases])
    if hyps is None: out.dist['hyp:validcheck-unavailable'] += len(cases)
    else:
        for (_, m, cfg), h in zip(cases, hyps):
            guard = cfg.get('incl', {}).get('cpp_class', True) or not h['documented_class']
            out.dist['hyp:Module.valid' if h['valid'] else 'hyp:not-valid'] += 1
            out.dist['hyp:itemsWf' if h['wf'] else 'hyp:not-wf'] += 1
            if 'wf_seq' in h:
                if GM.well_formed(m, documented_impl=True)[0] != h['wf_seq']: out.dist['hyp:python-WF(documented_impl) differs from Lean itemsWfS'] += 1
                out.dist['hyp:itemsWfS' if h['wf_seq'] else 'hyp:not-wfS'] += 1
                if h['valid'] and h['wf_seq'] and not h['wf'] and guard: out.dist['hyp:inside-T_aggS-only (split declaration / documented implementation)'] += 1
            if h['valid'] and h['wf'] and guard: out.dist['hyp:inside-T_pipeline-domain'] += 1
    for (key, m, cfg), r, model in zip(cases, rend, models):
        real = impl.real_pipeline(sb, r['src'], impl.make_settings(cfg, headers=['#']), 'T', 'M')
        out.traces_validated += 1
        dis, vio, tags = compare_case(prop, m, cfg, r['src'], model, real)
        for t in tags: out.dist[t] += 1
        out.dist['roundtrip-' + json.dumps(r['roundtrip'], sort_keys=True)] += 1
        out.note_case(key, nontrivial(prop, m, cfg))
        out.sample(dict(suite=label, key=key, source=r['src'][:600], cfg={k: v for k, v in cfg.items() if v}))
        if dis: out.disagreements.append(dict(suite=label, key=key, module=m, cfg=cfg, source=r['src'], detail=dis))
        if vio: out.violations.append(dict(suite=label, key=key, module=m, cfg=cfg, source=r['src'], detail=vio, model_agrees=dis is None))


def gen_case(prop, seed, n):
    g = random.Random(f"{prop}/{seed}/{n}")
    kw, cfg = profile(prop, g)
    gen = GM.Gen(g, lg=random.Random(f"{prop}/{seed}/{n}/layout"), **kw)
    return gen.module(), cfg


def module_suite(prop, seed, count, out, drv, budget_s=None):
    t0 = time.time()
    with impl.Sandbox() as sb:
        batch = 100
        done = 0
        while done < count:
            if budget_s and time.time() - t0 > budget_s:
                out.notes.append(f"module suite stopped at {done}/{count} cases (time budget)"); break
            cases = []
            for n in range(done, min(count, done + batch)):
                m, cfg = gen_case(prop, seed, n)
                cases.append(((prop, seed, n), m, cfg))
            run_cases(prop, cases, out, drv, sb, 'modules')
            done += len(cases)
    out.suites.append(dict(name='modules', cases=done))
