"""Statement/branch coverage of CMinx's hand-written sources reached by a check's correspondence run.

The theorems are about the model; the model is tied to the code only on the inputs the generators reach.  This measures how much
of the *implementation* those inputs execute: every statement of the modelled functions that no generated input reaches is a
place where model and code could differ unnoticed.  Enabled with VERIF_IMPLCOV=1 (the thorough tier switches it on); written into
the evidence as coverage.impl_coverage.  Child processes (environment variants of C17, cmake of C19) are not traced.
"""
import json, os, tempfile

_cov = None


def start(repo_src):
    """must run before `cminx` is imported, otherwise the def/class lines count as never executed"""
    global _cov
    try:
        import coverage
    except ImportError:
        return False
    _cov = coverage.Coverage(data_file=None, branch=True, source=[os.path.join(repo_src, 'cminx')],
                             omit=['*/parser/CMakeLexer.py', '*/parser/CMakeParser.py', '*/parser/CMakeListener.py', '*/parser/CMakeVisitor.py',
                                   '*/__main__.py'])
    _cov.start()
    return True


def report():
    """{file: {statements, executed, missing_lines, partial_branches}} or None"""
    if _cov is None: return None
    _cov.stop()
    fd, tmp = tempfile.mkstemp(suffix='.json'); os.close(fd)
    try:
        try: _cov.json_report(outfile=tmp, ignore_errors=True)
        except Exception as e: return dict(error=repr(e)[:200])
        data = json.load(open(tmp))
    finally:
        os.unlink(tmp)
    out = {}
    for f, d in data.get('files', {}).items():
        s = d['summary']
        out[os.path.basename(os.path.dirname(f)) + '/' + os.path.basename(f)] = dict(
            statements=s['num_statements'], executed=s['covered_lines'], missing_lines=d['missing_lines'],
            branches=s.get('num_branches'), branches_taken=s.get('covered_branches'),
            partial=[b for b in d.get('missing_branches', [])][:60])
    t = data.get('totals', {})
    out['TOTAL'] = dict(statements=t.get('num_statements'), executed=t.get('covered_lines'), percent=round(t.get('percent_covered', 0), 1))
    return out
