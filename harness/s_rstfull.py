"""C20, whole writer API: histories with sections (heading character per section level), doctests, simple tables, failing
constructor calls — real writer vs the Lean model `RstFull.lean` vs an independent reference renderer; purity via pickle.

Two streams:
  * 'core'  — inside the property's quantifier: paragraphs, fields, lists, directives with options, title changes, clear, and
              sections opened on the top-level writer or on other sections (never below a directive).  The reference rendering
              is the oracle: a difference is a violation with the history as its input.
  * 'ext'   — everything the API offers: doctests, tables (also ones the constructor rejects), sections opened on directives,
              sections deeper than the header list.  The property says nothing about the text of a doctest or a table and
              reST has no sections inside directive bodies, so here only what the property does name is an oracle — purity,
              order of the added elements (unique markers), the frame of every section title that is inside the quantifier —
              and a difference between model and code is reported as a broken correspondence.
"""
import pickle, random, re
import impl
from impl import RSTWriter, Settings
from s_rst import TXT, ONE, NAMES, TITLES, ind

HEADERS = [['#', '*', '=', '-', '_', '~', '!', '&', '@', '^'], ['=', '-'], ['#'], ['ab', 'c', '~'], ['#', '=', '=', '-', '~'],
           ['~', '~', '~', '~'], ['*', '+', '*', '+', '*']]


# ---------------------------------------------------------------------------------------------------------------------
def ref_table(rows, heads):
    w = max([len(c) for r in rows for c in r] + [len(h) for h in heads] + [0])
    over = ''.join('=' * w + '  ' for _ in heads)
    hl = ''.join(h.ljust(w) + '  ' for h in heads)
    s = over + '\n' + hl + '\n' + over + '\n'
    for r in rows: s += ''.join(c.ljust(w) + '  ' for c in r) + '\n'
    return s + ''.join('=' * w + '  ' for _ in rows[0]) + '\n'


def ref_elem(e, d):
    k = e['k']
    if k == 'para': return '\n'.join(ind(d) + l for l in e['t'].split('\n'))
    if k == 'field': return '\n' + ind(d) + ':' + e['n'] + ': ' + e['t']
    if k == 'bl': return '\n' + ''.join(ind(d) + '* ' + i + '\n' for i in e['items'])
    if k == 'el': return '\n' + ''.join(ind(d) + str(j + 1) + '. ' + i + '\n' for j, i in enumerate(e['items']))
    if k == 'doctest': return '\n' + ind(d) + '>>> ' + e['line'] + '\n' + e['expected'] + '\n'
    if k == 'table': return ref_table(e['rows'], e['heads'])
    if k == 'dir':
        s = '\n' + ind(d) + '.. ' + e['title'] + ':: ' + ','.join(e['args']) + '\n'
        for (n, v) in e['opts']: s += ind(d + 1) + ':' + n + ': ' + str(v) + '\n'
        if e['ch']: s += '\n'
        for c in e['ch']: s += ref_elem(c, d + 1) + '\n'
        return s
    if k == 'sect':
        bar = e['hc'] * len(e['title'])
        s = '\n' + bar + '\n' + e['title'] + '\n' + bar + '\n'
        for c in e['ch']: s += ref_elem(c, 0) + '\n'
        return s
    raise ValueError(k)


def ref_doc(m):
    h = m['hc'] * len(m['title'])
    s = '\n' + h + '\n' + m['title'] + '\n' + h + '\n'
    for c in m['ch']: s += ref_elem(c, 0) + '\n'
    return s


def table_ok(rows, heads):
    return bool(rows) and all(len(r) == len(rows[0]) for r in rows) and (len(heads) == 0 or len(heads) == len(rows[0]))


# ---------------------------------------------------------------------------------------------------------------------
def gen_history(g, stream, max_ops, max_depth=5):
    """(headers, title, ops); handles are child-index paths.  The shadow tree knows kind, section level and whether a
    directive lies above a node."""
    hs = g.choice(HEADERS)
    mk = [0]
    def mark(s):
        if stream != 'ext': return s
        mk[0] += 1
        return s + ' @%d@' % mk[0]
    title = mark(g.choice(TITLES))
    ops = []
    root = dict(path=[], n=0, kind='root', level=0, under_dir=False); handles = [root]
    menu = ['text', 'text', 'field', 'bl', 'el', 'dir', 'dir', 'sect', 'sect', 'opt', 'title', 'clear', 'ser', 'ser']
    if stream == 'ext': menu += ['doctest', 'table', 'table', 'sect']
    for _ in range(g.randint(0, max_ops)):
        h = g.choice(handles); p = h['path']
        op = g.choice(menu)
        if op == 'text': ops.append(dict(op='text', h=p, t=mark(g.choice(TXT)))); h['n'] += 1
        elif op == 'field': ops.append(dict(op='field', h=p, n=g.choice(['Author', 'type x', 'param é']), t=mark(g.choice(ONE)))); h['n'] += 1
        elif op in ('bl', 'el'):
            n_items = g.randint(0, 3) if g.random() < 0.9 else g.randint(9, 12)
            ops.append(dict(op=op, h=p, items=[mark(g.choice(ONE)) for _ in range(n_items)])); h['n'] += 1
        elif op == 'doctest':
            ops.append(dict(op='doctest', h=p, line=mark(g.choice(['1 + 1', 'print("x")', '', 'f(é)'])), expected=g.choice(['2', 'x\ny', '', '  kept']))); h['n'] += 1
        elif op == 'table':
            ncol = g.randint(0, 3); nrow = g.randint(0, 3)
            rows = [[mark(g.choice(ONE + ['longer cell text'])) for _ in range(ncol)] for _ in range(nrow)]
            heads = [g.choice(['H', 'Heading long ✓', '']) for _ in range(ncol)] if g.random() < 0.6 else []
            r = g.random()
            if r < 0.12 and rows: rows[g.randrange(len(rows))] = rows[0] + ['extra']          # ragged
            elif r < 0.2: heads = heads + ['one too many']
            ops.append(dict(op='table', h=p, rows=rows, heads=heads))
            if table_ok(rows, heads): h['n'] += 1
        elif op == 'dir':
            if len(p) < max_depth:
                ops.append(dict(op='dir', h=p, name=mark(g.choice(NAMES)), args=[g.choice(['a', 'f(x y)', '', 'é']) for _ in range(g.randint(0, 2))]))
                handles.append(dict(path=p + [h['n']], n=0, kind='dir', level=0, under_dir=True)); h['n'] += 1
        elif op == 'sect':
            if len(p) >= max_depth: continue
            if stream == 'core' and (h['kind'] == 'dir' or h['under_dir'] or h['level'] + 1 >= len(hs)): continue
            ops.append(dict(op='sect', h=p, t=mark(g.choice(TITLES))))
            if h['level'] + 1 < len(hs):
                handles.append(dict(path=p + [h['n']], n=0, kind='sect', level=h['level'] + 1, under_dir=h['under_dir'] or h['kind'] == 'dir'))
                h['n'] += 1
        elif op == 'opt':
            if h['kind'] == 'dir': ops.append(dict(op='opt', h=p, n=g.choice(['maxdepth', 'value', 'noindex']), v=g.choice(['2', 'x', '', 'a b'])))
        elif op == 'title':
            ops.append(dict(op='title', h=p, t=mark(g.choice(TITLES + NAMES))))
        elif op == 'clear':
            ops.append(dict(op='clear', h=p)); h['n'] = 0
            handles = [x for x in handles if not (len(x['path']) > len(p) and x['path'][:len(p)] == p)]
        else:
            ops.append(dict(op='ser'))
    ops.append(dict(op='ser'))
    return hs, title, ops


# ---------------------------------------------------------------------------------------------------------------------
def run_real(hs, title, ops):
    """drive the real RSTWriter.  Returns dict(outs, refouts, raised, pure, detail, ref) — `ref` is the reference tree."""
    s = Settings(); s.rst.headers = list(hs)
    w = RSTWriter(title, settings=s)
    objs = {(): w}
    ref = dict(k='root', title=title, hc=hs[0], level=0, ch=[]); refs = {(): ref}
    outs = []; refouts = []; raised = []; pure = True; detail = None; deviation = None
    for o in ops:
        k = o['op']
        if k == 'ser':
            before = pickle.dumps(w)
            a = w.to_text(); b = str(w); c = w.to_text()
            after = pickle.dumps(w)
            if not (a == b == c) or before != after:
                pure = False; detail = dict(a=a, b=b, c=c, state_changed=before != after)
            outs.append(a); refouts.append(ref_doc(ref)); continue
        h = tuple(o['h']); obj = objs[h]; r = refs[h]
        if k == 'text': obj.text(o['t']); r['ch'].append(dict(k='para', t=o['t']))
        elif k == 'field': obj.field(o['n'], o['t']); r['ch'].append(dict(k='field', n=o['n'], t=o['t']))
        elif k == 'bl': obj.bulleted_list(*o['items']); r['ch'].append(dict(k='bl', items=o['items']))
        elif k == 'el': obj.enumerated_list(*o['items']); r['ch'].append(dict(k='el', items=o['items']))
        elif k == 'doctest': obj.doctest(o['line'], o['expected']); r['ch'].append(dict(k='doctest', line=o['line'], expected=o['expected']))
        elif k == 'table':
            before = pickle.dumps(w)
            try:
                obj.simple_table(o['rows'], o['heads']); raised.append(False)
                r['ch'].append(dict(k='table', rows=o['rows'], heads=o['heads']))
            except (ValueError, IndexError):
                raised.append(True)
                if pickle.dumps(w) != before: pure = False; detail = dict(kind='a rejected table changed the document')
            continue
        elif k == 'dir':
            idx = len(r['ch']); d = obj.directive(o['name'], *o['args'])
            e = dict(k='dir', title=o['name'], args=o['args'], opts=[], ch=[], level=0); r['ch'].append(e)
            objs[h + (idx,)] = d; refs[h + (idx,)] = e
        elif k == 'sect':
            before = pickle.dumps(w)
            lvl = r['level'] + 1
            try:
                sct = obj.section(o['t'])
            except IndexError:
                raised.append(True)
                if pickle.dumps(w) != before: pure = False; detail = dict(kind='a rejected section changed the document')
                if lvl < len(hs):
                    deviation = dict(kind='section() raised although the header list has a character for its level', level=lvl, headers=hs); break
                continue
            if lvl >= len(hs):
                deviation = dict(kind='section() accepted a level the header list has no character for', level=lvl, headers=hs); break
            idx = len(r['ch'])
            e = dict(k='sect', title=o['t'], hc=hs[lvl], level=lvl, ch=[]); r['ch'].append(e)
            objs[h + (idx,)] = sct; refs[h + (idx,)] = e
        elif k == 'opt': obj.option(o['n'], o['v']); r['opts'].append((o['n'], o['v']))
        elif k == 'title': obj.title = o['t']; r['title'] = o['t']
        elif k == 'clear':
            obj.clear(); r['ch'] = []
            for key in [key for key in objs if len(key) > len(h) and key[:len(h)] == h]:
                del objs[key]; del refs[key]
        if k not in ('table', 'sect'): raised.append(False)
        elif k == 'sect': raised.append(False)
    return dict(outs=outs, refouts=refouts, raised=raised, pure=pure, detail=detail, ref=ref, deviation=deviation)


def _markers_ref(node, acc):
    """markers in the order the property prescribes: title first, then elements in the order they were added"""
    def of(s): acc.extend(re.findall(r'@(\d+)@', s))
    if node['k'] in ('root', 'sect', 'dir'):
        of(node['title'])
        for c in node['ch']: _markers_ref(c, acc)
    elif node['k'] == 'para': of(node['t'])
    elif node['k'] == 'field': of(node['t'])
    elif node['k'] in ('bl', 'el'):
        for i in node['items']: of(i)
    elif node['k'] == 'doctest': of(node['line'])
    elif node['k'] == 'table':
        for r in node['rows']:
            for c in r: of(c)
    return acc


def _sections_in_quantifier(node, under_dir, acc):
    for c in node.get('ch', []):
        if c['k'] == 'sect':
            if not under_dir: acc.append(c)
            _sections_in_quantifier(c, under_dir, acc)
        elif c['k'] == 'dir':
            _sections_in_quantifier(c, True, acc)
    return acc


def ext_oracle(hs, res):
    """what the property names, on a history of the extended stream: order of elements and the frame of every section"""
    if not res['outs']: return None
    text = res['outs'][-1]; ref = res['ref']
    want = _markers_ref(ref, [])
    got = re.findall(r'@(\d+)@', text)
    # a title occurs once in the text (the frame consists of header characters), table cells/headings once
    if got != want:
        return dict(kind='elements are not emitted once each in the order they were added', expected_marker_order=want, real_marker_order=got)
    lines = text.split('\n')
    for s in [ref] + _sections_in_quantifier(ref, False, []):
        hc = hs[s['level']]
        idxs = [i for i, l in enumerate(lines) if l == s['title']]
        bar = hc * len(s['title'])
        if not any(0 < i < len(lines) - 1 and lines[i - 1] == bar and lines[i + 1] == bar for i in idxs):
            return dict(kind='section title is not framed by the character of its level repeated to its length', title=s['title'],
                        level=s['level'], expected_bar=bar)
    return None


# ---------------------------------------------------------------------------------------------------------------------
def full_suite(seed, count, out, drv, max_ops=25):
    cases = []
    for n in range(count):
        g = random.Random(f"C20full/{seed}/{n}")
        stream = 'core' if n % 2 == 0 else 'ext'
        cases.append((stream,) + gen_history(g, stream, max_ops))
    models = drv.run([dict(op='rstfull', headers=hs, title=t, ops=ops) for _, hs, t, ops in cases])
    for n, ((stream, hs, title, ops), mo) in enumerate(zip(cases, models)):
        try:
            res = run_real(hs, title, ops)
        except Exception as e:      # the real writer raised where the API promises no exception: the correspondence is broken
            out.note_case(('C20full', seed, n), nontrivial=False)
            out.disagreements.append(dict(suite='rst-full', stream=stream, key=('C20full', seed, n), headers=hs, title=title, ops=ops,
                                          detail=dict(kind='the real writer raised ' + repr(e)[:300])))
            continue
        out.traces_validated += 1
        kinds = {o['op'] for o in ops}
        for k in kinds: out.dist['full:op:' + k] += 1
        out.dist['full:stream:' + stream] += 1
        nsect = sum(1 for o in ops if o['op'] == 'sect')
        if any(res['raised']): out.dist['full:some-call-raised'] += 1
        out.dist['full:headers%d' % len(hs)] += 1
        out.note_case(('C20full', seed, n), nontrivial=nsect >= 1 and len(ops) >= 4)
        if n < 40: out.sample(dict(suite='rst-full-' + stream, headers=hs, title=title, ops=ops[:10]))
        case = dict(suite='rst-full', stream=stream, key=('C20full', seed, n), headers=hs, title=title, ops=ops)
        model_ok = mo.get('outs') == res['outs'] and [bool(x) for x in mo.get('raised', [])] == [x is True for x in res['raised']]
        if not model_ok:
            out.disagreements.append(dict(case, detail=dict(kind='serialisation', model=mo, real=dict(outs=res['outs'], raised=res['raised']))))
        if res['deviation'] and stream == 'core':
            out.violations.append(dict(case, detail=res['deviation'], model_agrees=False))
        elif not res['pure']:
            out.violations.append(dict(case, detail=dict(kind='serialising (or a rejected call) changed the document, or serialising was not repeatable',
                                                         info=res['detail']), model_agrees=True))
        elif stream == 'core' and res['refouts'] != res['outs']:
            out.violations.append(dict(case, detail=dict(kind='text differs from the reference rendering', expected=res['refouts'], real=res['outs']),
                                       model_agrees=model_ok))
        elif stream == 'ext' and not res['deviation']:
            bad = ext_oracle(hs, res)
            if bad: out.violations.append(dict(case, detail=bad, model_agrees=model_ok))
            elif res['refouts'] != res['outs'] and model_ok:
                out.notes.append('rst-full/ext: reference renderer and code differ while the model agrees with the code (reference bug?)')
    out.suites.append(dict(name='rst-full-histories', cases=count))


def _fails(v, ops):
    res = run_real(v['headers'], v['title'], ops)
    if res['deviation'] and v.get('stream') == 'core': return True, res
    if not res['pure']: return True, res
    if v.get('stream') == 'core': return res['refouts'] != res['outs'], res
    return ext_oracle(v['headers'], res) is not None, res


def replay(v, drv):
    f, res = _fails(v, v['ops'])
    return dict(fails=f, real=res['outs'], expected=res['refouts'], pure=res['pure'])


def shrink(v, drv):
    ops = list(v['ops'])
    def fails(o):
        try: return _fails(v, o)[0]
        except Exception: return False
    i = 0
    while i < len(ops) and len(ops) > 1:
        cand = ops[:i] + ops[i + 1:]
        if fails(cand): ops = cand
        else: i += 1
    return dict(v, ops=ops, shrunk=True)


# ---------------------------------------------------------------------------------------------------------------------
def write_target_suite(out, drv):
    """`RSTWriter.write_to_file`: the two argument checks, the stripped path, UTF-8 — model `writeTarget` vs the real method"""
    import io, os
    args = [None, '', 'page.rst', '  padded.rst \n', 'ünï ✓.rst', True, 5]
    reqs = [dict(op='writetarget', arg=(a if a is not None else None)) for a in args]
    for r in reqs:
        if r['arg'] is None: r.pop('arg')
    models = drv.run(reqs)
    for a, mo in zip(args, models):
        s = Settings(); s.rst.headers = ['#']
        w = RSTWriter('Tïtle ✓', settings=s); w.text('päragraph')
        want = w.to_text()
        with impl.Sandbox() as sb:
            cwd = os.getcwd(); os.chdir(sb.dir)
            try:
                if a is True:
                    buf = io.StringIO(); w.write_to_file(buf)
                    real = 'stream' if buf.getvalue() == want else dict(stream_got=buf.getvalue())
                else:
                    try:
                        w.write_to_file(a)
                        names = os.listdir(sb.dir)
                        real = dict(open=names[0]) if len(names) == 1 and open(os.path.join(sb.dir, names[0]), encoding='utf-8').read() == want \
                            else dict(files=names)
                    except ValueError: real = 'ValueError'
                    except TypeError: real = 'TypeError'
            finally:
                os.chdir(cwd)
        out.note_case(('C20write', repr(a)), nontrivial=True); out.traces_validated += 1
        if mo.get('target') != real:
            out.disagreements.append(dict(suite='rst-write-target', key=('C20write', repr(a)), detail=dict(kind='write_to_file', arg=repr(a), model=mo, real=real)))
    out.suites.append(dict(name='rst-write-target', cases=len(args)))
