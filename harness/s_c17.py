"""C17: output is a function of contents, relative paths and settings only — every case is documented by the real code
under several working directories, absolute locations, listing orders, repeatedly, and inside longer runs."""
import copy, os, random, subprocess, sys, json, time

import impl, s_tree as T, s_treeprops as P


def variants(case, sb, g, out, drv, key, thorough):
    inp = case['inputs'][0]
    base = T.run_real(sb.dir, case, variant='base')
    out.traces_validated += 1
    ref = base['files']; vios = []
    rec = dict(suite='c17', key=key, case=case)
    if base['status'] != 'ok':
        vios.append(dict(kind='diagnostic-free input failed', status=base['status']))
        return base, vios
    def differs(r, what):
        if r['files'] != ref or r['status'] != 'ok':
            diff = sorted(set(r['files']) ^ set(ref)) or [p for p in ref if ref[p] != r['files'].get(p)]
            vios.append(dict(kind='generated files changed by ' + what, paths=diff[:5],
                             base={p: ref.get(p) for p in diff[:1]}, variant={p: r['files'].get(p) for p in diff[:1]}))
            return True
        return False
    # (a) other working directories: the sandbox root, the parent of the input, and (unless a relative output directory would then land in
    # the input tree) the input directory itself and one of its sub-directories
    cwds = [('cwd', 'the sandbox root', lambda b, ins, w: b), ('cwd_up', 'the parent of the input', lambda b, ins, w: os.path.dirname(ins[0]))]
    if inp['kind'] == 'dir' and case.get('output') != 'rel':
        sub = case.get('cwd_sub') or next(([c['name']] for c in inp['children'] if 'children' in c and not c.get('dirlink')), None)
        cwds.append(('cwd_in', 'the input directory', lambda b, ins, w: ins[0]))
        if sub: cwds.append(('cwd_sub', 'a sub-directory of the input', lambda b, ins, w: os.path.join(ins[0], *sub)))
    c1 = copy.deepcopy(case)
    if inp.get('spelled') in ('dot', 'updir'): c1['inputs'][0]['spelled'] = 'abs'      # those spellings bring their own working directory
    for tag, what, mode in cwds:
        r = T.run_real(sb.dir, c1, variant=tag, cwd_mode=mode)
        out.traces_validated += 1
        if differs(r, 'changing the working directory to ' + what): break
    # (b) the whole input tree moved elsewhere (same directory name)
    r = T.run_real(sb.dir, case, variant='moved', loc=os.path.join('+else+', '+where+', '+q9+'))
    out.traces_validated += 1; differs(r, 'moving the input tree')
    # ... also below a hidden (dot) directory: what lies ABOVE the input is not part of the input
    r = T.run_real(sb.dir, case, variant='dotted', loc=os.path.join('.+q9+', '+deps+'))
    out.traces_validated += 1; differs(r, 'moving the input tree below a dot-directory')
    # (b') ... or reached through a symbolic link on the way: the directory that holds the input is a link to where the tree really lies.
    # With input.follow_symlinks on (links INSIDE the tree are documented) the location still is not an input of the output
    lbase = os.path.join(sb.dir, '+zq9_linked+'); os.makedirs(os.path.join(lbase, '+store+'), exist_ok=True)
    if not os.path.lexists(os.path.join(lbase, '+mnt+')): os.symlink('+store+', os.path.join(lbase, '+mnt+'))
    c0 = copy.deepcopy(case)
    if inp.get('spelled') in ('dot', 'updir'): c0['inputs'][0]['spelled'] = 'abs'      # '.' is resolved through getcwd(), which names the link's target: absolute patterns ({INP}/...) would then speak of another path (K7)
    if inp['kind'] == 'dir' and g.random() < 0.5: c0['settings']['follow'] = True; c0['settings']['recursive'] = True
    if c0['settings'] != case['settings'] or c0['inputs'][0].get('spelled') != inp.get('spelled'):
        rb = T.run_real(sb.dir, c0, variant='linkedbase'); rl = T.run_real(sb.dir, c0, variant='linked', loc='+mnt+'); out.traces_validated += 2
        if rl['files'] != rb['files'] or rl['status'] != rb['status']:
            d_ = sorted(set(rl['files']) ^ set(rb['files'])) or [q for q in rb['files'] if rb['files'][q] != rl['files'].get(q)]
            vios.append(dict(kind='generated files changed by placing the input tree below a symbolic link (input.follow_symlinks on)', paths=d_[:5]))
    elif inp.get('spelled') not in ('dot', 'updir'):
        r = T.run_real(sb.dir, case, variant='linked', loc='+mnt+'); out.traces_validated += 1
        differs(r, 'placing the input tree below a symbolic link')
    # (c) other listing orders
    if inp['kind'] == 'dir':
        for k in range(2 if not thorough else 4):
            c2 = copy.deepcopy(case)
            c2['inputs'][0]['children'] = T.permute(g, inp['children'], g.choice(['sorted', 'reversed', 'shuffle']))
            r = T.run_real(sb.dir, c2, variant='perm%d' % k)
            out.traces_validated += 1
            if differs(r, 'the order of the directory listing'): break
    # (d) repeating the run into the same output directory (an output nested in the input would change the input itself)
    if case.get('output') != 'nested':
        r1 = T.run_real(sb.dir, case, variant='twice'); r2 = T.run_real(sb.dir, case, variant='twice')
        out.traces_validated += 2; differs(r2, 'repeating the run')
    # (f) the same input named differently on the command line (absolute, relative, '.', '<sub>/..')
    for sp in (['abs', 'rel', 'dot', 'updir'] if inp['kind'] == 'dir' else ['abs', 'rel']):
        if sp == inp.get('spelled', 'abs') or (sp in ('dot', 'updir') and case.get('output') == 'rel'): continue
        c4 = copy.deepcopy(case); c4['inputs'][0]['spelled'] = sp
        r = T.run_real(sb.dir, c4, variant='sp_' + sp)
        out.traces_validated += 1
        if differs(r, 'spelling the input path differently (%s instead of %s)' % (sp, inp.get('spelled', 'abs'))): break
    # (e) as part of a longer run: other files documented before and after with the same settings object
    before = dict(kind='file', name='zz_before.cmake', content='#[[[\n# other\n#]]\nfunction(other_b x)\ncmake_parse_arguments(a)\nendfunction()\n')
    after = dict(kind='file', name='zz_after.cmake', content='macro(other_a)\nendmacro()\n')
    c3 = copy.deepcopy(case); c3['inputs'] = [before] + c3['inputs'] + [after]
    c3['patterns'] = [p for p in case.get('patterns', []) if '{INP}' not in p]
    c_alone = copy.deepcopy(case); c_alone['patterns'] = c3['patterns']
    ra = T.run_real(sb.dir, c_alone, variant='alone') if c3['patterns'] != case.get('patterns') else base
    r3 = T.run_real(sb.dir, c3, variant='history')
    out.traces_validated += 1
    mine = {p: t for p, t in r3['files'].items() if p not in ('zz_before.rst', 'zz_after.rst')}
    if r3['status'] != 'ok' or mine != ra['files']:
        diff = sorted(set(mine) ^ set(ra['files'])) or [p for p in mine if mine[p] != ra['files'].get(p)]
        vios.append(dict(kind='generated files changed by documenting other files in the same run', paths=diff[:5], status=r3['status']))
    if not r3.get('settings_unchanged', True):
        vios.append(dict(kind='document() modified the settings object it was given'))
    if case.get('output') != 'nested':
        # (g) into an output directory that an EARLIER run, made with other settings over the same files, has populated (the sources are
        # not touched in between): every page is the one a run into an empty directory gives
        st = case['settings']; old = copy.deepcopy(case)
        old['settings'].update(g.choice([dict(prefix='OLD' + (st.get('prefix') or '')), dict(headers=['=', '~']), dict(ext_titles=not st.get('ext_titles', False), ext_modules=True),
                                         dict(sep='::', prefix=None if st.get('prefix') else 'was'), dict(cfg={'incl': {f: False for f in impl.FLAGS}})]))
        T.run_real(sb.dir, old, variant='stale'); r = T.run_real(sb.dir, case, variant='stale', keep_inputs=True)
        out.traces_validated += 2; differs(r, 'what an earlier run with other settings had left in the output directory')
        # (h) a lone file whose page has the name of one of this input's pages, documented first in the same run into the same directory
        twins = [inp['name']] if inp['kind'] == 'file' else [c['name'] for c in inp['children'] if 'children' not in c and T.iscm(c['name'])]
        if twins:
            c5 = copy.deepcopy(c_alone)
            c5['inputs'].insert(0, dict(kind='file', name=g.choice(sorted(twins)), content='#[[[\n# a namesake from elsewhere\n#]]\nfunction(namesake_before q)\nendfunction()\n'))
            r5 = T.run_real(sb.dir, c5, variant='namesake')
            out.traces_validated += 1
            diff = [p for p in ra['files'] if r5['files'].get(p) != ra['files'][p]]
            if r5['status'] != 'ok' or diff:
                vios.append(dict(kind='generated files changed by documenting, earlier in the same run, another file whose page has the same name', paths=diff[:5], status=r5['status'],
                                 alone={p: ra['files'][p] for p in diff[:1]}, after_the_namesake={p: r5['files'].get(p) for p in diff[:1]}))
    # model correspondence on the longer run
    mo = drv.run([T.model_request(c3, r3['abs_inputs'])])[0]
    if T.model_files(mo) != r3['files'] or mo['status'] != r3['status']:
        out.disagreements.append(dict(rec, detail=dict(kind='history run', model_status=mo['status'], real_status=r3['status'],
                                                       paths=sorted(set(T.model_files(mo)) ^ set(r3['files']))[:6])))
    return base, vios


def child_run(case, sb, tag, env_extra, umask=None):
    """a fresh interpreter with a changed environment documenting the same input; -> files dict, or None if the child failed"""
    script = os.path.join(os.path.dirname(os.path.abspath(__file__)), 's_c17_child.py')
    cfile = os.path.join(sb.dir, 'case.json')
    with open(cfile, 'w') as f: json.dump(case, f)
    env = dict(os.environ); env.update(env_extra)
    pre = (lambda: os.umask(umask)) if umask is not None else None
    p = subprocess.run([sys.executable, script, cfile, os.path.join(sb.dir, '+ch_%s+' % tag)], capture_output=True, text=True, env=env, timeout=120, preexec_fn=pre)
    if p.returncode != 0:
        # CMinx's own failures are part of the child's answer (run_real records them); a crash of the child is the harness's problem
        raise impl.HarnessError('C17 child process failed (%s): %s' % (tag, p.stderr[-600:]))
    return json.loads(p.stdout.strip().split('\n')[-1])


def hashseed_run(case, sb, seedval):
    """a fresh interpreter with the given PYTHONHASHSEED documenting the same input"""
    return child_run(case, sb, 'hs%s' % seedval, dict(PYTHONHASHSEED=str(seedval)))


# things of the process environment the output must not depend on: locale/encoding, time zone, terminal size, umask
ENVIRONMENTS = [('c-locale', dict(LC_ALL='C', LANG='C', PYTHONCOERCECLOCALE='0', PYTHONUTF8='0'), None),
                ('latin1-tz-term', dict(LC_ALL='en_US.ISO-8859-1', LANG='en_US.ISO-8859-1', PYTHONCOERCECLOCALE='0', PYTHONUTF8='0', TZ='Pacific/Kiritimati', COLUMNS='20', LINES='5', TERM='dumb', NO_COLOR='1'), 0o077),
                ('utf8-umask0', dict(LC_ALL='C.UTF-8', TZ='America/St_Johns', COLUMNS='400'), 0)]


def ascii_names(inp):
    def rec(ch): return all(c['name'].isascii() and rec(c.get('children', [])) for c in ch)
    return inp['name'].isascii() and rec(inp.get('children', [])) and all(h['name'].isascii() and rec(h['children']) for h in inp.get('hidden_links', []))


def cwd_patterns(g, case):
    """anchored patterns (a slash in front or inside) that spell a directory or file of the tree the way it is reached from one of the
    working directories of (a): the parent of the input, the input directory, one of its sub-directories.  Patterns are matched against
    absolute paths (K7), so none of them matches anything, whatever the working directory"""
    inp = case['inputs'][0]
    if inp['kind'] != 'dir': return ['/' + inp['name']] if '\\' not in inp['name'] else []
    nodes = []
    def rec(ch, rel):
        for c in ch:
            if '\\' in c['name']: continue
            nodes.append((rel + [c['name']], 'children' in c))
            if 'children' in c and not c.get('dirlink'): rec(c['children'], rel + [c['name']])
    rec(inp['children'], [])
    pats = []
    for _ in range(g.randint(1, 2) if nodes else 0):
        rel, isdir = g.choice(nodes)
        seen_from = g.choice(['parent', 'input', 'sub'])
        if seen_from == 'sub' and len(rel) >= 2: sub = case.setdefault('cwd_sub', rel[:g.randint(1, len(rel) - 1)])      # the sub-directory (a) runs in
        if seen_from == 'sub' and len(rel) >= 2 and rel[:len(sub)] == sub and len(rel) > len(sub): comps = rel[len(sub):]
        else: comps = ([inp['name']] if seen_from == 'parent' else []) + rel
        pt = '/'.join(comps) + ('/' if isdir and g.random() < 0.7 else '')
        pats.append('/' + pt if len(comps) == 1 or g.random() < 0.25 else pt)
    return pats


def c17_suite(seed, count, out, drv, thorough=False, budget_s=None):
    t0 = time.time(); done = 0
    for n in range(count):
        if budget_s and time.time() - t0 > budget_s:
            out.notes.append(f"C17 suite stopped at {done}/{count} (time budget)"); break
        g = random.Random(f"C17/{seed}/{n}")
        case = P.gen_case(g, 'C17')
        g2 = random.Random(f"C17/cwd/{seed}/{n}")
        if g2.random() < 0.6: case['patterns'] = list(case.get('patterns', [])) + cwd_patterns(g2, case)
        key = ('C17', seed, n)
        with impl.Sandbox() as sb:
            base, vios = variants(case, sb, g, out, drv, key, thorough)
            neg = len(case.get('patterns', [])) >= 2 and any(pt.startswith('!') for pt in case['patterns'])
            if base['status'] == 'ok' and ((thorough and n % 10 == 0) or (neg and out.dist['hashseed-children'] < (40 if thorough else 4))):
                out.dist['hashseed-children'] += 1
                for hs in ((0, 1, 12345) if thorough else (0, 1, 2, 3)):
                    r = hashseed_run(case, sb, hs)
                    out.traces_validated += 1
                    if r is None or r != base['files']:
                        vios.append(dict(kind='generated files changed by the hash seed', seed=hs)); break
            # the process environment: only for trees with ASCII names (under an ASCII file-system encoding Python cannot even name the others)
            if base['status'] == 'ok' and ascii_names(case['inputs'][0]) and out.dist['environment-children'] < (60 if thorough else 9):
                tag, env_extra, um = ENVIRONMENTS[out.dist['environment-children'] % len(ENVIRONMENTS)]
                out.dist['environment-children'] += 1; out.dist['environment:' + tag] += 1
                r = child_run(case, sb, tag, env_extra, um)
                out.traces_validated += 1
                if r is None or r != base['files']:
                    vios.append(dict(kind='generated files changed by the process environment', environment=tag, child_failed=r is None,
                                     paths=None if r is None else (sorted(set(r) ^ set(base['files'])) or [p for p in r if r[p] != base['files'].get(p)])[:5]))
        for v in vios: out.violations.append(dict(suite='c17', key=key, case=case, detail=v, model_agrees=True))
        out.note_case(key, len(base['files']) >= 2 or case['inputs'][0]['kind'] == 'file')
        out.dist['kind:' + case['inputs'][0]['kind']] += 1; out.dist['spelled:' + case['inputs'][0].get('spelled', 'abs')] += 1
        out.sample(dict(suite='c17', key=key, tree=P._names(case['inputs'][0].get('children', [])), settings={k: v for k, v in case['settings'].items() if v},
                        variants=['cwd', 'moved', 'listing-permutations', 'repeat', 'inside-longer-run', 'output-populated-by-earlier-run', 'namesake-documented-first'] + (['hash-seeds'] if thorough else [])))
        done += 1
    out.suites.append(dict(name='c17-variants', cases=done))


def replay(v, drv):
    from suites import Outcome
    o = Outcome('C17'); g = random.Random('replay')
    d = v.get('detail') or {}
    with impl.Sandbox() as sb:
        base, vios = variants(v['case'], sb, g, o, drv, tuple(v.get('key', ())), False)
        if d.get('environment'):
            tag, env_extra, um = next(e for e in ENVIRONMENTS if e[0] == d['environment'])
            r = child_run(v['case'], sb, tag, env_extra, um)
            if r is None or r != base['files']: vios.append(dict(kind=d['kind'], environment=tag, child_failed=r is None))
        if 'seed' in d:
            r = hashseed_run(v['case'], sb, d['seed'])
            if r is None or r != base['files']: vios.append(dict(kind=d['kind'], seed=d['seed']))
    return dict(fails=bool(vios), violations=vios[:3])
