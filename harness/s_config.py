"""C16: configuration layering.  confuse/argparse/PyYAML are not modelled; the tie is an exhaustive enumeration of
option x subset of sources, wrong-typed values, and random multi-option combinations against the real `cminx.main`
(with `cminx.document` stubbed to capture the Settings object), compared with the Lean `Config` model and with the
statement itself (first source that sets it; documented defaults read from config_default.yaml at run time)."""
import json, contextlib, copy, dataclasses, io, itertools, logging, os, random

import yaml
import impl
from impl import cminx

DEFAULTS_FILE = os.path.join(os.path.dirname(cminx.__file__), 'config_default.yaml')

# option -> (type, user value, -s value, (cli args, cli value) or None)
BOOLS = ['input.include_undocumented_function', 'input.include_undocumented_macro', 'input.include_undocumented_cpp_class',
         'input.include_undocumented_cpp_attr', 'input.include_undocumented_cpp_constructor', 'input.include_undocumented_cpp_member',
         'input.include_undocumented_ct_add_test', 'input.include_undocumented_add_test', 'input.include_undocumented_ct_add_section',
         'input.include_undocumented_option', 'input.auto_exclude_directories_without_cmake', 'input.follow_symlinks',
         'rst.file_extensions_in_titles', 'rst.file_extensions_in_modules']
OPTS = {}
for k in BOOLS: OPTS[k] = ('bool', None, None, None)          # values filled from the default: user = not default, s = default (distinct sources, see below)
OPTS['input.recursive'] = ('bool', True, True, (['-r'], True))
OPTS['input.kwargs_doc_trigger_string'] = ('optStr', ':u', ':s', None)
OPTS['input.function_parameter_name_strip_regex'] = ('optStr', '^u', '^s', None)
OPTS['input.macro_parameter_name_strip_regex'] = ('optStr', '^mu', '^ms', None)
OPTS['input.member_parameter_name_strip_regex'] = ('optStr', '^bu', '^bs', None)
OPTS['rst.prefix'] = ('optStr', 'U', 'S', (['-p', 'C'], 'C'))
OPTS['rst.module_path_separator'] = ('str', '/', '::', None)
OPTS['rst.headers'] = ('strSeq', ['a', 'b'], ['c', 'd', 'e'], None)
OPTS['output.directory'] = ('optFilename', 'uout', 'sout', (['-o', 'cout'], 'cout'))
OPTS['input.exclude_filters'] = ('optList', ['u1'], ['s1', 's2'], (['-e', 'c1', '-e', 'c2'], ['c1', 'c2']))
WRONG = {'bool': ['yes-string', 3, ['x']], 'optStr': [5, True, ['x']], 'str': [5, False], 'strSeq': [5, {'a': 1}, [1, 2]],
         'optFilename': [5, ['x']], 'optList': ['notalist', 5]}


def flat(d, pre=''):
    out = {}
    for k, v in d.items():
        if isinstance(v, dict) and pre == '' and k != 'logging': out.update(flat(v, k + '.'))
        elif pre == '' and k == 'logging': out['logging'] = v.get('logger_config', v)
        else: out[pre + k] = v
    return out


def nest(flatmap):
    out = {}
    for k, v in flatmap.items():
        sec, key = k.split('.', 1)
        out.setdefault(sec, {})[key] = v
    return out


class Env:
    """sandboxed HOME / XDG_CONFIG_HOME / cwd; runs the real main with document() stubbed"""
    def __init__(self, sb):
        self.root = sb.dir
        self.home = os.path.join(sb.dir, 'home'); self.xdg = os.path.join(self.home, '.config')
        self.proj = os.path.join(sb.dir, 'proj'); self.cfgdir = os.path.join(self.proj, 'cfg')
        os.makedirs(os.path.join(self.xdg, 'cminx')); os.makedirs(self.cfgdir)
        self.userfile = os.path.join(self.xdg, 'cminx', 'config.yaml'); self.sfile = os.path.join(self.cfgdir, 's.yaml')

    INPUTS = {'alpha': {'a.cmake': 'alpha_a', 'deep/d.cmake': 'alpha_d'}, 'beta': {'b.cmake': 'beta_b'}, 'lone.cmake': 'lone', 'other.cmake': 'other'}

    def make_inputs(self):
        """real inputs below proj/srcs: two directories and two lone files"""
        for name, body in self.INPUTS.items():
            for rel, fn in (body.items() if isinstance(body, dict) else [('', body)]):
                path = os.path.join(self.proj, 'srcs', name, rel).rstrip(os.sep); os.makedirs(os.path.dirname(path), exist_ok=True)
                with open(path, 'w') as f: f.write('#[[[\n# Doc.\n#]]\nfunction(%s x)\nendfunction()\n' % fn)

    def run(self, user, sfile, cli_args, inputs=None):
        """user/sfile: flat dicts or None (file absent).  Returns ('ok', flat settings) or ('error', type name).
        `inputs` (names below proj/srcs): several real inputs in ONE call, and document() is wrapped instead of replaced -- a copy of the
        Settings object is taken as each call receives it, then the real document() does its work (pages go to stdout or into the
        sandbox); self.calls = [(input, flat settings)] for every call"""
        for path, content in ((self.userfile, user), (self.sfile, sfile)):
            if content is None:
                if os.path.exists(path): os.unlink(path)
            else:
                with open(path, 'w') as f: f.write(yaml.safe_dump(nest(content)) if content else '{}')
        args = (['-s', self.sfile] if sfile is not None else []) + list(cli_args) + ([os.path.join('srcs', i) for i in inputs] if inputs else ['some_input'])
        old = {k: os.environ.get(k) for k in ('HOME', 'XDG_CONFIG_HOME', 'CMINXDIR')}
        os.environ['HOME'] = self.home; os.environ['XDG_CONFIG_HOME'] = self.xdg; os.environ.pop('CMINXDIR', None)
        cwd = os.getcwd(); captured = []
        real_document = cminx.document
        cminx.document = (lambda f, s: (captured.append(copy.deepcopy(s)), self.calls.append(f), real_document(f, s))[-1]) if inputs else (lambda f, s: captured.append(s))
        self.calls = []
        try:
            os.chdir(self.proj)
            with contextlib.redirect_stdout(io.StringIO()), contextlib.redirect_stderr(io.StringIO()):
                try:
                    cminx.main(args)
                except SystemExit as e:
                    return ('error', 'SystemExit:%r' % (e.code,))
                except BaseException as e:
                    if isinstance(e, (KeyboardInterrupt, MemoryError)): raise
                    return ('error', type(e).__name__)
            self.calls = [(f, flat(dataclasses.asdict(s))) for f, s in zip(self.calls, captured)]
            return ('ok', flat(dataclasses.asdict(captured[0])))
        finally:
            cminx.document = real_document; os.chdir(cwd)
            for k, v in old.items():
                if v is None: os.environ.pop(k, None)
                else: os.environ[k] = v
            logging.disable(logging.NOTSET)
            for name in ('cminx', ''):
                lg = logging.getLogger(name)
                for h in lg.handlers[:]: lg.removeHandler(h)


def load_defaults():
    return flat(yaml.safe_load(open(DEFAULTS_FILE, encoding='utf-8')))


def expected(env, defaults, user, sfile, cli_flat, rel_to_cfg_source=None):
    """the statement itself: first source that sets it; documented default otherwise; filters = union in order;
    relative directory against cwd or the supplying file's directory"""
    sources = [('cli', cli_flat or {}), ('s', sfile or {}), ('u', user or {})]
    exp = {}
    template_defaults = {'input.exclude_filters': [], 'output.directory': None, 'rst.prefix': None}
    for k in list(OPTS) + ['output.relative_to_config']:
        val = None; who = None
        for name, src in sources:
            if k in src: val = src[k]; who = name; break
        if who is None:
            val = defaults.get(k, template_defaults.get(k))
        exp[k] = (val, who)
    rel = exp['output.relative_to_config'][0]
    d, who = exp['output.directory']
    if d is not None and not os.path.isabs(d):
        base = env.proj
        if rel and who == 's': base = env.cfgdir
        elif rel and who == 'u': base = os.path.dirname(env.userfile)
        d = os.path.abspath(os.path.join(base, d))
    out = {k: v for k, (v, _) in exp.items()}
    out['output.directory'] = d
    out['input.exclude_filters'] = [x for _, src in sources for x in src.get('input.exclude_filters', [])]
    return out


def model_sources(defaults, user, sfile, cli_flat):
    return [cli_flat or {}, sfile or {}, user or {}, defaults]


UNION = 'input.exclude_filters'


def union_wrong_typed(user, sfile):
    """the sources whose value for the union option is not a list.  The union reads EVERY source, so such a value is a
    wrong-typed value wherever it sits, also below a source that supplies a proper list"""
    return [n for n, src in (('s', sfile), ('u', user)) if src and UNION in src and not isinstance(src[UNION], list)]


def compare(env, defaults, user, sfile, cli_args, cli_flat, out, drv, key, rel=False, inputs=None):
    st, got = env.run(user, sfile, cli_args, inputs)
    out.traces_validated += 1
    mo = drv.run([dict(op='config', sources=model_sources(defaults, user, sfile, cli_flat))])[0]
    rec = dict(suite='config', key=key, user=user, sfile=sfile, cli=cli_args)
    if inputs: rec['inputs'] = list(inputs)
    bad = union_wrong_typed(user, sfile)
    if bad:
        # the union reads every source, so the model (`Config.resolveMain`, theorem C16_filters_any_source_rejected) and the code reject
        # a non-list wherever it stands
        if (st == 'error') != ('err' in mo):
            out.disagreements.append(dict(rec, detail=dict(kind='wrong-typed union option: model and real main differ', real=st, model=mo)))
        if st != 'error':
            out.violations.append(dict(rec, detail=dict(kind='wrong-typed value of the union option accepted in some source', option=UNION,
                                                        sources=bad, effective=got.get(UNION)), model_agrees='err' not in mo))
        return st
    if st == 'error':
        if 'err' not in mo:
            out.disagreements.append(dict(rec, detail=dict(kind='real main failed, model resolves', real=got, model=mo)))
        out.violations.append(dict(rec, detail=dict(kind='valid configuration rejected', error=got), model_agrees='err' in mo))
        return
    exp = expected(env, defaults, user, sfile, cli_flat)
    if 'err' in mo:
        out.disagreements.append(dict(rec, detail=dict(kind='model rejects, real main resolves', model=mo)))
    else:
        for k, v in mo['values'].items():
            if k in ('logging', 'output.directory', 'input.exclude_filters'): continue
            rv = got.get(k)
            if isinstance(rv, tuple): rv = list(rv)
            if k == 'rst.headers' and isinstance(v, str): v = v.split()
            if v != rv and not (v is None and rv in (None, (), [])):
                out.disagreements.append(dict(rec, detail=dict(kind='effective value', option=k, model=v, real=rv))); break
        if [x for x in mo['filters']] != list(got.get('input.exclude_filters') or []):
            out.disagreements.append(dict(rec, detail=dict(kind='exclude filters', model=mo['filters'], real=got.get('input.exclude_filters'))))
    for k, v in exp.items():
        rv = got.get(k)
        if isinstance(rv, tuple): rv = list(rv)
        if v != rv and not (v in (None, []) and rv in (None, (), [])):
            out.violations.append(dict(rec, detail=dict(kind='value in effect is not the highest-priority one / not the documented default',
                                                        option=k, expected=v, real=rv), model_agrees=True))
            break
    if inputs:
        # several inputs in one call: "the value in effect" is in effect for each of them -- what document() is handed for the second and
        # third input is the resolved configuration again, not something an earlier input left behind
        if [f for f, _ in env.calls] != [os.path.join('srcs', i) for i in inputs]:
            out.violations.append(dict(rec, detail=dict(kind='document() is not called once per input, in order', calls=[f for f, _ in env.calls]), model_agrees=True))
        for pos, (f, later) in enumerate(env.calls[1:], 1):
            for k, v in exp.items():
                rv = later.get(k)
                if isinstance(rv, tuple): rv = list(rv)
                if v != rv and not (v in (None, []) and rv in (None, (), [])):
                    out.violations.append(dict(rec, detail=dict(kind='value in effect for a later input of the same call is not the highest-priority one / not the documented default',
                                                                input=f, position=pos, option=k, expected=v, real=rv, for_first_input=got.get(k)), model_agrees=True))
                    return


def real_option_table():
    """the option table read off the REAL config_template() (regenerated from source on every run)"""
    import confuse
    from cminx.config import config_template
    def ty(t):
        if t is bool: return 'bool'
        if isinstance(t, str): return 'str'
        if isinstance(t, confuse.StrSeq): return 'strSeq'
        if isinstance(t, confuse.Optional):
            sub = t.subtemplate
            if isinstance(sub, confuse.String): return 'optStr'
            if isinstance(sub, confuse.Filename): return 'optFilename'
            if isinstance(sub, confuse.TypeTemplate) or sub is list: return 'optList'
            return 'optional:' + type(sub).__name__
        if isinstance(t, confuse.TypeTemplate): return 'dict'
        return type(t).__name__
    out = {}
    for tpl in (config_template(False), config_template(True)):
        for sec, body in tpl.items():
            if isinstance(body, dict):
                for k, v in body.items(): out[f"{sec}.{k}"] = ty(v)
            else: out[sec] = ty(body)
    return out


def config_suite(seed, tier, out, drv):
    defaults = load_defaults()
    # the model's option table must be the template of the code as it is now
    mt = drv.run([dict(op='optiontable')])[0]; rt = real_option_table()
    out.traces_validated += 1
    if mt != rt:
        diff = {k: (mt.get(k), rt.get(k)) for k in set(mt) | set(rt) if mt.get(k) != rt.get(k)}
        out.disagreements.append(dict(suite='config', key='option-table', detail=dict(kind='option table (name -> template) of config_template', model_vs_real=diff)))
    g = random.Random(f"C16/{seed}")
    with impl.Sandbox() as sb:
        env = Env(sb)
        n = 0
        # --- exhaustive: every option x every subset of the sources that can set it ---------------------------------
        for k, (ty, uv, sv, cli) in OPTS.items():
            if ty == 'bool' and uv is None:
                uv, sv = (not defaults[k]), defaults[k]
            subsets = itertools.product([0, 1], [0, 1], [0, 1] if cli else [0], [0, 1] if k == 'output.directory' else [0])
            for useU, useS, useC, rel in subsets:
                user = {k: uv} if useU else ({} if g.random() < 0.5 else None)
                sfile = {k: sv} if useS else ({} if rel or g.random() < 0.5 else None)
                if rel: sfile = dict(sfile or {}, **{'output.relative_to_config': True})
                cli_args = cli[0] if useC else []
                cli_flat = {k: cli[1]} if useC else {}
                compare(env, defaults, user, sfile, cli_args, cli_flat, out, drv, ('exh', k, useU, useS, useC, rel))
                out.note_case(('exh', k, useU, useS, useC, rel), useU + useS + useC >= 1)
                out.dist['sources-set:%d' % (useU + useS + useC)] += 1; n += 1
        # falsy values on the command line still win (an empty prefix / output "" = current directory)
        for args, flat in ((['-p', ''], {'rst.prefix': ''}), (['-o', ''], {'output.directory': ''})):
            for useS in (0, 1):
                k = list(flat)[0]; ty, uv, sv, cli = OPTS[k]
                sfile = {k: sv} if useS else {}
                compare(env, defaults, {k: uv}, sfile, args, flat, out, drv, ('falsy-cli', k, useS))
                out.note_case(('falsy-cli', k, useS), True); n += 1
        # an EMPTY value is a value: an empty pattern list in a higher source contributes nothing to the union and hides nothing of the
        # lower ones; an empty header list / empty string wins like any other value
        for user, sfile in (({'input.exclude_filters': ['u1', 'u2']}, {'input.exclude_filters': []}), ({'input.exclude_filters': []}, {'input.exclude_filters': ['s1']}),
                            ({'input.exclude_filters': ['u1']}, {}), ({'input.exclude_filters': []}, {'input.exclude_filters': []}),
                            ({'input.exclude_filters': ['gen.cmake', 'third_party', 'a//b']}, {'input.exclude_filters': ['gen.cmake/', './third_party', 'a/b', 'x/../gen.cmake']}),
                            ({'rst.prefix': 'U'}, {'rst.prefix': ''}), ({'input.kwargs_doc_trigger_string': 'U'}, {'input.kwargs_doc_trigger_string': ''})):
            for cli_args, cli_flat in (([], {}), (['-e', 'c1'], {'input.exclude_filters': ['c1']}), (['-e', 'gen.cmake/', '-e', 'gen.cmake'], {'input.exclude_filters': ['gen.cmake/', 'gen.cmake']})):
                compare(env, defaults, user, sfile, cli_args, cli_flat, out, drv, ('empty-value', json.dumps([user, sfile, cli_args], sort_keys=True)))
                out.note_case(('empty-value', str(user), str(sfile), str(cli_args)), True); n += 1
        out.exhaustive = True
        out.sample(dict(suite='config', option='rst.prefix', user={'rst.prefix': 'U'}, sfile={'rst.prefix': 'S'}, cli=['-p', 'C'], expect='C'))
        # --- wrong-typed values: rejected, never replaced by a lower-priority or default value --------------------------
        for k, (ty, uv, sv, cli) in OPTS.items():
            if ty == 'bool' and uv is None: uv = not defaults[k]
            for bad in WRONG[ty]:
                for where in ('s', 'u'):
                    user = {k: bad} if where == 'u' else {k: uv}       # a valid lower-priority value must not rescue it
                    sfile = {k: bad} if where == 's' else None
                    st, got = env.run(user, sfile, [])
                    out.traces_validated += 1; n += 1
                    mo = drv.run([dict(op='config', sources=model_sources(defaults, user, sfile, {}))])[0]
                    key = ('wrongtype', k, repr(bad), where)
                    out.note_case(key, True); out.dist['wrong-type:' + ('rejected' if st == 'error' else 'ACCEPTED')] += 1
                    rec = dict(suite='config', key=key, user=user, sfile=sfile, cli=[])
                    if (st == 'error') != ('err' in mo):
                        out.disagreements.append(dict(rec, detail=dict(kind='type validation', real=(st, got if st == 'error' else None), model=mo)))
                    if st != 'error':
                        out.violations.append(dict(rec, detail=dict(kind='wrong-typed value accepted or silently replaced', option=k, value=bad,
                                                                    effective=got.get(k)), model_agrees='err' not in mo))
        # the union option takes its patterns from ALL sources: a wrong-typed value is rejected in whichever source it sits,
        # for every set of well-typed higher-priority sources above it and with or without a well-typed one below it
        k = UNION; ty, uv, sv, cli = OPTS[k]
        for bad in WRONG[ty]:
            for where, useC, useS, useU in (('s', 1, 0, 0), ('s', 1, 0, 1), ('u', 1, 0, 0), ('u', 0, 1, 0), ('u', 1, 1, 0), ('su', 1, 0, 0)):
                user = {k: bad} if 'u' in where else ({k: uv} if useU else None)
                sfile = {k: bad} if 's' in where else ({k: sv} if useS else None)
                key = ('wrongtype-below', k, repr(bad), where, useC, useS, useU)
                st = compare(env, defaults, user, sfile, cli[0] if useC else [], {k: cli[1]} if useC else {}, out, drv, key)
                out.note_case(key, True); out.dist['wrong-type:' + ('rejected' if st == 'error' else 'ACCEPTED')] += 1; n += 1
        # --- several inputs in one call, document() at work: every option set nowhere / somewhere, observed at EVERY document() call -----------
        env.make_inputs(); gm = random.Random(f"C16/multi/{seed}")
        orders = [['alpha', 'beta'], ['alpha', 'lone.cmake'], ['alpha', 'beta', 'lone.cmake'], ['beta', 'lone.cmake', 'alpha'], ['lone.cmake', 'alpha', 'other.cmake'],
                  ['alpha', 'alpha'], ['lone.cmake', 'other.cmake']]
        for k, (ty, uv, sv, cli) in OPTS.items():
            if ty == 'bool' and uv is None: uv, sv = (not defaults[k]), defaults[k]
            for j, (useU, useS, useC) in enumerate([(0, 0, 0), gm.choice([s3 for s3 in itertools.product([0, 1], [0, 1], [0, 1] if cli else [0]) if any(s3)])]):
                extra = {} if k == 'input.recursive' or gm.random() < 0.5 else {'input.recursive': True}      # -r: sub-directories as well
                inputs = orders[(n + j) % 4] if gm.random() < 0.7 else gm.choice(orders)
                key = ('multi', k, useU, useS, useC, tuple(inputs))
                compare(env, defaults, {k: uv} if useU else {}, dict(extra, **({k: sv} if useS else {})), cli[0] if useC else [], {k: cli[1]} if useC else {}, out, drv, key, inputs=inputs)
                out.note_case(key, True); out.dist['inputs-per-call:%d' % len(inputs)] += 1; n += 1
        # --- random multi-option combinations ---------------------------------------------------------------------------
        for i in range(60 if tier == 'quick' else 2500):
            user, sfile, cli_args, cli_flat = {}, {}, [], {}
            for k in g.sample(list(OPTS), g.randint(2, 6)):
                ty, uv, sv, cli = OPTS[k]
                if ty == 'bool' and uv is None: uv, sv = (not defaults[k]), defaults[k]
                if g.random() < 0.5: user[k] = uv
                if g.random() < 0.5: sfile[k] = sv
                if cli and g.random() < 0.5: cli_args += cli[0]; cli_flat[k] = cli[1]
            if g.random() < 0.3: sfile['output.relative_to_config'] = True
            elif g.random() < 0.2: user['output.relative_to_config'] = True
            inputs = gm.choice(orders) if i % 4 == 3 else None      # every fourth: several real inputs, document() at work
            compare(env, defaults, user or (None if g.random() < 0.3 else {}), sfile, cli_args, cli_flat, out, drv, ('rnd', seed, i), inputs=inputs)
            out.note_case(('rnd', seed, i), True); n += 1
    out.suites.append(dict(name='config', runs=n))


def replay(v, drv):
    from suites import Outcome
    defaults = load_defaults(); o = Outcome('C16')
    with impl.Sandbox() as sb:
        env = Env(sb)
        cli_flat = {}
        args = list(v.get('cli') or [])
        for k, (_, _, _, cli) in OPTS.items():
            if cli and all(a in args for a in cli[0]): cli_flat[k] = cli[1]
        if v.get('inputs'): env.make_inputs()
        compare(env, defaults, v.get('user'), v.get('sfile'), args, cli_flat, o, drv, v.get('key'), inputs=v.get('inputs'))
    return dict(fails=bool(o.violations), violations=[x['detail'] for x in o.violations], disagreements=[x['detail'] for x in o.disagreements])
