"""C15, "under gitignore rules": the Lean model of the exclusion patterns (CminxModel/Glob.lean: pathspec's gitwildmatch translation,
for which CminxProps/C15Glob.lean proves the rules the property names) is tied to what runs in CMinx in two streams.

  raw    patterns over an adversarial alphabet x path strings: `Glob.matchFile` against
         `pathspec.PathSpec.from_lines(GitWildMatchPattern, patterns).match_file(path)` — verdicts and which pattern lists pathspec rejects;
  walk   generated trees x generated pattern sets through the REAL `cminx.document()` with `PathSpec.match_file` observed: every string
         CMinx hands to pathspec and every answer it gets.  The model must (a) give the same answer for that string (`verdict`), and
         (b) build the same string for that entry of the walk (`queryPath`: absolute input directory, components, trailing slash for a
         directory), and `exclOf` must be the answer the walk got for it.

Range notation `[...]` is outside the model (`unsupported`): such pattern lists are counted and skipped."""
import os, random, time, warnings
import pathspec
import impl, s_tree as T, s_treeprops

PA = ['a', 'b', 'ab', 'c', '*', '*', '**', '?', '/', '/', '/', '!', '\\', '#', ' ', '.', '.cmake', '[', ']', '\n', 'é', 'build', 'x-y']
QA = ['a', 'b', 'ab', 'c', '/', '/', '/', '.', '.cmake', ' ', 'x', 'é', 'build', 'x-y', '*', '\n', '\\']
FIXED = [(['build'], ['/home/u/build/proj/a.cmake', '/p/build', '/p/build/', '/p/xbuild/a', '/p/build.d/a']),
         (['build/'], ['/p/build', '/p/build/', '/p/q/build/x', '/build']),
         (['*.cmake', '!keep.cmake'], ['/p/a.cmake', '/p/keep.cmake', '/p/d.cmake/x', '/p/keep.cmake/']),
         (['a/**/b', 'a/**', '**/b', '**'], ['/a/b', '/a/x/b', '/a/x/y/b/', '/a', '/a/', '/b', '/x/b/c']),
         (['/abs/p', '/abs/p/'], ['/abs/p', '/abs/p/', '/abs/p/q', '/abs/pq', '/x/abs/p']),
         (['*', '!*/'], ['/a', '/a/', '/a/b']), (['**/'], ['/a', '/a/', '/a/b']), (['***'], ['/a/b', '']), (['a**b'], ['/axb', '/a/b', '/ab']),
         (['\\#x', '\\!y', 'z\\ '], ['/#x', '/!y', '/z ', '/z']), (['  ', '#c', '/'], ['/a', '/', '']), (['!'], ['/a']), (['a\\'], ['/a']),
         (['a?c', '?'], ['/abc', '/a/c', '/x', '/xy']), (['./a', 'a/./b'], ['/a', './a', 'a']), (['x '], ['/x', '/x ']), (['x\\ '], ['/x', '/x '])]


def real_answers(pats, paths):
    with warnings.catch_warnings():
        warnings.simplefilter('ignore')
        try: spec = pathspec.PathSpec.from_lines(pathspec.patterns.GitWildMatchPattern, pats)
        except Exception as e: return None, type(e).__name__
        return [bool(spec.match_file(q)) for q in paths], None


def compare_raw(pats, paths, mo, key, out):
    exp, err = real_answers(pats, paths)
    if mo.get('err') == 'unsupported': out.dist['glob:unsupported (range notation)'] += 1; return
    out.traces_validated += 1
    if mo.get('err') == 'invalid' or err is not None:
        out.dist['glob:rejected'] += 1
        if (mo.get('err') == 'invalid') != (err is not None):
            out.disagreements.append(dict(suite='glob', key=key, detail=dict(kind='pattern list rejected by one side only', patterns=pats, model=mo.get('err', 'ok'), real=err or 'ok')))
        return
    out.dist['glob:hits'] += sum(exp); out.dist['glob:answers'] += len(exp)
    if mo['res'] != exp:
        bad = [(q, e, m) for q, e, m in zip(paths, exp, mo['res']) if e != m]
        out.disagreements.append(dict(suite='glob', key=key, detail=dict(kind='verdict', patterns=pats, differing=[dict(path=q, pathspec=e, model=m) for q, e, m in bad[:4]], status=mo['status'])))


def raw_stream(seed, count, out, drv):
    cases = [(p, q) for p, q in FIXED]
    for n in range(count):
        g = random.Random(f"C15/glob/{seed}/{n}")
        alpha = [x for x in PA if x != '['] if g.random() < 0.8 else PA
        ps = [''.join(g.choice(alpha) for _ in range(g.randint(0, 7))) for _ in range(g.randint(1, 4))]
        qs = [g.choice(['/', '/', '', './']) + ''.join(g.choice(QA) for _ in range(g.randint(0, 8))) for _ in range(6)]
        # paths that contain what the patterns spell, so that positive answers are frequent
        for p in ps[:2]:
            lit_ = p.lstrip('!').replace('**', 'm/n').replace('*', 'st').replace('?', 'q').replace('\\', '')
            qs.append('/r/' + lit_); qs.append('/' + lit_.strip('/') + '/below')
        cases.append((ps, qs))
    res = drv.run([dict(op='glob', patterns=p, paths=q) for p, q in cases])
    for i, ((p, q), mo) in enumerate(zip(cases, res)):
        out.note_case(('glob-raw', p, q), any(c in ''.join(p) for c in '*?/!'))
        compare_raw(p, q, mo, ('glob-raw', seed, i), out)
    out.suites.append(dict(name='glob-raw', cases=len(cases)))


def entries(children, rel=()):
    for c in children:
        if 'children' in c:
            yield list(rel) + [c['name']], True
            yield from entries(c['children'], tuple(rel) + (c['name'],))
        else:
            yield list(rel) + [c['name']], False


def walk_stream(seed, count, out, drv, budget_s=None):
    t0 = time.time(); done = 0
    for n in range(count):
        if budget_s and time.time() - t0 > budget_s:
            out.notes.append(f"glob walk stream stopped at {done}/{count} (time budget)"); break
        g = random.Random(f"C15/globwalk/{seed}/{n}")
        case = s_treeprops.gen_case(g, 'C15')
        if case['inputs'][0]['kind'] != 'dir' or not case.get('patterns'): continue
        seen = []
        orig = pathspec.PathSpec.match_file
        def spy(self, file, separators=None):
            r = orig(self, file, separators); seen.append((os.fspath(file), bool(r))); return r
        with impl.Sandbox() as sb:
            pathspec.PathSpec.match_file = spy
            try: real = T.run_real(sb.dir, case, variant='glob')
            finally: pathspec.PathSpec.match_file = orig
        done += 1
        ab = real['abs_inputs'][0]
        pats = [pt.replace('{INP}', ab) for pt in case['patterns']]
        qs = [dict(abs=ab, rel=rel, dir=d) for rel, d in entries(case['inputs'][0]['children'])] + [dict(abs=ab, rel=[], dir=True)]
        mo = drv.run([dict(op='glob', patterns=pats, paths=[s for s, _ in seen], queries=qs)])[0]
        out.note_case(('glob-walk', pats, [s[len(ab):] for s, _ in seen]), len(seen) >= 3)
        if mo.get('err') == 'unsupported': out.dist['glob:unsupported (range notation)'] += 1; continue
        out.traces_validated += 1
        key = ('glob-walk', seed, n)
        if 'err' in mo:
            if real['status'] == 'ok':
                out.disagreements.append(dict(suite='glob', key=key, detail=dict(kind='model rejects a pattern list the run accepted', patterns=pats)))
            continue
        out.dist['glob:walk queries'] += len(seen); out.dist['glob:walk excluded'] += sum(r for _, r in seen)
        bad = [(s, r, m) for (s, r), m in zip(seen, mo['res']) if r != m]
        if bad:
            out.disagreements.append(dict(suite='glob', key=key, detail=dict(kind='verdict for a string CMinx handed to pathspec', patterns=pats,
                                                                               differing=[dict(path=s, pathspec=r, model=m) for s, r, m in bad[:4]])))
            continue
        # (b) the strings: an entry of the tree that the run asked about must have been asked about under the string the model builds
        asked = {}
        for s, r in seen: asked.setdefault(s.rstrip('/'), []).append((s, r))
        for q, mq in zip(qs, mo['queries']):
            for s, r in asked.get(mq['path'].rstrip('/'), []):
                if s != mq['path'] or r != mq['excl']:
                    out.disagreements.append(dict(suite='glob', key=key, detail=dict(kind='query string / exclOf for an entry of the walk', patterns=pats, entry=q,
                                                                                       real=dict(path=s, excluded=r), model=mq)))
                    break
    out.suites.append(dict(name='glob-walk', cases=done))


def glob_suite(prop, seed, tier, out, drv):
    raw_stream(seed, 4000 if tier == 'quick' else 120000, out, drv)
    walk_stream(seed, 60 if tier == 'quick' else 1500, out, drv, budget_s=25 if tier == 'quick' else 600)
