"""Runs one property's check: Lean step, suites, known findings, evidence, verdict."""
import json, os, subprocess, sys, time

import common
from common import HarnessError

TRUSTED_BASE = [
    "Lean 4.33.0 kernel (thorough tier: leanchecker re-checks the compiled property modules)",
    "axioms under every property theorem: at most propext, Classical.choice, Quot.sound (audited by #print axioms on every run); no native_decide, no bv_decide, no axioms of our own, no sorry",
    "Lean compiler/runtime: the correspondence executes the compiled model definitions (no implemented_by/extern/unsafe in the model)",
    "hand-written model of the Python code (CminxModel/*.lean), tied to /repo's working tree by the correspondence harness on the inputs its generators reach",
    "Python str semantics as modelled in CminxModel/Str.lean; ANTLR 4 lexer/parser semantics for this grammar as modelled in Lex.lean/Parse.lean",
    "parameters not modelled: re.sub (arbitrary function in the theorems; Python computes it for the correspondence), pathspec, confuse/argparse/PyYAML, docutils, the file system, CMake, logging",
]


def lean_step(prop, tier):
    """returns dict(ok, build_ok, audit, forbidden, log)"""
    names, imports = common.theorem_listing(prop)
    ok_build, log = common.lake_build(['driver'] + imports)
    common.lake_build(['validcheck'])      # optional helper (hypothesis statistics); its failure is not this property's problem
    forbidden = common.grep_forbidden(imports)
    audit = common.audit_axioms(prop) if ok_build else {"theorems": [], "ok": False, "log": "build failed"}
    res = dict(build_ok=ok_build, forbidden=forbidden, audit=audit, log=log[-3000:] if not ok_build else "")
    res['leanchecker'] = None
    if tier == 'thorough' and ok_build and audit['theorems']:
        p = subprocess.run(["lake", "env", "leanchecker"] + imports, cwd=common.LEAN_DIR, capture_output=True, text=True)
        res['leanchecker'] = dict(rc=p.returncode, out=(p.stdout + p.stderr)[-1500:])
        if p.returncode != 0: res['leanchecker_failed'] = True
    res['ok'] = ok_build and not forbidden and audit['ok'] and not res.get('leanchecker_failed')
    return res


def run_check(prop, tier, seed, skip_lean=False):
    import plans
    t0 = time.time()
    if prop not in plans.PLANS:
        raise HarnessError(f"no plan for {prop}")
    plan = plans.PLANS[prop]
    lean = dict(ok=True, build_ok=True, forbidden=[], audit={"theorems": [], "ok": True}, log="") if skip_lean else lean_step(prop, tier)
    if not lean['build_ok'] and not os.path.exists(common.DRIVER):
        raise HarnessError("lake build failed and no driver binary exists:\n" + lean['log'])
    drv = common.Driver()
    from suites import Outcome
    out = Outcome(prop)
    plan['run'](tier, seed, out, drv)

    # --- known findings -----------------------------------------------------------------------------------------
    import known
    findings, _fixed = common.load_known_findings()
    mine = [f for f in findings if f['property'] == prop]
    new_violations = []
    for v in out.violations:
        fid = known.match(prop, v, mine)
        if fid: out.known_hits[fid] += 1
        else: new_violations.append(v)
    lines = []
    for f in mine:
        still = known.witness_still_fails(f, drv)
        if still or out.known_hits.get(f['id']):
            lines.append(f"KNOWN-FINDING: property={prop} {f['id']}: {f['text']}")
        else:
            out.notes.append(f"known finding {f['id']} no longer reproduces on this tree")
    for l in lines: print(l)

    # --- a broken proof/correspondence without a failing input: search harder before giving up ----------------------
    broken = (not lean['ok']) or bool(out.disagreements)
    if broken and not new_violations and 'search' in plan:
        out.notes.append("proof obligation or correspondence broken: running the focused search")
        out2 = Outcome(prop)
        plan['search'](tier, seed, out2, drv, out.disagreements)
        for v in out2.violations:
            if not known.match(prop, v, mine): new_violations.append(v)
        out.evaluations += out2.evaluations; out.nontrivial |= out2.nontrivial; out.traces_validated += out2.traces_validated

    # --- verdict ---------------------------------------------------------------------------------------------------
    rc = 0; verdict_line = None
    if new_violations:
        v = new_violations[0]
        if 'shrink' in plan:
            try: v = plan['shrink'](v, drv)
            except Exception as e: out.notes.append(f"shrinking failed: {e!r}")
        payload = dict(property=prop, kind=plan['replay_kind'], seed=seed, tier=tier, violation=v,
                       others=len(new_violations) - 1)
        path = common.replay_path(prop, payload); common.write_json(path, payload)
        verdict_line = f"VIOLATION property={prop} replay={path}"; rc = 1
    elif broken:
        what = []
        if not lean['build_ok']: what.append("lake build failed")
        if lean['forbidden']: what.append("forbidden tokens in Lean sources: " + ", ".join(lean['forbidden'][:5]))
        if lean['build_ok'] and not lean['audit']['ok']: what.append("axiom audit failed: " + json.dumps(lean['audit'])[:800])
        if lean.get('leanchecker_failed'): what.append("leanchecker rejected the compiled property module")
        payload = dict(property=prop, kind='no-failing-input', seed=seed, tier=tier,
                       unchecked_theorems=[t['name'] for t in lean['audit']['theorems']] if not lean['ok'] else [],
                       lean_problems=what, lean_log=lean.get('log', '')[-2000:],
                       broken_correspondence=[dict(suite=d.get('suite'), key=d.get('key'), source=d.get('source'), detail=d.get('detail'))
                                              for d in out.disagreements[:3]],
                       explanation="a proof obligation or the model/implementation correspondence no longer checks, and the "
                                   "search found no input on which the property itself fails on the real code")
        path = common.replay_path(prop, payload); common.write_json(path, payload)
        verdict_line = f"VIOLATION property={prop} replay={path} no-failing-input-found"; rc = 1

    # --- evidence ----------------------------------------------------------------------------------------------------
    thms = lean['audit']['theorems']
    discharged = sum(1 for t in thms if t['axioms'] is not None and set(t['axioms']) <= common.STD_AXIOMS) if lean['ok'] or lean['build_ok'] else 0
    ev = dict(
        property_id=prop, tier=tier, seed=seed, level='proof',
        coverage=dict(
            obligations=max(len(thms), 1), discharged=discharged if thms else 0,
            checker_cmd="cd /verif/lean && lake build && lake env lean <#print axioms of CminxProps/%s.theorems>" % prop
                        + ("; lake env leanchecker CminxProps.%s" % prop if tier == 'thorough' else ""),
            trusted_base=TRUSTED_BASE + plan.get('trusted_extra', []),
            theorems=thms,
            evaluations=out.evaluations, distinct_nontrivial=len(out.nontrivial), rule=plan['rule'],
            samples=out.samples, traces_validated_against_impl=out.traces_validated,
            distribution=dict(out.dist), suites=out.suites, exhaustive=out.exhaustive,
            disagreements_model_vs_impl=len(out.disagreements), known_findings_exercised=dict(out.known_hits),
            notes=out.notes, leanchecker=lean.get('leanchecker'),
        ),
        assumptions=plan.get('assumptions', []),
        wall_s=round(time.time() - t0, 2), violations=len(new_violations),
    )
    import implcov
    ic = implcov.report()
    if ic is not None:
        # how much of the implementation the generated inputs executed (statement/branch coverage of src/cminx, generated parser excluded)
        ev['coverage']['impl_coverage'] = ic
    if not thms:
        ev['coverage']['explanation'] = "no property theorem registered yet for this property; only the correspondence ran"
        for k in ('obligations', 'discharged'): ev['coverage'].pop(k, None)
    common.write_json(os.path.join(common.EVIDENCE_DIR, f"{prop}.json"), ev)
    if verdict_line: print(verdict_line)
    print(f"{prop} {tier} seed={seed}: {out.evaluations} cases, {len(out.nontrivial)} distinct non-trivial, "
          f"{len(out.disagreements)} model/impl disagreements, {len(new_violations)} violations, "
          f"{len(thms)} theorems ({discharged} audited), lean_ok={lean['ok']}, {ev['wall_s']} s")
    return rc


def replay(path):
    import plans
    payload = json.load(open(path, encoding='utf-8'))
    prop = payload['property']
    if payload.get('kind') == 'no-failing-input':
        print(json.dumps(payload, indent=1, ensure_ascii=False)[:4000])
        print("replay: this file names proof obligations / correspondence cases that no longer check; re-run the check itself")
        return 1
    plan = plans.PLANS[prop]
    drv = common.Driver()
    still = plan['replay'](payload['violation'], drv)
    print(json.dumps(still, indent=1, ensure_ascii=False, default=str)[:6000])
    if still.get('fails'):
        print(f"VIOLATION property={prop} replay={path}")
        return 1
    print("replay: the recorded input no longer violates the property")
    return 0
