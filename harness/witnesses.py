"""Concrete witnesses of the open known findings, replayed against the real code on every run."""
import impl

K1_SRC = '#[[[\n# A class\n#]]\ncpp_class(MyClass)\n    #[[[\n# An attribute\n    #]]\n    cpp_attr(MyClass color red)\ncpp_end_class()\n'
K2_SRC = '#[[[\n# doc\n#]]\ngeneric_command(a b)\n'
K3_SRC = 'set(a 1)\n#[[[ not a doccomment ]]\nset(b 2)\n#[[[\n# doc of f\n#]]\nfunction(f)\nendfunction()\n'


def k1(drv):
    with impl.Sandbox() as sb:
        r = impl.real_pipeline(sb, K1_SRC, impl.make_settings({'incl': {'cpp_class': False}}))
    return 'rst' in r and 'py:attribute:: color' not in r['rst']


def k2(drv):
    with impl.Sandbox() as sb:
        r = impl.real_pipeline(sb, K2_SRC, impl.make_settings())
    return r.get('err') == 'agg' and r.get('kind') == 'TypeError'


def k3(drv):
    """a valid level-0 bracket comment whose content starts with '[' is taken for a doccomment opener when a '#]]'
    occurs anywhere later: everything in between (here the definition of g) is swallowed into a doccomment"""
    src = 'set(a 1)\n#[[[ c ]]\nfunction(g)\nendfunction()\n# x #]]\nset(c 3)\n'
    with impl.Sandbox() as sb:
        r = impl.real_pipeline(sb, src, impl.make_settings())
    return 'rst' not in r or '.. function:: g(' not in r['rst']


def k6(drv):
    """rst.headers given as a mapping is accepted (as the list of its keys)"""
    import s_config
    with impl.Sandbox() as sb:
        st, got = s_config.Env(sb).run(None, {'rst.headers': {'a': 1}}, [])
    return st == 'ok'


def k7(drv):
    """exclude patterns are matched against absolute paths: a pattern that matches a directory ABOVE the input excludes the
    whole input, so moving the tree under a directory called `build` changes the output"""
    import s_tree as T
    case = dict(inputs=[dict(kind='dir', name='proj', children=[dict(name='a.cmake', content='function(f)\nendfunction()\n')])],
                settings=dict(recursive=False, auto_exclude=True), patterns=['build/'], output='abs')
    with impl.Sandbox() as sb:
        a = T.run_real(sb.dir, case, variant='a', loc='src')
        b = T.run_real(sb.dir, case, variant='b', loc='build')
    return a['files'] != b['files']


def k5(drv):
    import s_cmake
    return s_cmake.k5_witness(drv)


K8_SRC = ('cpp_class(Shape)\n  #[[[\n  # Area.\n  #]]\n  cpp_member(area Shape)\n  cpp_virtual_member(area)\ncpp_end_class()\n'
          'function(helper x y)\nendfunction()\n')


def k8(drv):
    """a declaration that is never implemented swallows the next definition anywhere later: `helper` has no entry"""
    with impl.Sandbox() as sb:
        r = impl.real_pipeline(sb, K8_SRC, impl.make_settings())
    return 'rst' in r and '.. function:: helper(' not in r['rst']


def k9(drv):
    """a run through main() creates the per-user configuration directory when it does not exist (confuse's config_dir()): a directory
    created outside the output directory, with -o and in stdout mode alike"""
    import os, io, contextlib, logging
    with impl.Sandbox() as sb:
        home = os.path.join(sb.dir, 'home'); os.makedirs(home)
        src = sb.write('in/a.cmake', 'function(f)\nendfunction()\n')
        old = {k: os.environ.get(k) for k in ('HOME', 'XDG_CONFIG_HOME', 'CMINXDIR')}; cwd = os.getcwd()
        os.environ['HOME'] = home; os.environ['XDG_CONFIG_HOME'] = os.path.join(home, '.config'); os.environ.pop('CMINXDIR', None)
        try:
            os.chdir(sb.dir)
            with contextlib.redirect_stdout(io.StringIO()), contextlib.redirect_stderr(io.StringIO()):
                try: impl.cminx.main([os.path.dirname(src), '-o', os.path.join(sb.dir, 'out')])
                except SystemExit: pass
            return os.path.isdir(os.path.join(home, '.config', 'cminx'))
        finally:
            os.chdir(cwd)
            for k, v in old.items():
                if v is None: os.environ.pop(k, None)
                else: os.environ[k] = v
            logging.disable(logging.NOTSET)
            for name in ('cminx', ''):
                lg = logging.getLogger(name)
                for h in lg.handlers[:]: lg.removeHandler(h)


def k10(drv):
    """a documented set() whose value is a run of equal punctuation characters: the field body is read as a transition"""
    import s_rstcheck, docutils.nodes
    with impl.Sandbox() as sb:
        r = impl.real_pipeline(sb, '#[[[\n# A divider.\n#]]\nset(DIVIDER "--------")\n', impl.make_settings())
    if 'rst' not in r: return True
    return any(m['level'] >= 3 for m in s_rstcheck.parse(r['rst']).findall(docutils.nodes.system_message))


def k11(drv):
    import s_cmake
    return s_cmake.k11_witness(drv)


WITNESSES = {'K11': k11, 'K10': k10, 'K9': k9, 'K8': k8, 'K1': k1, 'K2': k2, 'K3': k3, 'K5': k5, 'K6': k6, 'K7': k7}
