"""Tree-level checks for C12, C13, C14, C15, C17, C18 built on s_tree."""
import copy, os, random, re

import pathspec
import impl, s_tree as T


def gen_case(g, prop):
    dname = g.choice(['in', 'my.proj', 'd-x', 'Src'])
    children = T.gen_dir(g, 0, max_depth=3, want_cmake=True, k4=(prop == 'C17' and g.random() < 0.3))
    st = dict(recursive=g.random() < 0.7, auto_exclude=g.random() < 0.6, prefix=g.choice([None, None, 'PFX', 'p.q'] + (['two words'] if prop == 'C12' else [])),
              sep='.', ext_titles=False, ext_modules=False, headers=None, cfg=None)
    pats = []
    output = g.choice(['abs', 'abs', 'rel', 'nested'] + (['nested', 'nested'] if prop == 'C17' else []))
    if prop in ('C13', 'C14'):
        pats = [g.choice(T.PATTERNS) for _ in range(g.choice([0, 0, 1, 2, 3]))]
    if prop == 'C14': st['sep'] = g.choice(['.', '.', '/', '::', '-', 'sub'])     # the title of the top index is the prefix under every separator
    if prop == 'C15':
        st['auto_exclude'] = g.random() < 0.3; st['recursive'] = g.random() < 0.85
        pats = [g.choice(T.PATTERNS) for _ in range(g.randint(0, 5))]
        if g.random() < 0.12:    # the input path itself is excluded: by directory-only pattern, bare name or absolute path
            pats.append(g.choice([dname + '/', dname, '{INP}', '{INP}/', '**/' + dname + '/']))
        if g.random() < 0.25:   # a pattern given twice with a negation in between: the later duplicate excludes again (last match wins)
            pats += g.choice([['*.cmake', '!a.cmake', '*.cmake'], ['a*', '!aa.cmake', '!ab/', 'a*'], ['sub/', '!sub/', 'sub/'],
                              ['*.cmake', '!root.cmake', '!b.cmake', '*.cmake'], ['mod.*', '!mod.cmake', 'mod.*', '!mod.cmake'],
                              ['**/deep/*.cmake', '!**/deep/a.cmake', '**/deep/*.cmake']])
        if g.random() < 0.3:   # several patterns hitting adjacent siblings / every cmake file of a directory
            pats += g.choice([['aa/', 'ab/', 'ac/'], ['e1.cmake', 'e2.cmake', 'e3.cmake'], ['*.cmake'], ['a.cmake', 'b.cmake', 'c.cmake']])
    if prop == 'C12':
        st.update(sep=g.choice(['.', '/', '::', '-', '.', '/', '::', 'a.cmake', 'root.cmake', 'sub']), ext_titles=g.random() < 0.5, ext_modules=g.random() < 0.5,
                  headers=g.choice([None, ['=', '*'], ['~'], ['+', '-', '^']]), recursive=True, auto_exclude=g.random() < 0.5)
    if prop == 'C18':
        output = g.choice(['abs', 'rel', 'nested', 'prepopulated', None, None])
        # some files saved with CRLF line endings (doccomment lines keep their '\r'): stdout and the written page must be the same bytes.
        # (Only here: the oracles of the naming/toctree properties read doc lines without expecting a '\r'.)
        gc = random.Random(f"C18/crlf/{g.random()}")
        def crlf(ch):
            for c in ch:
                if 'children' in c: crlf(c['children'])
                elif c.get('content') and gc.random() < 0.15: c['content'] = c['content'].replace('\r\n', '\n').replace('\n', '\r\n')
        crlf(children)
        if g.random() < 0.15:
            hosts = [children] + [c['children'] for c in children if 'children' in c and not c.get('dirlink')]
            h = g.choice(hosts)
            if not any(c['name'].lower().startswith('index.') for c in h): h.append(dict(name='index.cmake', content='#[[[\n# The index module.\n#]]\nfunction(index_f a)\nendfunction()\n'))
        if g.random() < 0.3:      # a CMake file that is a symbolic link to a file outside the input tree
            def link_one(ch):
                fs = [c for c in ch if 'children' not in c and c['name'].lower().endswith('.cmake')]
                if fs: g.choice(fs)['symlink'] = True
                for c in ch:
                    if 'children' in c and g.random() < 0.5: link_one(c['children'])
            link_one(children)
        st.update(prefix=g.choice([None, 'PFX']), ext_titles=g.random() < 0.3, headers=g.choice([None, ['=', '*']]),
                  cfg={'incl': {f: g.random() < 0.7 for f in impl.FLAGS}} if g.random() < 0.4 else None)
    if prop == 'C17':
        pats = [g.choice(T.PATTERNS) for _ in range(g.choice([0, 0, 1, 2]))]
        if g.random() < 0.25:     # order-sensitive pattern lists: a glob and a later negation that re-includes one of its matches
            pats += g.choice([['*.cmake', '!a.cmake'], ['a*', '!aa.cmake', '!ab.cmake'], ['*.cmake', '!root.cmake', '!b.cmake'], ['mod.*', '!mod.cmake']])
    if prop in ('C13', 'C14', 'C15', 'C17') and g.random() < 0.6:
        # patterns built from the tree's own names: directory-qualified globs that empty a sub-directory, single files, directories
        dirs, files = [], []
        def names(ch, rel):
            for c in ch:
                if 'children' in c: dirs.append(rel + [c['name']]); names(c['children'], rel + [c['name']])
                else: files.append(rel + [c['name']])
        names(children, [])
        for _ in range(g.randint(1, 3)):
            k = g.random()
            if dirs and k < 0.45:
                d = g.choice(dirs); pats.append(g.choice(['**/%s/*.cmake' % d[-1], '**/%s/*' % d[-1], '{INP}/%s/*.cmake' % '/'.join(d), '%s/' % d[-1], '**/%s/*.[cC]*' % d[-1]]))
            elif files:
                f = g.choice(files); pats.append(g.choice([f[-1], '**/' + f[-1], '{INP}/' + '/'.join(f), '*' + f[-1][-6:], f[-1].upper() if g.random() < 0.2 else f[-1]]))
    hidden = []
    if prop in ('C13', 'C14', 'C15', 'C17', 'C18') and g.random() < 0.3:
        # symbolic links to directories outside the input tree: documented like directories when input.follow_symlinks is on,
        # otherwise as if they were not there
        # (C18: never followed — with the output directory equal to or above the input, pages of a followed link would be written THROUGH the
        # link; what is there to see for C18 is that links that are not followed leave no trace, on disk or on stdout)
        st['follow'] = g.random() < 0.4 and prop != 'C18'
        dirs = [([], children)]
        def alld(ch, rel):
            for c in ch:
                if 'children' in c: dirs.append((rel + [c['name']], c['children'])); alld(c['children'], rel + [c['name']])
        alld(children, [])
        for _ in range(g.randint(1, 2)):
            rel, ch = g.choice(dirs); nm = g.choice(['lnk', 'alias', 'zlink', 'aa_link'])
            if any(c['name'].lower() == nm for c in ch) or any(h['rel'] == rel and h['name'] == nm for h in hidden): continue
            tgt = T.gen_dir(g, 2, max_depth=3, want_cmake=g.random() < 0.8)
            if st['follow']: ch.append(dict(name=nm, children=tgt, dirlink=True))
            else: hidden.append(dict(rel=rel, name=nm, children=tgt))
    inp = dict(kind='dir', name=dname, children=children, spelled=g.choice(['abs', 'rel', 'dot', 'updir']) if prop in ('C12', 'C17', 'C14') else 'abs')
    if hidden: inp['hidden_links'] = hidden
    if prop in ('C12', 'C18', 'C17') and g.random() < 0.2:
        f = g.choice(T.NAMES + (['', ''] if prop in ('C17', 'C12') else [])) + g.choice(['.cmake', '.CMake', '.cmake', '.txt'])     # '' : a file named just `.cmake`
        if prop == 'C17' and g.random() < 0.35: f = g.choice(['.cmake', '.CMake'])      # empty title and module name: nothing may stand in for them
        inp = dict(kind='file', name=f, content=T.file_content(g, f), spelled=g.choice(['abs', 'rel']))
        if output == 'nested': output = 'abs'
    if inp.get('spelled') in ('dot', 'updir') and output == 'rel': output = 'abs'   # a relative output would resolve against the input directory
    if prop == 'C12' and output in ('abs', 'rel') and inp.get('spelled') in ('abs', 'rel') and g.random() < 0.2: inp['via_link'] = True
    if prop == 'C14' and inp['kind'] == 'dir' and output == 'abs' and inp.get('spelled', 'abs') == 'abs' and g.random() < 0.3:
        # anchored patterns that spell every CMake file of one sub-directory the way it is reached from the directory the command is started
        # in (the parent of the input): patterns are matched against absolute paths, so they match nothing -- the sub-directory keeps its
        # pages, its index and its toctree entry
        subs = []
        def with_cmake(ch, rel):
            for c in ch:
                if 'children' in c and not c.get('dirlink'):
                    fs = [f['name'] for f in c['children'] if 'children' not in f and f['name'].lower().endswith('.cmake') and not set(f['name']) & set('\\*?[]!#')]
                    if fs and not set(c['name']) & set('\\*?[]!#'): subs.append((rel + [c['name']], fs))
                    with_cmake(c['children'], rel + [c['name']])
        with_cmake(children, [])
        if subs and not set(inp['name']) & set('\\*?[]!#'):
            rel, fs = g.choice(subs)
            pats += ['/'.join([inp['name']] + rel + [f]) for f in fs]
            st['auto_exclude'] = True; st['recursive'] = True
    case = dict(inputs=[inp], settings=st, patterns=pats, output=output)
    if prop == 'C14' and any(pt.startswith(inp['name'] + '/') for pt in pats): case['run_from'] = 'parent'
    if output == 'nested' and inp['kind'] == 'dir' and g.random() < (0.9 if prop == 'C17' else 0.6):
        # the output directory inside the input tree is named like the beginning of a sibling directory (doc next to doctest/, docs/):
        # comparing the two paths character by character instead of component by component would mix them up
        subs = [c['name'] for c in children if 'children' in c and len(c['name']) >= 2]
        taken = {c['name'].lower() for c in children}
        if subs:
            d = g.choice(subs); cand = d[:g.randint(1, len(d) - 1)]
            if cand.lower() not in taken and cand not in ('.', '..'):
                case['nested_name'] = cand
                if prop == 'C17': st['recursive'] = True      # so that the sibling is walked at all
    elif output == 'nested' and inp['kind'] == 'dir':
        # ... or exactly like a directory that exists DEEPER in the tree (docs/ below the input, src/docs/ with CMake files): whatever is
        # done to keep CMinx away from its own output must not touch the namesake
        deeper = set()
        def below(ch, depth):
            for c in ch:
                if 'children' in c:
                    if depth >= 1: deeper.add(c['name'])
                    below(c['children'], depth + 1)
        below(children, 0)
        taken = {c['name'].lower() for c in children}
        cands = sorted(d for d in deeper if d.lower() not in taken)
        if cands: case['nested_name'] = g.choice(cands)
    if prop == 'C12' and inp['kind'] == 'dir' and g.random() < 0.3:
        # an explicit @module name spelled exactly like the module name (or title) CMinx would derive anyway
        cands = []
        def collect(ch, rel):
            for c in ch:
                if 'children' in c: collect(c['children'], rel + [c['name']])
                elif c['name'].lower().endswith('.cmake'): cands.append((c, rel + [c['name']]))
        collect(children, [])
        if cands:
            c, rel = g.choice(cands)
            title, mod = expected_names(case, inp, '/'.join(rel))
            c['content'] = '#[[[ @module %s\n# module text\n#]]\nfunction(fm)\nendfunction()\n' % g.choice([mod, title])
    if prop == 'C12' and inp['kind'] == 'dir' and output != 'nested' and g.random() < 0.35:
        # another directory in the same run, through the same settings object: its pages must carry ITS default prefix
        other = dict(kind='dir', name='zz2', spelled='abs', children=[dict(name='zz_only.cmake', content='function(zz_f)\nendfunction()\n')])
        case['inputs'] = [inp, other] if g.random() < 0.5 else [other, inp]
        case['target'] = case['inputs'].index(inp)
    if prop == 'C18' and inp['kind'] == 'dir':
        # where the -o run writes (`with_o`: the -o run that the pages printed without -o are compared with)
        k = g.random(); slot = 'output' if output is not None else 'with_o'
        if k < 0.3 and output in ('abs', 'rel', None):
            # the input directory itself, its parent or its grandparent (cminx -o . . / cminx -o .. .): the pages land beside or above the sources
            case[slot] = g.choice(['equal', 'above', 'above'])
            if case[slot] == 'above': case['levels'] = g.choice([1, 1, 2])
        elif k < 0.55 and output in ('nested', None):
            # nested in the input AND already there, holding other files, CMake files among them: these are input like any other.
            # (auto-exclusion on: it keeps the walk out of the page directories that the run itself creates in there on its way)
            nm = g.choice(['_docs', 'docs', 'api'])
            if nm not in {c['name'].lower() for c in children}:
                cm = [dict(name=f, content=T.file_content(g, f)) for f in g.sample(['helpers.cmake', 'Conf.CMake', 'zz.cmake'], g.randint(1, 2))]
                children.append(dict(name=nm, children=cm + [dict(name='keep.txt', content='unrelated')]))
                st['auto_exclude'] = True; st['recursive'] = True; case[slot] = 'nested'; case['nested_name'] = nm
    if prop == 'C12' and case['output'] in ('abs', 'rel') and g.random() < 0.4:
        # a history: one or two further runs into the SAME output directory, each with naming settings of its own (check_case)
        case['history'] = [dict(prefix=g.choice([None, 'PFX', 'p.q', 'Beta']), sep=g.choice(['.', '/', '::', '-', 'sub']), ext_titles=g.random() < 0.5,
                                ext_modules=g.random() < 0.5, headers=g.choice([None, ['=', '*'], ['~'], ['+', '-', '^']])) for _ in range(g.choice([1, 1, 2]))]
    gc = random.Random('companions' + repr(case))      # a stream of its own: callers go on drawing from g (alias suite)
    if prop == 'C14' and gc.random() < 0.35:
        # further directories, documented before and after this one through the same Settings object (several_inputs)
        nms = gc.sample([n for n in ['in', 'my.proj', 'd-x', 'Src', 'zz2', 'Lib'] if n != dname], gc.choice([1, 1, 2]))
        oth = [dict(kind='dir', name=n, spelled=gc.choice(['abs', 'abs', 'rel', 'dot']), children=T.gen_dir(gc, 1, max_depth=3, want_cmake=True)) for n in nms]
        k = gc.randint(0, len(oth))
        case['companions'] = dict(before=oth[:k], after=oth[k:], one_output=gc.random() < 0.4)
    return case


def excl_fn(case, abs_input):
    pats = [pt.replace('{INP}', abs_input) for pt in case.get('patterns', [])]
    spec = pathspec.PathSpec.from_lines(pathspec.patterns.GitWildMatchPattern, pats)
    root = os.path.join(abs_input, '')
    def excl(rel, isdir):
        p = os.path.join(root, *rel)
        return spec.match_file(os.path.join(p, '') if isdir else p)
    return excl, spec


def body_after_module(text):
    """the page without its path-derived parts: title frame and module name"""
    lines = text.split('\n')
    for i, l in enumerate(lines):
        if l.startswith('.. module:: '): return '\n'.join(lines[i + 1:])
    return None


def lone_page(sb_dir, content, tag):
    """what CMinx produces for this content as a lone file (stdout mode)"""
    case = dict(inputs=[dict(kind='file', name='lone.cmake', content=content)], settings=dict(recursive=False, auto_exclude=True),
                patterns=[], output=None)
    r = T.run_real(sb_dir, case, variant='lone_' + tag)
    return r['stdout'][:-2] if r['stdout'].endswith('\n\n') else r['stdout']


def expected_names(case, inp, rel_file):
    st = case['settings']; sep = st.get('sep', '.')
    if inp['kind'] == 'dir':
        pre = (st.get('prefix') if st.get('prefix') is not None else inp['name'])
        h = pre + sep + rel_file
    else:
        h = (st['prefix'] + sep + rel_file) if st.get('prefix') is not None else rel_file
    strip = lambda x: re.sub(r'\.cmake$', '', x, flags=re.I)
    return (h if st.get('ext_titles') else strip(h)), (h if st.get('ext_modules') else strip(h))


def find_content(children, rel):
    for c in children:
        if c['name'] == rel[0]:
            return c['content'] if len(rel) == 1 else find_content(c['children'], rel[1:])
    return None


def run_layout(sb_dir, case, variant, **kw):
    """T.run_real, plus the output directories it has no name for: the input directory itself ('equal': `cminx -o . .`) and its parent or
    grandparent ('above', `levels` up: `cminx -o .. .`).  Whenever files of the input tree lie below the output directory (these two, and
    an output nested in the input at a directory that the tree already has) they are "unrelated files already in the output directory":
    result['damaged'] lists those that did not keep their bytes, and result['files'] is what the run added to the output directory"""
    mode = case.get('output'); own = {}
    if case['inputs'][0]['kind'] == 'dir' and mode in ('equal', 'above'):
        up = case.get('levels', 1) if mode == 'above' else 0
        case = dict(case, output='nested', nested_name=os.path.join(*['..'] * up) if up else '.')
    r = T.run_real(sb_dir, case, variant, **kw)
    def below(ch, path):
        for c in ch:
            q = os.path.relpath(os.path.join(path, c['name']), r['out_abs'])
            if 'children' in c and not c.get('dirlink'): below(c['children'], os.path.join(path, c['name']))
            elif 'children' not in c and not q.startswith(os.pardir + os.sep): own[q] = c['content']
    for i, p in zip(case['inputs'], r['abs_inputs']):
        if i['kind'] == 'dir' and r['out_abs']: below(i['children'], p)
    # no generated name ends in .rst and no directory of a tree is named like an input directory: a page never lands on one of these
    r['damaged'] = sorted(p for p, t in own.items() if r['files'].get(p) != t)
    for p in own: r['files'].pop(p, None)
    return r


def judge_names(case, inp, order, files):
    """C12 on one output tree: title frame, module directive and module doccomment of every page of `order`, under case['settings']"""
    st = case['settings']; vios = []
    hc = (st.get('headers') or ['#'])[0]
    for relf in order:
        page = files.get(os.path.join(*(relf[:-1] + ['.'.join(relf[-1].split('.')[:-1]) + '.rst'])))
        if page is None: continue
        content = find_content(inp['children'], relf) if inp['kind'] == 'dir' else inp['content']
        title, mod = expected_names(case, inp, '/'.join(relf))
        m = re.match(r'[ \t]*#\[\[\[\s*@module([^\n]*)\n', content)
        named = m.group(1).strip() if m else None
        if named: title = mod = named
        lines = page.split('\n')
        want = ['', hc * len(title), title, hc * len(title), '', '.. module:: ' + mod]
        if lines[:6] != want or sum(1 for l in lines if l.startswith('.. module::')) != 1:
            vios.append(dict(kind='title/module frame', file=relf, expected=want, real=lines[:7])); break
        if m is not None:
            body = [l.strip() for l in content.split('\n')[1:] if l.strip().startswith('# ')]
            if lines[6:8] != ['', '   ' + body[0][2:]]:
                vios.append(dict(kind='module doccomment text not under the module directive', file=relf, real=lines[6:9])); break
    if len(case['inputs']) > 1 and 'zz_only.rst' in files:
        want_t = (st.get('prefix') if st.get('prefix') is not None else 'zz2') + st.get('sep', '.') + ('zz_only.cmake' if st.get('ext_titles') else 'zz_only')
        if T.title_of(files['zz_only.rst']) != want_t:
            vios.append(dict(kind="a second input directory's page does not carry its own default prefix", expected=want_t, real=T.title_of(files['zz_only.rst'])))
    titles = {}
    for p, text in files.items():
        if p.endswith('index.rst'): continue
        titles.setdefault(T.title_of(text), []).append(p)
    dup = {t: ps for t, ps in titles.items() if len(ps) > 1 and not any('named.' in (t or '') for _ in [0])}
    if dup: vios.append(dict(kind='different files share a title', titles=dup))
    return vios


def judge_indexes(st, inp, exp, files, closure=True):
    """C14 on one output tree: toctree and title of every index.rst that `exp` (T.spec_walk) names; with `closure`, every entry has a
    generated target and every file is reachable from the top index, on the real output alone"""
    vios = []
    pre = st.get('prefix') if st.get('prefix') is not None else inp['name']
    for p, toc in exp.items():
        if toc is None or p not in files: continue
        got = T.parse_toctree(files[p])
        if got != toc: vios.append(dict(kind='toctree entries', index=p, expected=toc, real=got)); break
        d = os.path.dirname(p)
        want_title = pre if d == '' else pre + st.get('sep', '.') + d
        if T.title_of(files[p]) != want_title:
            vios.append(dict(kind='index title', index=p, expected=want_title, real=T.title_of(files[p]))); break
    if not closure: return vios
    reach = set(); todo = ['index.rst'] if 'index.rst' in files else []
    dangling = []
    while todo:
        p = todo.pop()
        if p in reach: continue
        reach.add(p)
        for e in (T.parse_toctree(files[p]) or []):
            tgt = os.path.normpath(os.path.join(os.path.dirname(p), e if e.endswith('/index.rst') else e + '.rst'))
            if tgt not in files: dangling.append((p, e))
            elif tgt.endswith('index.rst'): todo.append(tgt)
            else: reach.add(tgt)
    if dangling: vios.append(dict(kind='toctree entry without a generated target', entries=dangling[:5]))
    unreachable = sorted(set(files) - reach)
    if unreachable and 'index.rst' in files: vios.append(dict(kind='page not reachable from the top index', pages=unreachable[:5]))
    return vios


def several_inputs(case, inp, sb, drv, out, rec):
    """C14: the case's directory together with its `companions` in ONE run (one Settings object, as in a main() call with several inputs
    or an API user's loop), every input into an output directory of its own or all into one; the indexes of EVERY input are judged as
    those of a run of its own.  In one output directory a later input overwrites index.rst files of an earlier one (outside C14): an
    index is judged for the input that wrote it last, and closure is left to the runs with separate directories"""
    co = case['companions']; st = case['settings']
    c2 = {k: v for k, v in case.items() if k not in ('companions', 'nested_name')}
    c2.update(inputs=co['before'] + [inp] + co['after'], output='abs', patterns=[pt for pt in case.get('patterns', []) if '{INP}' not in pt])
    if not co['one_output']: c2['outputs'] = ['+out%d+' % k for k in range(len(c2['inputs']))]
    r = T.run_real(sb.dir, c2, variant='several')
    out.traces_validated += 1; out.dist['several-inputs:' + ('one-output' if co['one_output'] else 'own-outputs')] += 1
    names = [i['name'] for i in c2['inputs']]
    if r['status'] != 'ok': return [dict(kind='diagnostic-free input failed', status=r['status'], inputs_of_the_run=names)]
    vios = []; later = set()
    for k in reversed(range(len(names))):
        ik = c2['inputs'][k]; excl, spec = excl_fn(c2, r['abs_inputs'][k]); exp = {}
        if not spec.match_file(os.path.join(r['abs_inputs'][k], '')): T.spec_walk(ik['children'], [], excl, st['recursive'], st['auto_exclude'], exp, [])
        if co['one_output']: vs = judge_indexes(st, ik, {p: t for p, t in exp.items() if p not in later}, r['files'], closure=False); later |= set(exp)
        else: vs = judge_indexes(st, ik, exp, r['files_by_output'][c2['outputs'][k]])
        vios += [dict(v, input=k, inputs_of_the_run=names, outputs='one directory' if co['one_output'] else 'one directory per input') for v in vs]
    if co['one_output']:
        mo = drv.run([T.model_request(c2, r['abs_inputs'])])[0]; mfiles = T.model_files(mo)
        if mo['status'] != r['status'] or mfiles != r['files']:
            diff = sorted(set(mfiles) ^ set(r['files'])) or [p for p in mfiles if mfiles[p] != r['files'].get(p)]
            out.disagreements.append(dict(rec, detail=dict(kind='several inputs in one run', inputs_of_the_run=names, paths=diff[:6])))
    return vios


def check_case(prop, case, sb, drv, key, out, n_orders=3):
    g = random.Random(repr(key) + 'orders')
    tgt = case.get('target', 0)
    inp = case['inputs'][tgt]
    real = run_layout(sb.dir, case, variant='v0')
    if len(case['inputs']) > 1:
        real['abs_inputs_all'] = real['abs_inputs']; real['abs_inputs'] = [real['abs_inputs'][tgt]]
    out.traces_validated += 1
    mo = drv.run([T.model_request(case, real.get('abs_inputs_all', real['abs_inputs']))])[0]
    rec = dict(suite='trees', key=key, case=case)
    # ---- correspondence
    mfiles = T.model_files(mo)
    dis = None
    if mo['status'] != real['status']: dis = dict(kind='status', model=mo['status'], real=real['status'])
    elif mfiles != real['files']:
        diff = sorted(set(mfiles) ^ set(real['files'])) or [p for p in mfiles if mfiles[p] != real['files'].get(p)][:3]
        dis = dict(kind='output tree', paths=diff[:6], model={p: mfiles.get(p) for p in diff[:2]}, real={p: real['files'].get(p) for p in diff[:2]})
    elif mo['stdout'] != real['stdout']: dis = dict(kind='stdout', model=mo['stdout'][:400], real=real['stdout'][:400])
    if dis: out.disagreements.append(dict(rec, detail=dis))
    # ---- oracles
    vios = []
    st = case['settings']
    files = real['files']
    if inp['kind'] == 'dir':
        excl, spec = excl_fn(case, real['abs_inputs'][0])
        exp = {}; order = []
        if not spec.match_file(os.path.join(real['abs_inputs'][0], '')):
            T.spec_walk(inp['children'], [], excl, st['recursive'], st['auto_exclude'], exp, order)
        if case.get('output') is None: exp_files = {}
        else: exp_files = exp
    else:
        excl, spec = excl_fn(case, real['abs_inputs'][0])
        order = [] if spec.match_file(real['abs_inputs'][0]) else [[inp['name']]]
        exp = {'.'.join(inp['name'].split('.')[:-1]) + '.rst': None} if order else {}
        exp_files = {} if case.get('output') is None else exp
    if real['status'] != 'ok':
        vios.append(dict(kind='diagnostic-free input failed', status=real['status']))
    elif prop in ('C13', 'C14', 'C15', 'C17', 'C18', 'C12'):
        if set(files) != set(exp_files) and prop in ('C13', 'C15', 'C18'):
            vios.append(dict(kind='set of written files', unexpected=sorted(set(files) - set(exp_files)), missing=sorted(set(exp_files) - set(files))))
    if real['status'] == 'ok' and case.get('output') is not None:
        if prop == 'C13' and inp['kind'] == 'dir':
            for relf in order[:6]:
                content = find_content(inp['children'], relf)
                page = files.get(os.path.join(*(relf[:-1] + ['.'.join(relf[-1].split('.')[:-1]) + '.rst'])))
                lone = lone_page(sb.dir, content, 'x')
                if page is None or body_after_module(page) != body_after_module(lone):
                    vios.append(dict(kind='page differs from the lone-file page', file=relf, page=page, lone=lone)); break
        if prop == 'C14' and inp['kind'] == 'dir':
            vios += judge_indexes(st, inp, exp, files)
            if case.get('companions'): vios += several_inputs(case, inp, sb, drv, out, rec)
        if prop == 'C15' and inp['kind'] == 'dir' and st['recursive'] and not st['auto_exclude']:
            # processed iff neither the file nor a directory on the way is excluded (independent pathspec calls)
            def visit(ch, rel, alive):
                for c in ch:
                    if 'children' in c:
                        visit(c['children'], rel + [c['name']], alive and not excl(rel + [c['name']], True))
                    elif T.iscm(c['name']):
                        should = alive and not excl(rel + [c['name']], False)
                        page = os.path.join(*(rel + ['.'.join(c['name'].split('.')[:-1]) + '.rst']))
                        if should != (page in files):
                            vios.append(dict(kind='exclusion not honoured', file=rel + [c['name']], should_be_processed=should))
            root_alive = not spec.match_file(os.path.join(real['abs_inputs'][0], ''))
            visit(inp['children'], [], root_alive)
        if prop == 'C12':
            vios += judge_names(case, inp, order, files)
            if case.get('history') and case.get('output') in ('abs', 'rel'):
                # several runs into ONE output directory, the naming settings changed in between (the sources are not touched): after
                # every run every page carries the title, frame and module name that follow from the settings of THAT run
                for k, h in enumerate([{}] + case['history']):
                    ck = copy.deepcopy(case); ck['settings'].update(h)
                    rk = T.run_real(sb.dir, ck, variant='hist', keep_inputs=k > 0)
                    out.traces_validated += 1; out.dist['history-steps'] += 1
                    vk = [dict(kind='diagnostic-free input failed', status=rk['status'])] if rk['status'] != 'ok' else judge_names(ck, ck['inputs'][tgt], order, rk['files'])
                    vios += [dict(v, run='%d of %d into one output directory' % (k + 1, len(case['history']) + 1), settings_of_the_run=ck['settings']) for v in vk]
                    if vk: break
    if prop == 'C15' and inp['kind'] == 'dir' and real['status'] == 'ok':
        # listing-order invariance: the same tree under other orders must give the same output tree
        for k in range(n_orders):
            c2 = copy.deepcopy(case)
            c2['inputs'][0]['children'] = T.permute(g, inp['children'], g.choice(['sorted', 'reversed', 'shuffle', 'shuffle']))
            r2 = T.run_real(sb.dir, c2, variant='perm%d' % k)
            out.traces_validated += 1
            if r2['files'] != files or r2['status'] != real['status']:
                diff = sorted(set(r2['files']) ^ set(files)) or [p for p in files if files[p] != r2['files'].get(p)]
                vios.append(dict(kind='output depends on the directory listing order', paths=diff[:6],
                                 order=[c['name'] for c in c2['inputs'][0]['children']])); break
    if prop in ('C18', 'C13') and real['status'] == 'ok' and case.get('output') == 'abs' and inp['kind'] == 'dir' and key[-1] % 2 == 0:
        # the output directory already holds the pages of an earlier run made with other settings
        old = copy.deepcopy(case); old['settings'] = dict(old['settings'], prefix='OLDPFX', ext_titles=not st.get('ext_titles', False))
        T.run_real(sb.dir, old, variant='stale')
        r2 = T.run_real(sb.dir, case, variant='stale', keep_inputs=True)
        out.traces_validated += 2
        if r2['files'] != files:
            diff = [p for p in files if files[p] != r2['files'].get(p)] or sorted(set(files) ^ set(r2['files']))
            vios.append(dict(kind='pages left over from an earlier run were not rewritten', paths=diff[:5]))
    if prop == 'C18' and real['status'] == 'ok':
        if real['changed_outside_output']:
            vios.append(dict(kind='files outside the output directory changed', changed=list(real['changed_outside_output'].items())[:5]))
        if case.get('output') == 'prepopulated' and not real.get('unrelated_intact'):
            vios.append(dict(kind='unrelated files in the output directory were touched'))
        if real['damaged']:
            vios.append(dict(kind='files of the input tree lying in the output directory were changed or removed', paths=real['damaged'][:5]))
        if case.get('output') is None:
            c2 = copy.deepcopy(case); c2['output'] = case.get('with_o', 'abs')
            r2 = run_layout(sb.dir, c2, variant='with_o')
            if r2['changed_outside_output'] or r2['damaged']:
                vios.append(dict(kind='the same invocation with -o changed files other than its pages', changed=list(r2['changed_outside_output'].items())[:5], damaged=r2['damaged'][:5]))
            pages = []
            for relf in order:
                pages.append(r2['files'].get(os.path.join(*(relf[:-1] + ['.'.join(relf[-1].split('.')[:-1]) + '.rst']))))
            if None in pages: vios.append(dict(kind='-o run lacks a page the stdout run should print'))
            else:
                want = ''.join(p + '\n\n' for p in pages)
                got = real['stdout']
                # the statement: the pages in order, separated by nothing but newlines
                norm = lambda s: re.sub(r'\n+', '\n', s)
                if got != want and norm(got) != norm(want):
                    vios.append(dict(kind='stdout differs from the pages written with -o', expected=want[:600], real=got[:600]))
            if real['files'] or any(True for _ in real['changed_outside_output']):
                vios.append(dict(kind='files written although no output directory was given', changed=list(real['changed_outside_output'])[:5]))
        elif real['stdout'].strip():
            vios.append(dict(kind='stdout not empty in file mode', stdout=real['stdout'][:300]))
    for v in vios:
        out.violations.append(dict(rec, detail=v, model_agrees=dis is None))
    # ---- bookkeeping
    nfiles = len(files); out.dist['files:%d' % min(nfiles, 9)] += 1
    out.dist['kind:' + inp['kind']] += 1; out.dist['output:%s' % case.get('output')] += 1
    for k in ('recursive', 'auto_exclude'): out.dist['%s=%s' % (k, st[k])] += 1
    out.dist['patterns:%d' % len(case.get('patterns', []))] += 1
    nontriv = nfiles >= 2 or (case.get('output') is None and len(order) >= 1)
    if prop == 'C15': nontriv = nontriv and bool(case.get('patterns'))
    out.note_case(key, nontriv)
    out.sample(dict(suite='trees', key=key, inputs=[dict(i, children='...') if 'children' in i else i for i in case['inputs']],
                    tree=_names(inp.get('children', [])), settings={k: v for k, v in st.items() if v not in (None, False)},
                    patterns=case.get('patterns'), output=case.get('output'), written=sorted(files)[:12]))


def documenter_defaults_suite(out, drv):
    """`Documenter(file, title=None, module_name=None)`: the title defaults to the file argument, the module name to the title
    (an empty string is a value, not "absent"); the model's pipeline is called with the names the defaults must yield"""
    import contextlib, io
    src = '#[[[\n# doc\n#]]\nfunction(f a)\nendfunction()\n'
    with impl.Sandbox() as sb:
        path = sb.write('d.cmake', src)
        for n, (args, (t, m)) in enumerate([((), (path, path)), (('Ttl',), ('Ttl', 'Ttl')), (('', None), ('', '')), (('A', 'B'), ('A', 'B')),
                                            ((None, 'B'), (path, 'B')), (('A', ''), ('A', ''))]):
            with impl.capture_logs(), contextlib.redirect_stderr(io.StringIO()), contextlib.redirect_stdout(io.StringIO()):
                try: real = str(impl.Documenter(path, *args, settings=impl.make_settings({}, headers=['#'])).process())
                except Exception as e: real = 'RAISED ' + type(e).__name__      # a crash of the code under test is a finding, not a harness failure
            mo = drv.run([dict(op='pipeline', cfg={}, headers=['#'], title=t, mod=m, src=src)])[0]
            out.traces_validated += 1; out.note_case(('C12', 'documenter-defaults', n), True)
            rec = dict(suite='documenter-defaults', key=('C12', 'documenter-defaults', n), args=[repr(a) for a in args])
            if mo.get('rst') != real:
                out.disagreements.append(dict(rec, detail=dict(kind='Documenter defaults', model=mo.get('rst'), real=real)))
            lines = real.split('\n')
            if lines[1:4] != ['#' * len(t), t, '#' * len(t)] or ('.. module:: ' + m) not in lines:
                out.violations.append(dict(rec, detail=dict(kind='title/module name do not follow the documented defaults', expected_title=t, expected_module=m,
                                                            real=lines[:8]), model_agrees=mo.get('rst') == real))
    out.suites.append(dict(name='documenter-defaults', cases=6))


def odd_inputs_suite(prop, out, drv):
    """inputs that are not there or are no regular file/directory (FIFO), alone and between healthy inputs of one run:
    nothing is written for them, a missing path ends the run with status -1 after the earlier inputs were documented"""
    good_f = dict(kind='file', name='ok.cmake', content='function(ok_f a)\nendfunction()\n', spelled='abs')
    good_d = dict(kind='dir', name='gd', spelled='abs', children=[dict(name='x.cmake', content='function(x_f)\nendfunction()\n')])
    miss = dict(kind='missing', name='nothing_here.cmake', spelled='abs')
    fifo = dict(kind='special', name='pipe.cmake', spelled='abs')
    st = dict(recursive=True, auto_exclude=True, prefix=None, sep='.', ext_titles=False, ext_modules=False, headers=None, cfg=None)
    for n, (inputs, output) in enumerate([([miss], 'abs'), ([miss], None), ([fifo], 'abs'), ([fifo], None), ([good_f, miss, good_d], 'abs'),
                                          ([good_d, fifo, good_f], 'abs'), ([good_d, fifo, good_f], None), ([fifo, miss], 'abs')]):
        case = dict(inputs=copy.deepcopy(inputs), settings=dict(st), patterns=[], output=output)
        with impl.Sandbox() as sb:
            real = T.run_real(sb.dir, case, variant='odd')
        mo = drv.run([T.model_request(case, real['abs_inputs'])])[0]
        out.traces_validated += 1; out.note_case((prop, 'odd', n), True); out.dist['odd-inputs'] += 1
        rec = dict(suite='odd-inputs', key=(prop, 'odd', n), case=case)
        mfiles = T.model_files(mo)
        if mo['status'] != real['status'] or mfiles != real['files'] or mo['stdout'] != real['stdout']:
            out.disagreements.append(dict(rec, detail=dict(kind='odd inputs', model=dict(status=mo['status'], files=sorted(mfiles), stdout=mo['stdout'][:200]),
                                                           real=dict(status=real['status'], files=sorted(real['files']), stdout=real['stdout'][:200]))))
        has_missing = any(i['kind'] == 'missing' for i in inputs)
        if has_missing and real['status'] == 'ok':
            out.violations.append(dict(rec, detail=dict(kind='a path that does not exist did not end the run with a failure status'), model_agrees=False))
        if real['changed_outside_output']:
            out.violations.append(dict(rec, detail=dict(kind='files outside the output directory changed', changed=list(real['changed_outside_output'].items())[:5]), model_agrees=True))
        if output is None and real['files']:
            out.violations.append(dict(rec, detail=dict(kind='files written although no output directory was given'), model_agrees=True))
        if all(i['kind'] in ('missing', 'special') for i in inputs) and (real['files'] or real['stdout'].strip()):
            out.violations.append(dict(rec, detail=dict(kind='something was written or printed for an input that is no CMake file or directory',
                                                        files=sorted(real['files']), stdout=real['stdout'][:200]), model_agrees=True))
    out.suites.append(dict(name='odd-inputs', cases=8))


def _names(ch):
    return [c['name'] + ('/' + str(_names(c['children'])) if 'children' in c else '') for c in ch]


def tree_suite(prop, seed, count, out, drv, budget_s=None):
    import time
    t0 = time.time(); done = 0
    for n in range(count):
        if budget_s and time.time() - t0 > budget_s:
            out.notes.append(f"tree suite stopped at {done}/{count} (time budget)"); break
        g = random.Random(f"{prop}/tree/{seed}/{n}")
        case = gen_case(g, prop)
        with impl.Sandbox() as sb:
            check_case(prop, case, sb, drv, (prop, 'tree', seed, n), out)
        done += 1
    out.suites.append(dict(name='trees', cases=done))


def replay(prop):
    def go(v, drv):
        from suites import Outcome
        o = Outcome(prop)
        if v.get('suite') == 'cli':
            import s_cli
            case = v['case']
            with impl.Sandbox() as sb:
                api = T.run_real(sb.dir, case, variant='api'); cli = s_cli.run_main(sb.dir, case, 'cli', out_mode=case.get('cli_out', 'abs'))
            bad = cli['status'] != api['status'] or (cli['stdout'] != api['stdout'] if case.get('output') is None else cli['files'] != api['files'])
            return dict(fails=bool(bad), api_status=api['status'], cli_status=cli['status'], cli_stdout=cli['stdout'][:500], api_stdout=api['stdout'][:500])
        with impl.Sandbox() as sb:
            check_case(prop, v['case'], sb, drv, tuple(v.get('key', ())), o)
        return dict(fails=bool(o.violations), violations=[x['detail'] for x in o.violations][:3], disagreements=[x['detail'] for x in o.disagreements][:2])
    return go
