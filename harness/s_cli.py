"""CLI level: the same case through `cminx.main([...])` (argparse + confuse + real logging configuration) must give the output
tree / stdout that the `document()` API gives — in particular stdout carries the pages and nothing else."""
import contextlib, io, logging, os, random, re

import yaml
import impl, s_tree as T
from impl import cminx


def run_main(sb_dir, case, variant, out_mode='abs'):
    base = os.path.join(sb_dir, '+zq9_' + variant + '+'); os.makedirs(base, exist_ok=True)
    inp = case['inputs'][0]; st = case['settings']
    p = os.path.join(base, '+loc+', '+i0+', inp['name'])
    if inp['kind'] == 'dir': T.materialize(p, inp['children'], os.path.join(base, '+vendor_q7+'), inp.get('hidden_links', ()))      # links planted like the API run does
    else:
        os.makedirs(os.path.dirname(p), exist_ok=True)
        with open(p, 'wb') as f: f.write(inp['content'].encode('utf-8'))
    more = []
    for k, other in enumerate(case['inputs'][1:], 1):      # further inputs of the same invocation (directories)
        q = os.path.join(base, '+loc+', '+i%d+' % k, other['name']); T.materialize(q, other['children']); more.append((q, other))
    home = os.path.join(base, 'home'); os.makedirs(os.path.join(home, '.config'), exist_ok=True)
    work = os.path.join(base, '+work+'); os.makedirs(work, exist_ok=True)
    # the directory the command runs in: '+work+' (holds nothing a pattern could name), or one given relative to the input directory
    # (`cli_cwd`: '.', '..', a sub-directory) -- there the names that bare patterns carry exist as entries of the working directory
    if case.get('cli_cwd') and inp['kind'] == 'dir': work = os.path.normpath(os.path.join(p, case['cli_cwd']))
    sfile = os.path.join(base, 's.yaml')
    cfgd = {'input': {'auto_exclude_directories_without_cmake': st['auto_exclude'], 'follow_symlinks': bool(st.get('follow', False))},
            'rst': {'module_path_separator': st.get('sep', '.'), 'file_extensions_in_titles': st.get('ext_titles', False),
                    'file_extensions_in_modules': st.get('ext_modules', False)}}
    if st.get('headers'): cfgd['rst']['headers'] = list(st['headers'])
    for f, v in ((st.get('cfg') or {}).get('incl') or {}).items(): cfgd['input']['include_undocumented_' + f] = v
    pats = [pt.replace('{INP}', p) for pt in case.get('patterns', [])]
    # the exclude patterns come from all three sources at once; their union applies (order: command line, -s file, user file)
    k1 = len(pats) // 3; k2 = 2 * len(pats) // 3
    cli_p, s_p, u_p = (pats[:k1 + (1 if len(pats) % 3 else 0)], pats[k1 + (1 if len(pats) % 3 else 0):k2 + (1 if len(pats) % 3 else 0)], pats[k2 + (1 if len(pats) % 3 else 0):]) if len(pats) >= 2 else (pats, [], [])
    if s_p: cfgd['input']['exclude_filters'] = s_p
    with open(sfile, 'w') as f: f.write(yaml.safe_dump(cfgd))
    if u_p:
        os.makedirs(os.path.join(home, '.config', 'cminx'), exist_ok=True)
        with open(os.path.join(home, '.config', 'cminx', 'config.yaml'), 'w') as f: f.write(yaml.safe_dump({'input': {'exclude_filters': u_p}}))
    args = [p] + [q for q, _ in more] + ['-s', sfile]
    if st['recursive']: args.append('-r')
    if st.get('prefix') is not None: args += ['-p', st['prefix']]
    for pt in cli_p: args += ['-e', pt]
    out_abs = None
    if case.get('output') is not None and out_mode == 'sfile-rel':
        # (10) the output directory comes from the -s file, relative: "resolved against the current directory" (relative_to_config off)
        out_abs = os.path.join(work, 'rel', 'out'); cfgd['output'] = {'directory': os.path.join('rel', 'out')}
        with open(sfile, 'w') as f: f.write(yaml.safe_dump(cfgd))
    elif case.get('output') is not None:
        if out_mode == 'rel':      # a relative output directory is meant relative to the directory the command runs in
            out_abs = os.path.join(work, 'rel', 'out'); args += ['-o', os.path.join('rel', 'out')]
        elif out_mode in ('equal', 'above'):      # the input directory itself / the directory that holds the input: the pages land beside the sources
            out_abs = p if out_mode == 'equal' and inp['kind'] == 'dir' else os.path.dirname(p); args += ['-o', os.path.relpath(out_abs, work)]
        else:
            out_abs = os.path.join(base, 'out'); args += ['-o', out_abs]
    start_cwd = os.getcwd(); stray_before = os.path.lexists(os.path.join(start_cwd, 'rel'))
    before = T.snapshot(base); pre = T.read_tree(out_abs) if out_abs else {}      # what lies in the output directory already
    old = {k: os.environ.get(k) for k in ('HOME', 'XDG_CONFIG_HOME', 'CMINXDIR')}
    os.environ['HOME'] = home; os.environ['XDG_CONFIG_HOME'] = os.path.join(home, '.config'); os.environ.pop('CMINXDIR', None)
    cwd = os.getcwd(); stdout = io.StringIO(); status = 'ok'
    try:
        os.chdir(work)
        with contextlib.redirect_stdout(stdout), contextlib.redirect_stderr(io.StringIO()):
            try:
                if inp['kind'] == 'dir':
                    with contextlib.ExitStack() as es:
                        es.enter_context(T.imposed_listing(p, inp['children']))
                        cminx.main(args)
                else: cminx.main(args)
            except SystemExit as e: status = 'exit:%r' % (e.code,)
            except BaseException as e:
                if isinstance(e, (KeyboardInterrupt, MemoryError)): raise
                status = type(e).__name__
    finally:
        os.chdir(cwd)
        for k, v in old.items():
            if v is None: os.environ.pop(k, None)
            else: os.environ[k] = v
        logging.disable(logging.NOTSET)
        for name in ('cminx', ''):
            lg = logging.getLogger(name)
            for h in lg.handlers[:]: lg.removeHandler(h)
    after = T.snapshot(base)
    out_rel = (os.path.relpath(out_abs, base) + os.sep) if out_abs else None
    changed = sorted(pth for pth in set(before) | set(after) if before.get(pth) != after.get(pth)
                     and not (out_rel and (pth.startswith(out_rel) or (pth.endswith('/') and out_rel.startswith(pth)))))
    stray = None
    if not stray_before and os.path.lexists(os.path.join(start_cwd, 'rel')):      # written relative to some other directory: clean up, report
        import shutil
        stray = os.path.join(start_cwd, 'rel'); shutil.rmtree(stray, ignore_errors=True)
    files = T.read_tree(out_abs) if out_abs else {}
    damaged = sorted(q for q in pre if files.get(q) != pre[q])
    return dict(status=status, stdout=stdout.getvalue(), files={q: t for q, t in files.items() if q not in pre}, changed_outside=changed, stray=stray, damaged=damaged, abs_input=p,
                model=dict(argv=args, sfile=sfile, sfile_content=cfgd, user_content=({'input': {'exclude_filters': u_p}} if u_p else None),
                           world=[(p, inp)] + more, pre=bool(pre), out_mode=out_mode))


def has_links(children):
    return any(c.get('symlink') or c.get('dirlink') or c.get('alias') or ('children' in c and has_links(c['children'])) for c in children)


def whole_program(cli, case, out, drv, key):
    """the very command line of this run, the content of the -s file and of the user file, the packaged defaults and what the input paths
    denote, handed to `Main.cminxMain` — parser, layering, settings, exclusion by pattern, walk, pages in ONE model function, none of it
    translated by the harness — and its outcome compared with what the real main() did"""
    import s_config
    m = cli['model']
    if m['pre'] or m['out_mode'] in ('equal', 'above') or any(i['kind'] == 'dir' and has_links(i['children']) for _, i in m['world']):
        out.dist['whole-program:skipped (links / output over existing files)'] += 1; return
    world = {}
    for path, inp in m['world']:
        j = dict(kind=inp['kind'], name=inp['name'], abs=[c for c in path.split('/') if c])
        if inp['kind'] == 'dir': j['children'] = inp['children']
        elif inp['kind'] == 'file': j['content'] = inp['content']
        world[path] = j
    req = dict(op='cminx', argv=m['argv'], sfiles={m['sfile']: s_config.flat(m['sfile_content'])},
               user=s_config.flat(m['user_content']) if m['user_content'] else {}, defaults=s_config.load_defaults(), world=world)
    mo = drv.run([req])[0]
    out.traces_validated += 1; out.dist['whole-program:' + mo.get('outcome', 'fail')] += 1
    rec = dict(suite='whole-program', key=key, case=case, argv=m['argv'])
    if mo.get('outcome') == 'unsupported': return
    if mo.get('outcome') != 'ran':
        if cli['status'] == 'ok': out.disagreements.append(dict(rec, detail=dict(kind='model: the run does not get as far as documenting', model=mo, real=cli['status'])))
        return
    mstatus = mo['status'] if isinstance(mo['status'], str) else 'raised'
    rstatus = 'ok' if cli['status'] == 'ok' else ('exit-1' if cli['status'] == 'exit:-1' else 'raised')
    mfiles = T.model_files(mo)
    # with an output directory main()'s own log records (INFO, to stdout by the default logging configuration) are all that is printed:
    # "nothing else as long as the input triggers no diagnostics" is about the stdout mode
    same_out = mo['stdout'] == cli['stdout'] if case.get('output') is None else mo['stdout'] == ''
    if mstatus != rstatus or not same_out or mfiles != cli['files']:
        diff = sorted(q for q in set(mfiles) | set(cli['files']) if mfiles.get(q) != cli['files'].get(q))[:6]
        out.disagreements.append(dict(rec, detail=dict(kind='whole program: model and real main() differ', status=dict(model=mo['status'], real=cli['status']),
                                                       files_differing=diff, stdout_equal=same_out,
                                                       sample=dict(model=mfiles.get(diff[0], '')[:300], real=cli['files'].get(diff[0], '')[:300]) if diff else None)))


def tree_dirs(children, rel=()):
    """(path, children) of every directory of the tree that is no link, the root first"""
    out = [(rel, children)]
    for c in children:
        if 'children' in c and not c.get('dirlink'): out += tree_dirs(c['children'], rel + (c['name'],))
    return out


PLANTED = 'function(planted_f a)\nendfunction()\n'


def names_in_cwd(g, case, mode):
    """C15: the command is started in a directory in which the name that a bare `name` / `name/` pattern of the command line carries
    EXISTS as an entry -- the input directory itself ('.'), one of its sub-directories ('sub') or the directory that holds the input
    ('..') -- and the tree has the same name at another depth as well (planted where it has none).  What a pattern means depends neither
    on where the command is started nor on the source it comes from: the pattern goes first (= on the command line) and the run is
    compared with the API run, which gets all patterns in one list and starts in the empty '+work+'"""
    inp = case['inputs'][0]; dirs = tree_dirs(inp['children']); tame = lambda c: not c.get('dirlink') and not set(c['name']) & set('\\*?[]!#')
    crel, cch = (), inp['children']
    if mode == 'sub':
        subs = [d for d in dirs[1:] if any(tame(c) for c in d[1])]
        if subs: crel, cch = g.choice(subs)
    if mode == '..': nm, isdir, here = inp['name'], True, None      # the one entry of that directory is the input
    else:
        cands = [c for c in cch if tame(c) and ('children' in c or T.iscm(c['name']))] or [c for c in cch if tame(c)]
        if not cands: return
        c = g.choice(cands); nm, isdir = c['name'], 'children' in c; here = crel + (nm,)
    # directories that may hold the second entry of that name: not the working directory, nothing below the first entry (pruned with it)
    hosts = [d for d in dirs if (mode == '..' or d[0] != crel) and not (here and isdir and d[0][:len(here)] == here)]
    if not any(c['name'] == nm and not c.get('dirlink') for _, ch in hosts for c in ch):
        stem = lambda s: s.lower().rsplit('.', 1)[0]
        free = [d for d in hosts if not any(c['name'].lower() == nm.lower() or (not isdir and 'children' not in c and stem(c['name']) == stem(nm)) for c in d[1])]
        if free: host = g.choice(free)[1]
        else:
            host = []; inp['children'].append(dict(name='zz_more', children=host))
        host.insert(g.randint(0, len(host)), dict(name=nm, children=[dict(name='planted.cmake', content=PLANTED)]) if isdir else dict(name=nm, content=PLANTED))
    pat = nm + '/' if isdir and g.random() < 0.5 else nm
    case['patterns'] = [pat] + [pt for pt in case.get('patterns', []) if pt != pat]
    case['settings']['recursive'] = True; case['cli_cwd'] = '..' if mode == '..' else (os.path.join(*crel) if crel else '.')


def own_patterns(g, inp):
    """1-3 patterns of the forms C15 names, each of which MATCHES something of this input: taken from the tree's own names"""
    if inp['kind'] != 'dir': return [g.choice([inp['name'], '*' + inp['name'][-6:], '{INP}', '**/' + inp['name']])]
    dirs = [d[0] for d in tree_dirs(inp['children'])[1:] if not set(d[0][-1]) & set('\\*?[]!#')]; files = []
    for rel, ch in tree_dirs(inp['children']):
        files += [rel + (c['name'],) for c in ch if 'children' not in c and not set(c['name']) & set('\\*?[]!#')]
    cm = [f for f in files if T.iscm(f[-1])]; root = '/+r+/' + inp['name']
    for _ in range(8):
        pats = []
        for _ in range(g.randint(1, 3)):
            k = g.random()
            if dirs and k < 0.4:
                d = g.choice(dirs); pats.append(g.choice([d[-1] + '/', d[-1], '**/%s/' % d[-1], '{INP}/%s/' % '/'.join(d), '**/%s/*.cmake' % d[-1]]))
            elif files:
                f = g.choice(cm if cm and g.random() < 0.8 else files); pats.append(g.choice([f[-1], f[-1], '**/' + f[-1], '{INP}/' + '/'.join(f), '*' + f[-1][-6:]]))
        if g.random() < 0.1: pats.append(inp['name'] + '/')      # the input itself
        hit, spec = T.excluded_list(root + '/', inp['children'], [pt.replace('{INP}', root) for pt in pats])
        if hit or spec.match_file(root + '/'): break
    return pats


def cli_suite(prop, seed, count, out, drv):
    """stdout mode (C18) or file mode (C13): main() vs document()"""
    import s_treeprops as P
    # on top of the `count` cases -- C15: started where the bare names of the command line exist; C18: stdout mode with patterns that match
    more = {'C15': max(8, count // 2), 'C18': max(8, count // 3)}.get(prop, 0)
    for n in range(count + more):
        g = random.Random(f"{prop}/cli/{seed}/{n}")
        case = P.gen_case(g, prop)
        case['inputs'] = case['inputs'][:1]; case.pop('target', None)
        case['inputs'][0]['spelled'] = 'abs'
        rel_mode = n % 2 == 1      # every other case: a relative -o, which must land below the working directory and nowhere else
        sfile_mode = rel_mode and n % 4 == 3      # ... or a relative output.directory in the -s file
        if prop in ('C15', 'C13') and n % 3 == 0 and case['inputs'][0]['kind'] == 'dir':
            # a second directory in the same invocation (a copy of the first under another name): the exclude patterns of all
            # sources apply to every input, not just to the first one
            import copy
            case['inputs'].append(dict(kind='dir', name='second_' + case['inputs'][0]['name'], spelled='abs', children=copy.deepcopy(case['inputs'][0]['children'])))
            for c in case['inputs'][1]['children']: c.pop('dirlink', None)
        # C18, every fourth case: -o names the input directory itself or the directory that holds the input (also for a lone file)
        beside = g.choice(['equal', 'above']) if prop == 'C18' and n % 4 == 2 else None
        case['output'] = None if (prop == 'C18' and not rel_mode and not beside) else 'abs'
        case['cli_out'] = beside or ('sfile-rel' if sfile_mode else ('rel' if rel_mode else 'abs'))
        if prop == 'C15' and len(case.get('patterns', [])) < 2: case['patterns'] = list(case.get('patterns', [])) + ['*.txt', 'b.cmake', 'sub/']
        if n >= count:
            gx = random.Random(f"{prop}/cli+/{seed}/{n}"); case['cli_out'] = 'abs'
            if prop == 'C15' and case['inputs'][0]['kind'] == 'dir': names_in_cwd(gx, case, ['.', 'sub', '.', 'sub', '..'][(n - count) % 5])
            if prop == 'C18':
                case['output'] = None; case['patterns'] = own_patterns(gx, case['inputs'][0])
                i0 = case['inputs'][0]
                if (n - count) % 2 == 0 and i0['kind'] == 'dir' and not case['settings'].get('follow'):
                    # ... and a symbolic link to a directory (outside the tree) at the top level: with input.follow_symlinks off it leaves
                    # no trace -- no page, no toctree entry, and not a word on stdout
                    i0.setdefault('hidden_links', []).append(dict(rel=[], name='zz_vendor_link', children=[dict(name='v.cmake', content='function(v_f)\nendfunction()\n')]))
        if case['settings'].get('cfg') and case['settings']['cfg'].get('trigger') is not None: case['settings']['cfg'].pop('trigger', None)
        key = (prop, 'cli', seed, n)
        with impl.Sandbox() as sb:
            api = T.run_real(sb.dir, case, variant='api')
            cli = run_main(sb.dir, case, 'cli', out_mode=case['cli_out'])
            whole_program(cli, case, out, drv, (prop, 'cli', seed, n))
            if prop == 'C18' and case['output'] is None: with_o = run_main(sb.dir, dict(case, output='abs'), 'cli_o', out_mode='abs'); out.traces_validated += 1
        out.traces_validated += 2; out.note_case(key, True); out.dist['cli:' + cli['status']] += 1
        rec = dict(suite='cli', key=key, case=case)
        if api['status'] != 'ok': continue
        if cli['status'] != 'ok':
            out.violations.append(dict(rec, detail=dict(kind='command line fails where the API succeeds', status=cli['status']), model_agrees=True)); continue
        if cli.get('stray') or cli.get('damaged') or [c for c in cli.get('changed_outside', []) if not c.startswith('home') or c.endswith('.rst') or '/rel/' in c or c.endswith('/rel/')]:
            out.violations.append(dict(rec, detail=dict(kind='the command line run created or changed something outside the requested output directory',
                                                        stray=cli.get('stray'), changed=(cli.get('changed_outside', []) + cli.get('damaged', []))[:6]), model_agrees=True)); continue
        if prop == 'C18' and case['output'] is None:
            if cli['stdout'] != api['stdout']:
                extra = [l for l in cli['stdout'].split('\n') if l not in api['stdout'].split('\n')][:5]
                out.violations.append(dict(rec, detail=dict(kind='standard output of the command line carries more or less than the pages', extra_lines=extra,
                                                            expected=api['stdout'][:300], real=cli['stdout'][:300]), model_agrees=True))
            if cli['files']:
                out.violations.append(dict(rec, detail=dict(kind='files written without -o', files=sorted(cli['files'])[:5]), model_agrees=True))
            # the statement itself: exactly the pages that the same invocation with -o writes for the CMake files, directory by directory in
            # the order of the walk, the files of a directory sorted, one empty line after each -- and nothing else
            inp = case['inputs'][0]; st = case['settings']
            excl, spec = P.excl_fn(case, with_o['abs_input']); order = []
            if inp['kind'] != 'dir': order = [] if spec.match_file(with_o['abs_input']) else [[inp['name']]]
            elif not spec.match_file(os.path.join(with_o['abs_input'], '')): T.spec_walk(inp['children'], [], excl, st['recursive'], st['auto_exclude'], {}, order)
            pages = [with_o['files'].get(os.path.join(*(f[:-1] + ['.'.join(f[-1].split('.')[:-1]) + '.rst']))) for f in order]
            norm = lambda s: re.sub(r'\n+', '\n', s)
            if with_o['status'] != 'ok' or None in pages:
                out.violations.append(dict(rec, detail=dict(kind='the same command line with -o fails or lacks a page', status=with_o['status'], written=sorted(with_o['files'])[:8]), model_agrees=True))
            elif cli['stdout'] != ''.join(pg + '\n\n' for pg in pages) and norm(cli['stdout']) != norm(''.join(pg + '\n\n' for pg in pages)):
                foreign = [l for l in cli['stdout'].split('\n') if l not in ''.join(pg + '\n' for pg in pages).split('\n')][:5]
                out.violations.append(dict(rec, detail=dict(kind='standard output is not exactly the pages that the same command line writes with -o', foreign_lines=foreign,
                                                            expected=''.join(pg + '\n\n' for pg in pages)[:300], real=cli['stdout'][:300]), model_agrees=True))
        else:
            if cli['files'] != api['files']:
                diff = sorted(set(cli['files']) ^ set(api['files'])) or [p for p in api['files'] if api['files'][p] != cli['files'].get(p)]
                out.violations.append(dict(rec, detail=dict(kind='output tree of the command line differs from the API', paths=diff[:6]), model_agrees=True))
    out.suites.append(dict(name='cli-vs-api', cases=count + more))
