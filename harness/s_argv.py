"""The command line of `cminx.main` (C16: "the four settable from the command line (-o, -r, -p, -e)"; C19: what the argument vector that
cminx_gen_rst() builds means): the Lean model of main's argument parser (`CMakeWrap.parseArgv`, `argvSupported`) and of the command-line
configuration source (`Cli.cliSource`) against the REAL parser and the REAL hand-over to confuse.

The real `main(argv)` runs until `Configuration.set_args`: `ArgumentParser.parse_args` is observed (namespace, or the SystemExit of a usage
error) and `set_args` is observed and then stopped (a private exception), so nothing is read or written.  What confuse keeps of a namespace
is `{dest: value for value is not None}` — that dictionary is compared with `cliSource`, the positional `files` and `settings` with
`Parsed`.  Command lines the model does not decide (abbreviated long options, `-ofoo`, `--output=foo`, bundles `-re`, `--`, `-h`) are
counted and skipped."""
import argparse, contextlib, io, random
import confuse
from impl import cminx

FILES = ['a.cmake', 'dir', 'in/put', '', '-', 'two words', '-1', '-2.5', '-x y', 'é.cmake', 'NAME', '.5', 'a=b', '@f']
VALUES = ['out', '', 'p.q', '-', '-1', '-.5', '-a b', 'dir/sub', 'x;y', '*.cmake', 'build/', '!keep', ' ', 'é', '--not an option', '1-2', '@v']
OPTS1 = [('-o', '--output'), ('-p', '--prefix'), ('-s', '--settings'), ('-e', '--exclude')]
FLAGS = ['-r', '--recursive']
HARD = ['--out', '--outp=x', '-ofoo', '-re', '--', '-h', '--help', '--version', '-x', '--recursive=1', '-rr', '-e=pat', '--exclude=a', '-o=', '-5x', '-1-', '-.']


class Stop(Exception):
    pass


def real(argv):
    seen = {}
    orig_parse = argparse.ArgumentParser.parse_args; orig_set = confuse.Configuration.set_args; orig_setfile = confuse.Configuration.set_file
    def parse(self, args=None, namespace=None):
        ns = orig_parse(self, args, namespace); seen['ns'] = dict(vars(ns)); return ns
    def set_args(self, namespace, dots=False):
        # a namespace, or (a rewritten main might hand over) a plain mapping of dotted names
        seen['set_args'] = (dict(vars(namespace)) if hasattr(namespace, '__dict__') else dict(namespace), dots); raise Stop()
    def set_file(self, filename, base_for_paths=False):
        seen['set_file'] = filename
    argparse.ArgumentParser.parse_args = parse; confuse.Configuration.set_args = set_args; confuse.Configuration.set_file = set_file
    try:
        with contextlib.redirect_stdout(io.StringIO()), contextlib.redirect_stderr(io.StringIO()):
            try: cminx.main(list(argv))
            except Stop: pass
            except SystemExit as e: return dict(exit=e.code)
    finally:
        argparse.ArgumentParser.parse_args = orig_parse; confuse.Configuration.set_args = orig_set; confuse.Configuration.set_file = orig_setfile
    if 'set_args' not in seen: return dict(odd='main returned without handing the namespace to confuse', seen=seen)
    ns, dots = seen['set_args']
    pns = seen.get('ns', {})     # files/settings are read from the parser's own namespace: a hand-built overlay need not carry them
    return dict(files=pns.get('files', ns.get('files')), settings=pns.get('settings', ns.get('settings')), dots=dots,
                cli={k: v for k, v in ns.items() if k not in ('files', 'settings') and v is not None})


def gen(g):
    n_files = g.choice([0, 1, 1, 1, 2, 3])
    chunks = []
    for _ in range(g.randint(0, 5)):
        r = g.random()
        if r < 0.25: chunks.append([g.choice(FLAGS)])
        elif r < 0.9:
            o = g.choice(g.choice(OPTS1)); v = g.choice(VALUES)
            if g.random() < 0.08: v = g.choice(FLAGS + [x for p in OPTS1 for x in p])     # the "value" is itself an option string
            chunks.append([o, v] if g.random() < 0.95 else [o])
        else: chunks.append([g.choice(HARD)])
    files = [g.choice(FILES) for _ in range(n_files)]
    if files and g.random() < 0.25 and len(files) >= 2:      # input paths in two places
        k = g.randint(0, len(chunks)); chunks.insert(k, files[:1]); chunks.insert(g.randint(k + 1, len(chunks)), files[1:])
    else:
        chunks.insert(g.randint(0, len(chunks)), files)
    return [t for c in chunks for t in c]


def argv_suite(prop, seed, count, out, drv):
    cases = [['a.cmake'], [], ['-r'], ['a', '-r', 'b'], ['-o', '-r', 'a'], ['a', '-p', ''], ['a', '-p', '-1'], ['a', '-p', '-x'], ['a', '-e', 'x', '-e', 'y', '--exclude', 'z'],
             ['a', '-o'], ['-s', 'f.yaml', 'a', 'b'], ['a', '-p', '-a b'], ['-', '-o', '-'], ['a', '--prefix', 'p', '-p', 'q'], ['a', '-r', '-r']]
    for n in range(count):
        cases.append(gen(random.Random(f"{prop}/argv/{seed}/{n}")))
    mos = drv.run([dict(op='mainargs', argv=a) for a in cases])
    for i, (argv, mo) in enumerate(zip(cases, mos)):
        out.note_case(('argv', argv), len(argv) >= 3)
        if not mo['supported']: out.dist['argv:unsupported (abbreviation, attached value, bundle, --, -h)'] += 1; continue
        re_ = real(argv); out.traces_validated += 1
        key = ('argv', seed, i); bad = None
        if 'odd' in re_: bad = dict(kind=re_['odd'])
        elif 'exit' in re_:
            out.dist['argv:usage error'] += 1
            if mo['parsed'] is not None: bad = dict(kind='real parser exits, model parses', exit=re_['exit'], model=mo['parsed'])
        else:
            out.dist['argv:parsed'] += 1
            for k in re_['cli']: out.dist['argv:cli sets ' + k] += 1
            if mo['parsed'] is None: bad = dict(kind='model: usage error, real parser accepts', real=re_)
            elif not re_['dots']: bad = dict(kind='namespace handed to confuse without dots=True: dotted destinations would not be nested')
            elif mo['parsed']['files'] != re_['files'] or mo['parsed']['settings'] != re_['settings'] or mo['parsed']['cli'] != re_['cli']:
                bad = dict(kind='parsed command line differs', model=mo['parsed'], real=re_)
        if bad: out.disagreements.append(dict(suite='argv', key=key, detail=dict(bad, argv=argv)))
    out.suites.append(dict(name='argv', cases=len(cases)))
