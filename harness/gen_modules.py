"""Generator of decorated abstract CMake modules (the JSON form `Driver/Main.lean: moduleOf` decodes),
and the structural specification of the entries a module must produce (ground truth for the oracles,
written independently of the Lean model: plain recursion over the tree, no stacks).

All randomness comes from the `random.Random` handed in.
"""
import re

STRUCT_OPEN = {'function': 'endfunction', 'macro': 'endmacro', 'cpp_class': 'cpp_end_class',
               'if': 'endif', 'foreach': 'endforeach', 'while': 'endwhile'}
DECLS = ('cpp_member', 'cpp_constructor', 'ct_add_test', 'ct_add_section')
FLAGS = ['function', 'macro', 'cpp_class', 'cpp_attr', 'cpp_constructor', 'cpp_member', 'ct_add_test', 'add_test',
         'ct_add_section', 'option']

DOC_LINES = ['', 'text here', '#hash', '[br] x', ']x', ':param a: b', ':keyword k: v', '..  dots', '  indented',
             '* item', 'héllo ✓', 'see [1]', 'a :param **kwargs: b', ' ', 'trailing  ', '# # double', 'x ] y',
             '\ttab', ':param x1: desc', ':type x1: int', '.. note:: n', '   deeper', 'Ünï 𝒳', '[', ']', '#', ': colon',
             '@module not', 'NAME EXPECTFAIL', 'sep\u2028arated', 'nel\x85here', 'vt\x0bff\x0c',
             # text that is not in a Unicode normal form, and characters whose case mappings change length or script: verbatim means verbatim
             'cafe\u0301 d\u0323\u0307', '\u2126 ohm \u212b \u212a kelvin', 'compat \uf900 \ufb01 \u00b5', '\u0130stanbul \u0131 \u00df \u1e9e', 'A\u030a \u1100\u1161']
LEADERLESS_LINES = ['Plain text', 'another line', 'Cafe\u0301 \u212a', '\u0130zmir road', 'Zed :param a: b', 'x  spaced', 'é?', 'Resolves issue #12 here', 'See [1] and #2']
BARE = ['a', 'b', 'x1', '_p_', 'Foo', 'bar_baz', 'é', 'v-1', '${v}', 'a\\;b', 'NAMEX', 'xEXPECTFAIL', 'name',
        'expectfail', '@V@', '<T>', 'a;b', '$<X:y>', '[x]', 'a\\ b', '\\"q', 'a\\"', '1', '-D', 'x=y', 'ı', 'p/q.r',
        '\\(', 'a\\#b', '$ENV{H}', 'args', 'self', 'COMMAND', 'ON', 'OFF', '_x_y', 'a]', ']', 'a[[b]]',
        'ls\u2028ps\u2029', 'n\x85l', 'v\x0bt', '\u0130d', 'e\u0301', 'a\\\u212ab', '\u212a', '**kwargs', '*args', 'kwargs', '_tf_value_', '__x__']
QUOTED = ['', 'q s', 'a\\"b', 'line\\\ncont', 'semi;colon', '#notcomment', '(paren)', 'é ✓', '$ENV{X}', ' ', 'x',
          'two\nlines', '\\\\', '\u0130 \u0131', 'o\u0308 \u2126', 'NAME', '[[x]]', 'a\\tb', 'u\u2028v', 'f\x0cf', '"'.replace('"', '\\"'), ')', '(']
BRACKET = [(0, 'br'), (0, ' b ] r'), (1, 'b ]] r'), (2, ' ]=] '), (0, ''), (1, 'new\nline'), (0, '# "x" ('), (1, '[[n]]'),
           (0, 'a;b'), (3, '')]
LONG_BARE = ['https://example.org/' + '/'.join('component%02d' % i for i in range(9)) + '/file.tar.gz',
             '--enable-experimental-' + '-'.join(['feature', 'with', 'a', 'very', 'long', 'hyphenated', 'name', 'that', 'goes', 'on', 'and', 'on']),
             '/opt/' + 'x' * 90]
LONG_QUOTED = ['a long help text that keeps going ' * 4, 'word ' * 30 + 'end', 'https://example.org/' + 'p/' * 45,
               'well-known-hyphenated-words-' * 5 + 'x']
LONG_PARAMS = ['the_%s_parameter_number_%d' % (w, i) for i, w in enumerate(['first', 'second', 'destination', 'source_directory', 'output', 'mode', 'verbosity_level', 'callback'])]
IDENTS = ['f', 'g', 'my_fn', 'Klass', 'T1', 'outer', 'inner', 'n2', 'Mod_x', '_u', 'NAME1']
GENERIC_NAMES = ['message', 'add_library', 'include', 'list', 'find_package', 'if_not', 'target_sources', 'unset',
                 'cpp_end_classx', 'functionx', 'endfunctionx', 'return', 'SET_PROPERTY', 'process_docs']
LINE_COMMENTS = [' plain', '', ' function(x)', ' #[[[ looks like doc', ']]', ' cpp_class(X)', '[=x', '[', '[==', ' "quote',
                 ' \\bad escape', '#]]', ' endfunction()', '[x[', ' é ✓', '#[[', ' set(a b) #[[[', '\t', ' )', ' (', ' x\u2028y z', ' p\x0bq r', ' n\x85w ', ' \u0130smail \u00c7elik', ' e\u0301 \ufb03']
BRACKET_COMMENTS = [(0, ' br '), (0, ' function(x)\n multi '), (1, ' #[[[ fake\n#]] '), (1, ' ]] '), (2, ' ]=] '), (0, ''),
                    (0, ' "q ( '), (1, '[[x]]'), (0, '=[ x '), (0, ' é '), (0, ' #'), (1, ' cpp_end_class() '), (0, ' \u0130 '), (1, ' \u212b\u0301 ')]


def case_mix(g, s, level):
    if level == 0: return s
    m = g.random()
    if m < 0.55: return s
    if m < 0.75: return s.upper()
    return ''.join(c.upper() if g.random() < 0.5 else c for c in s)


class Gen:
    """layout: 0 canonical, 1 mild, 2 wild.  crlf: line endings.  profile: weights of item kinds."""

    def __init__(self, g, layout=1, crlf=False, p_doc=0.5, max_depth=3, max_items=6, malformed=0.0,
                 weights=None, doc_lines=None, idents=None, lg=None, doc_blocks=None, p_gap=0.12, p_docimpl=0.0, p_dup=0.0, p_stale=0.0, same_line=0.0, p_bracketish=0.05, p_cont=0.06):
        # g decides the module's content (its token sequence); lg decides only the layout, so the same content seed
        # with different layout seeds yields layout variants of one module
        self.g = g; self.lg = lg if lg is not None else g; self.layout = layout; self.crlf = crlf; self.p_doc = p_doc; self.max_depth = max_depth
        self.max_items = max_items; self.malformed = malformed
        self.weights = weights or {}
        self.doc_lines = doc_lines or DOC_LINES
        self.doc_blocks = doc_blocks
        self.p_gap = p_gap; self.p_docimpl = p_docimpl; self.p_dup = p_dup; self.p_stale = p_stale
        self.same_line = same_line; self.last_was_call = False; self.p_bracketish = p_bracketish; self.p_cont = p_cont
        self.idents = idents or IDENTS
        self.n_items = 0
        self.class_names = []       # names of the classes that are open where the next item is generated
        self.fn_names = []          # name tokens of the function/macro definitions the next item is nested in
        self.member_names = []      # per open class: the member/constructor names declared in it so far (overloads reuse one)

    def class_ref(self):
        """the class an attribute/member says it belongs to: the enclosing one, an outer open one, or an unrelated name"""
        g = self.g; r = g.random()
        if self.class_names and r < 0.5: return self.class_names[-1]
        if len(self.class_names) >= 2 and r < 0.85: return g.choice(self.class_names[:-1])
        return self.ident()

    # ---- separators -------------------------------------------------------------------------------------
    def nl(self): return ['rn'] if self.crlf else ['n']
    def eolname(self): return 'rn' if self.crlf else 'n'

    def filler(self, allow_newline=True):
        """a possibly empty run of filler atoms (wild layouts only)"""
        g = self.lg; out = []
        for _ in range(g.randint(0, 3)):
            k = g.random()
            if k < 0.3: out.append(['s', g.randint(1, 4)])
            elif k < 0.4: out.append(['t', g.randint(1, 2)])
            elif k < 0.6 and allow_newline: out.append(self.nl())
            elif k < 0.8 and allow_newline: out.append(['lc', g.choice(LINE_COMMENTS), self.eolname()])
            else:
                lvl, t = g.choice(BRACKET_COMMENTS)
                if not allow_newline and '\n' in t: t = t.replace('\n', ' ')
                out.append(['bc', lvl, t.replace('\n', '\r\n') if self.crlf else t])
        return out

    def sep_cmd(self, indent, first=False):
        """before a command or doccomment: ends on a fresh line, then `indent` blanks"""
        g = self.lg
        ind = ([['s', indent]] if indent else []) if self.layout < 2 or g.random() < 0.6 else [['t', 1 + indent // 4]]
        if first and (self.layout == 0 or g.random() < 0.5): return ind if self.layout else []
        if self.layout == 0: return [self.nl()] + ind
        if self.layout == 1:
            return ([['s', 1]] if g.random() < 0.1 else []) + [self.nl()] * g.randint(1, 2) + ind
        out = self.filler()
        k = g.random()
        if k < 0.25: out.append(['lc', g.choice(LINE_COMMENTS), self.eolname()])
        else: out.append(self.nl())
        out += self.filler()
        # CMake: a command cannot follow a bracket comment on the same line (file_element = command line_ending |
        # (bracket_comment|space)* line_ending), so a trailing bracket comment gets its own line ending
        last_bc = max([i for i, a in enumerate(out) if a[0] == 'bc'], default=-1)
        if last_bc >= 0 and not any(a[0] in ('n', 'rn', 'lc') for a in out[last_bc + 1:]): out.append(self.nl())
        return out + ind

    def sep_arg(self, first):
        g = self.lg
        if self.layout == 0: return [] if first else [['s', 1]]
        if self.layout == 1:
            if first: return [] if g.random() < 0.8 else [['s', 1]]
            return [['s', g.randint(1, 3)]] if g.random() < 0.8 else [self.nl(), ['s', 4]]
        out = self.filler()
        if not first and not any(a[0] in ('s', 't', 'n', 'rn', 'lc') for a in out):
            out.insert(g.randint(0, len(out)), g.choice([['s', 1], ['t', 1], self.nl(), ['lc', g.choice(LINE_COMMENTS), self.eolname()]]))
        # CMake wants an argument separated by whitespace from a preceding bracket comment (cmake-language: separation)
        if out and out[-1][0] == 'bc': out.append(['s', 1])
        return out

    def sep_close(self):
        g = self.lg
        if self.layout == 0: return []
        if self.layout == 1: return [] if g.random() < 0.8 else [self.nl()]
        return self.filler()

    # ---- arguments --------------------------------------------------------------------------------------
    def tok(self, text=None, forms='bqk'):
        """an argument token (content); `text`: force a bare word"""
        g = self.g
        if text is not None: return ['b', text]
        f = g.choice(forms + 'bbq')
        if f == 'b': return ['b', g.choice(BARE)]
        if f == 'q': return ['q', g.choice(QUOTED)]
        lvl, t = g.choice(BRACKET)
        return ['k', lvl, t]

    def args(self, toks, groups=False):
        """toks: list of tokens; returns [[sep, tok], ...].  Whether and where a parenthesised group is inserted is
        content; the separators are layout."""
        g = self.g
        items = list(toks)
        if groups and g.random() < 0.35:
            inner = [self.tok() for _ in range(g.randint(0, 3))]
            if g.random() < 0.3: inner.insert(g.randint(0, len(inner)), ['G', [self.tok() for _ in range(g.randint(0, 2))]])
            items.insert(g.randint(0, len(items)), ['G', inner])
        return self._lay_args(items)

    def _lay_args(self, items):
        out = []
        for i, t in enumerate(items):
            prev_is_tok = i > 0
            sep = self.sep_arg(i == 0)
            if t[0] == 'G':
                out.append([sep, ['g', self._lay_args(t[1]), self.sep_close()]])
            else:
                out.append([sep, t])
        return out

    def call(self, name, toks, indent, first=False, groups=False, after_doc=False):
        args = self.args(toks, groups)          # content first (consumes self.g), then layout
        lg = self.lg
        pre = self.sep_cmd(indent, first=first and not after_doc)
        if after_doc and not any(a[0] in ('n', 'rn', 'lc') for a in pre):
            pre = [self.nl()] + pre
        if self.same_line and self.last_was_call and not first and not after_doc and lg.random() < self.same_line:
            # the command starts on the line on which the previous one ended (CMake itself wants a line ending between commands; CMinx's
            # grammar does not, and the token sequence is the same)
            pre = [['s', lg.randint(1, 2)]] if lg.random() < 0.7 else []
        self.last_was_call = True
        return dict(pre=pre, name=case_mix(lg, name, self.layout), sp=(0 if self.layout < 2 or lg.random() < 0.7 else lg.randint(1, 2)),
                    args=args, close=self.sep_close())

    # ---- doccomments ------------------------------------------------------------------------------------
    def doc(self, indent, first=False, lines=None, open_suffix='', force=False):
        g = self.g; lg = self.lg
        if not force and g.random() >= self.p_doc: return None
        self.last_was_call = False
        if lines is None and self.doc_blocks is not None:
            lines = []
            for b in range(g.randint(0, 3)):
                if lines: lines.append('')
                lines += g.choice(self.doc_blocks)
        if lines is None:
            lines = [g.choice(self.doc_lines) for _ in range(g.randint(0, 5))]
        lines = [l for l in lines if ']]' not in l]
        leader = True
        if not open_suffix and self.doc_blocks is None and g.random() < 0.08:
            leader = False
            lines = [g.choice(LEADERLESS_LINES) for _ in range(g.randint(1, 3))]
        bare_indented = False
        if leader and not open_suffix and self.doc_blocks is not None and g.random() < 0.2:
            # a leaderless block that is itself indented: body lines are plain text after the block's indentation; the optional
            # single blank after the (absent) leader is still removed, so relative indentation shrinks by one column
            leader = False; bare_indented = True
            lines = [l for l in lines if not l[:1] in ('#', '[', ']')]
        if bare_indented:
            ind = lg.choice(['    ', '  ', '\t', '        '])
            lines = [ind + l for l in lines]
        elif not leader: ind = ''
        elif self.layout == 0: ind = ' ' * indent
        else: ind = lg.choice(['', ' ' * indent, '  ', '\t', '\t ', '      ', '        ' + ' ' * indent])
        pre = self.sep_cmd(0, first=first)
        # the indentation is part of `ind`, so the separator must leave us at the start of a line
        if pre and pre[-1][0] in ('s', 't'): pre = pre[:-1]
        if not first and not (pre and pre[-1][0] in ('n', 'rn', 'lc')): pre = pre + [self.nl()]
        if first and pre and pre[-1][0] not in ('n', 'rn', 'lc'): pre = pre + [self.nl()]
        d = dict(pre=pre, ind=ind, open=open_suffix, lines=lines, leader=leader, crlf=self.crlf)
        if bare_indented: d['bare_indented'] = True
        return d

    # ---- items ------------------------------------------------------------------------------------------
    def ident(self): return self.g.choice(self.idents) + str(self.g.randint(0, 99))

    def pick_kind(self, depth, in_class, in_test):
        g = self.g
        kinds = ['func', 'macro', 'set', 'option', 'add_test', 'cttest', 'generic', 'blk', 'cpa', 'dangling', 'class']
        if in_class: kinds += ['attr', 'member', 'ctor', 'attr', 'member']
        if in_test: kinds += ['section', 'section']
        w = [self.weights.get(k, 1.0) for k in kinds]
        k = g.choices(kinds, weights=w)[0]
        if depth >= self.max_depth and k in ('func', 'macro', 'class', 'cttest', 'blk', 'member', 'ctor', 'section'):
            k = g.choice(['generic', 'set', 'cpa', 'option'])
        return k

    def items(self, depth=0, in_class=False, in_test=False, first=True):
        g = self.g; out = []
        n = g.randint(0, self.max_items if depth == 0 else max(1, self.max_items // 2))
        for j in range(n):
            it = self.item(self.pick_kind(depth, in_class, in_test), depth, in_class, in_test, first and j == 0)
            if isinstance(it, dict) and it['k'] == 'cmd' and cname(it['call']) == 'set' and g.random() < 0.12:
                # a look-alike: the same characters once the blanks are removed, but a different split into arguments
                toks = [a[1] for a in it['call']['args'] if a[1][0] == 'b']
                if len(toks) == len(it['call']['args']) and len(toks) >= 3:
                    merged = toks[:-2] + [['b', toks[-2][1] + toks[-1][1]]]
                    out.append(it)
                    out.append(dict(k='cmd', doc=self.doc(4 * depth, force=True), call=self.call('set', merged, 4 * depth, after_doc=True)))
                    continue
            if isinstance(it, dict) and it['k'] == 'decl' and self.p_stale and g.random() < self.p_stale:
                # a declaration that is never implemented (a pure virtual member, a test whose function lives in another file):
                # outside the structural theorems (known finding K8: the next definition anywhere later is taken for its
                # implementation); correspondence, and for C01 the containment oracle
                out.append(dict(k='cmd', doc=it['doc'], call=it['decl']))
                if g.random() < 0.5:
                    nm = singles(it['decl'])
                    out.append(dict(k='cmd', doc=None, call=self.call('cpp_virtual_member', [self.tok(nm[0] if nm else 'x')], 4 * depth)))
            elif isinstance(it, dict) and it['k'] == 'decl' and g.random() < self.p_gap:
                out += self.split_decl(it, depth, in_class)
            elif isinstance(it, dict) and it['k'] == 'decl' and ((self.malformed and g.random() < self.malformed) or (self.p_docimpl and g.random() < self.p_docimpl)):
                # outside the properties' quantifier (malformed stream, correspondence only): the implementing definition
                # carries a doccomment of its own
                out += [dict(k='cmd', doc=it['doc'], call=it['decl']),
                        dict(k='block', doc=self.doc(4 * depth, force=True), open=it['impl'], body=it['body'], close=it['close'])]
                self._after_doc(out[-1])
            else:
                out.append(it)
        if self.p_dup and len(out) >= 2 and g.random() < self.p_dup:
            # the same element written twice (same name, arguments and doccomment), e.g. one definition per branch of an if()/else():
            # every occurrence is a command of its own
            import copy
            cands = [i for i in range(1, len(out)) if out[i]['k'] != 'dangling']
            if cands:
                i = g.choice(cands); dup = copy.deepcopy(out[i])
                if dup['k'] == 'block' and cname(dup['open']) in ('function', 'macro') and g.random() < 0.6:
                    # the two variants agree in name, parameters and doccomment and differ in their bodies: only one parses keyword arguments
                    which = dup if g.random() < 0.7 else out[i]
                    which['body'] = [self.item('cpa', depth + 1, False, False, False)] + which['body']
                out.insert(g.randint(i + 1, len(out)), dup)
        # a dangling doccomment must be followed by another doccomment or the end of the enclosing list's text:
        # keep it well-formed by giving the next item a doccomment, or by moving it to the very end of the module
        fixed = []
        for it in reversed(out):
            if it['k'] == 'dangling':
                nxt = fixed[0] if fixed else None
                if nxt is None:
                    if depth > 0: continue     # would be followed by the closing command
                elif nxt['k'] != 'dangling' and nxt.get('doc') is None:
                    nxt['doc'] = self.doc(4 * depth, force=True)
                    self._after_doc(nxt)
            fixed.insert(0, it)
        return fixed

    def split_decl(self, it, depth, in_class):
        """a member/test declaration whose implementing definition does not follow immediately: other (non-definition,
        non-declaration) commands sit in between.  Expressed with the existing item kinds: cmd(decl), cmd…, block(impl)."""
        g = self.g
        gap = []
        for _ in range(g.randint(1, 2)):
            k = g.choice(['set', 'option', 'generic', 'add_test', 'cpa'] + (['attr', 'attr'] if in_class else []))
            gap.append(self.item(k, depth, in_class, False, False))
        return [dict(k='cmd', doc=it['doc'], call=it['decl'])] + gap + [dict(k='block', doc=None, open=it['impl'], body=it['body'], close=it['close'])]

    def _after_doc(self, it):
        c = it.get('call') or it.get('open') or it.get('decl')
        if c is not None and not any(a[0] in ('n', 'rn', 'lc') for a in c['pre']):
            c['pre'] = [self.nl()] + c['pre']

    def item(self, k, depth, in_class, in_test, first):
        g = self.g; ind = 4 * depth; self.n_items += 1
        mal = g.random() < self.malformed
        if k == 'dangling':
            return dict(k='dangling', doc=self.doc(ind, first=first, force=True))
        d = self.doc(ind, first=first) if k not in ('blk', 'cpa') else None
        cfirst = first and d is None
        if k in ('func', 'macro'):
            kw = 'function' if k == 'func' else 'macro'
            toks = [self.tok(self.ident())] + [self.tok(forms='bqk') for _ in range(g.randint(0, 3))]
            if g.random() < 0.06: toks = toks[:1] + [self.tok(p) for p in g.sample(LONG_PARAMS, g.randint(4, 7))]
            if mal and g.random() < 0.3: toks = []
            opener = self.call(kw, toks, ind, cfirst, after_doc=d is not None)
            self.fn_names.append(toks[0] if toks else None)      # a test declared inside may name its implementing function like this one
            try: body = self.items(depth + 1, False, False, False)
            finally: self.fn_names.pop()
            it = dict(k='block', doc=d, open=opener, body=body, close=self.call('end' + kw, [], ind))
            if g.random() < 0.15: it['close'] = self.call(g.choice(['endfunction', 'endmacro']), [self.tok(forms='b')], ind)
            return it
        if k == 'set':
            toks = [self.tok(self.ident())] + [self.tok() for _ in range(g.choice([0, 1, 1, 1, 2, 3, 5]))]
            if g.random() < 0.12:       # values longer than any line a renderer might want to fill
                for j in range(1, len(toks)):
                    if g.random() < 0.6: toks[j] = ['b', g.choice(LONG_BARE)] if g.random() < 0.5 else ['q', g.choice(LONG_QUOTED)]
                if len(toks) == 1 or g.random() < 0.3: toks += [['b', g.choice(LONG_BARE)] for _ in range(g.randint(1, 12))]
            if len(toks) == 2 and g.random() < self.p_bracketish: toks[1] = ['b', g.choice(['[0-9]', '[abc]', '[x]', '[a-z]+', '[', ']', '[]', '[=', 'x[1]'])]     # unquoted arguments that only look like bracket arguments
            if len(toks) == 2 and g.random() < 0.04: toks[1] = ['q', g.choice(['first\\nsecond', 'tab\\there', 'cr\\rlf\\n'])]      # escape sequences stay as written (two characters each)
            if len(toks) == 2 and g.random() < self.p_cont: toks[1] = ['q', g.choice(['Hello, \\\nworld', 'a\\\n   b\\\nc', '\\\n', 'x \\\n'])]     # quoted line continuations
            if len(toks) == 2 and g.random() < 0.04: toks[1] = g.choice([['b', '--------'], ['q', '===='], ['b', '....'], ['q', '~~~~~']])   # a value that is reST markup (K10)
            if len(toks) >= 2 and g.random() < 0.1:      # the cache form of set(): to CMinx the keywords are values like any other
                toks += [self.tok('CACHE'), self.tok(g.choice(['STRING', 'BOOL', 'PATH', 'INTERNAL'])), ['q', g.choice(['where it lives', '', 'help: text'])]] + ([self.tok('FORCE')] if g.random() < 0.5 else [])
            elif len(toks) >= 2 and g.random() < 0.05: toks.append(self.tok(g.choice(['PARENT_SCOPE', 'FORCE', 'CACHE'])))
            if mal and g.random() < 0.3: toks = []
            return dict(k='cmd', doc=d, call=self.call('set', toks, ind, cfirst, after_doc=d is not None))
        if k == 'option':
            dflt = g.choice([['b', 'ON'], ['b', 'OFF'], ['b', '${dflt}'], ['q', 'ON'], ['q', 'TRUE'], ['q', 'off'], ['b', 'Maybe'], ['b', '5'],
                             ['k', 0, 'ON'], ['q', ''], ['q', '${dflt}'], ['b', 'x-NOTFOUND'], ['q', g.choice(LONG_QUOTED)]])
            help_ = self.tok(forms='q') if g.random() < 0.9 else ['q', g.choice(LONG_QUOTED)]
            toks = [self.tok(self.ident()), help_] + ([dflt] if g.random() < 0.5 else [])
            if mal: toks = toks[:g.choice([0, 1])] if g.random() < 0.5 else toks + [self.tok(), self.tok()]
            return dict(k='cmd', doc=d, call=self.call('option', toks, ind, cfirst, after_doc=d is not None))
        if k == 'add_test':
            nm = self.ident(); rest = [self.tok() for _ in range(g.randint(1, 3))]
            if g.random() < 0.25:       # a parenthesised argument among the command's arguments (CMake hands "(", "a", "b", ")" to the command)
                inner = [self.tok() for _ in range(g.randint(0, 3))]
                if g.random() < 0.3: inner.insert(g.randint(0, len(inner)), ['G', [self.tok() for _ in range(g.randint(0, 2))]])
                rest.insert(g.randint(0, len(rest)), ['G', inner])
            if g.random() < 0.3: rest.append(self.tok(nm))
            if g.random() < 0.2: rest.append(self.tok(g.choice(['name', 'Name', 'NAMES', 'xNAME'])))
            pos = g.randint(0, len(rest)); toks = rest[:pos] + [self.tok('NAME'), self.tok(nm)] + rest[pos:]
            if g.random() < 0.12: toks = [self.tok(nm)] + [t for t in rest if t != ['b', 'NAME']]      # CMake's positional signature add_test(<name> <cmd> [<arg>...])
            if mal:
                m = g.random()
                if m < 0.3: toks = toks[:1]
                elif m < 0.6: toks = rest + [self.tok('NAME')]
                else: toks = rest + [self.tok('x')]          # no NAME at all
            return dict(k='cmd', doc=d, call=self.call('add_test', toks, ind, cfirst, after_doc=d is not None))
        if k in ('cttest', 'section'):
            cmd = 'ct_add_test' if k == 'cttest' else 'ct_add_section'
            nm = g.choice([['b', self.ident()], ['q', 'quoted name'], ['b', '${n}']]); ef = g.random() < 0.4
            extra = [self.tok(g.choice(['expectfail', 'xEXPECTFAIL', 'EXPECTFAILS', 'name', 'PRINT_LENGTH', '5']))] if g.random() < 0.3 else []
            toks = [self.tok('NAME'), nm] + ([self.tok('EXPECTFAIL')] if ef else []) + extra
            if g.random() < 0.5: toks = toks[2:] + toks[:2]
            if mal:
                m = g.random()
                if m < 0.4: toks = toks[:1]
                elif m < 0.7: toks = [t for t in toks if t != ['b', 'NAME']] + [self.tok('NAME')]
            impl = g.choice(['function', 'macro'])
            itoks = [['q', '${' + (nm[1] if nm[0] == 'b' else 'x') + '}']] + [self.tok(forms='b') for _ in range(g.choice([0, 0, 1, 3]))]
            if self.fn_names and self.fn_names[-1] is not None and g.random() < 0.2:
                itoks[0] = list(self.fn_names[-1])      # CMakeTest files reuse one variable: function(${_name}) ... ct_add_section(NAME _name) function(${_name})
            return dict(k='decl', doc=d, decl=self.call(cmd, toks, ind, cfirst, after_doc=d is not None),
                        impl=self.call(impl, itoks, ind), body=self.items(depth + 1, False, True, False),
                        close=self.call('end' + impl, [], ind))
        if k == 'generic':
            toks = [self.tok() for _ in range(g.randint(0, 4))]
            name = g.choice(GENERIC_NAMES)
            if mal and g.random() < 0.2: name = g.choice(['cpp_end_class', 'endfunction', 'endmacro', 'cpp_member', 'cpp_attr', 'generic_command'])
            return dict(k='cmd', doc=d, call=self.call(name, toks, ind, cfirst, groups=True, after_doc=d is not None))
        if k == 'blk':
            o = g.choice(['if', 'foreach', 'while'])
            return dict(k='block', doc=None, open=self.call(o, [self.tok() for _ in range(g.randint(1, 3))], ind, cfirst, groups=True),
                        body=self.items(depth + 1, in_class, in_test, False), close=self.call('end' + o, [], ind))
        if k == 'cpa':
            toks = [self.tok('_p'), ['q', ''], ['q', ''], ['q', 'A;B'], self.tok('${ARGN}')]
            return dict(k='cmd', doc=None, call=self.call('cmake_parse_arguments', toks, ind, cfirst))
        if k == 'class':
            cname_ = self.ident()
            toks = [self.tok(cname_)] + [self.tok(self.ident()) for _ in range(g.randint(0, 2))]
            if mal and g.random() < 0.3: toks = []
            self.class_names.append(cname_); self.member_names.append([])
            try: body = self.items(depth + 1, True, False, False)
            finally: self.class_names.pop(); self.member_names.pop()
            return dict(k='block', doc=d, open=self.call('cpp_class', toks, ind, cfirst, after_doc=d is not None),
                        body=body, close=self.call('cpp_end_class', [], ind))
        if k == 'attr':
            toks = [self.tok(self.class_ref()), self.tok(self.ident())] + ([self.tok()] if g.random() < 0.6 else [])
            if mal: toks = toks[:1]
            return dict(k='cmd', doc=d, call=self.call('cpp_attr', toks, ind, cfirst, after_doc=d is not None))
        if k in ('member', 'ctor'):
            cmd = 'cpp_member' if k == 'member' else 'cpp_constructor'
            # overloads: CMakePP members are told apart by their types, so one class may declare a name several times (every
            # constructor is conventionally called CTOR), adjacent or with other members in between, documented or not
            seen = self.member_names[-1] if self.member_names else None
            r = g.random()
            if k == 'ctor' and r < 0.45: nm = 'CTOR'
            elif seen and r < 0.75: nm = g.choice(seen)
            else: nm = self.ident()
            if seen is not None: seen.append(nm)
            types = [self.tok(g.choice(['int', 'str', 'desc', 'args', 'bool', 'T*'])) for _ in range(g.randint(0, 3))]
            toks = [self.tok(nm), self.tok(self.class_ref())] + types
            if mal and g.random() < 0.5: toks = toks[:1]
            impl = g.choice(['function', 'macro'])
            itoks = [['q', '${' + nm + '}'], self.tok('self')] + [self.tok(g.choice(['x1', '_m_a', 'b', 'args', '"q"', 'a;b'])) for _ in range(g.randint(0, 4))]
            if g.random() < 0.12:       # a signature longer than any line a renderer might want to fill
                itoks = itoks[:2] + [self.tok(p) for p in g.sample(LONG_PARAMS, g.randint(4, 7))]
            if g.random() < 0.1: itoks = itoks[:g.randint(0, 2)]
            return dict(k='decl', doc=d, decl=self.call(cmd, toks, ind, cfirst, after_doc=d is not None),
                        impl=self.call(impl, itoks, ind), body=self.items(depth + 1, False, False, False),
                        close=self.call('end' + impl, [], ind))
        raise ValueError(k)

    def module(self, moddoc=None):
        g = self.g; lg = self.lg
        md = None
        if moddoc is None: moddoc = g.random() < 0.15
        if moddoc:
            name = g.choice(['', ' the.name', ' N', '  spaced  ', ' é'])
            md = self.doc(0, first=True, force=True, open_suffix=(lg.choice([' ', '', '\t']) if self.layout else ' ') + '@module' + name)
        items = self.items(0, first=md is None)
        tail = [self.nl()] if self.layout < 2 else self.filler() + [self.nl()]
        if self.layout == 2 and lg.random() < 0.15: tail = tail + [['lc', lg.choice([' eof', ']]', '']), '']]
        if self.layout == 2 and lg.random() < 0.1: tail = []
        return dict(bom=(self.layout == 2 and lg.random() < 0.1), moddoc=md, items=items, tail=tail)


# ---- views of a tree -------------------------------------------------------------------------------------
def tok_text(t):
    if t[0] == 'b': return t[1]
    if t[0] == 'q': return '"' + t[1] + '"'
    if t[0] == 'k': return '[' + '=' * t[1] + '[' + t[2] + ']' + '=' * t[1] + ']'
    raise ValueError(t)


def arg_text(a):
    """argument_text of the repaired generic-command processor"""
    t = a[1]
    if t[0] == 'g': return '(' + ' '.join(arg_text(x) for x in t[1]) + ')'
    return tok_text(t)


def singles(call): return [tok_text(a[1]) for a in call['args'] if a[1][0] != 'g']
def all_args(call): return [arg_text(a) for a in call['args']]
def cname(call): return call['name'].lower()


def doc_text(d):
    """the text the doccomment must contribute: body lines, then the empty line the closing delimiter leaves"""
    if d is None: return ''
    if d.get('bare_indented'):
        out = []
        for l in d['lines']:
            t = l[len(d['ind']):]
            out.append(t[1:] if t[:1] == ' ' else t)
        return '\n'.join(out + [''])
    return '\n'.join(d['lines'] + [''])


def walk_items(items):
    for it in items:
        yield it
        if 'body' in it:
            yield from walk_items(it['body'])


def all_arg_texts(m):
    out = set()
    def rec_args(args):
        for a in args:
            if a[1][0] == 'g': rec_args(a[1][1])
            else: out.add(tok_text(a[1]))
    for it in walk_items(m['items']):
        for key in ('call', 'open', 'close', 'decl', 'impl'):
            if key in it: rec_args(it[key]['args'])
    return out


def well_formed(m, documented_impl=False, positional=False):
    """the hypotheses of the structural theorems: balanced blocks by construction, valid arities, declarations inside
    the right context, no K2 name; returns (ok, reason).  documented_impl=True also admits an implementing definition that
    carries a doccomment of its own (the property text can be read either way about that definition's own entry, see
    spec_entries(reading=...))"""
    def rec(items, in_class):
        pending = None       # a declaration written as a plain command, waiting for its definition
        for it in items:
            k = it['k']
            if pending is not None:
                if k == 'block' and cname(it['open']) in ('function', 'macro') and (documented_impl or it.get('doc') is None):
                    if len(singles(it['open'])) < 1: return 'impl arity'
                    if cname(it['close']) not in ('endfunction', 'endmacro'): return 'closer'
                    r = rec(it['body'], False)
                    if r: return r
                    pending = None; continue
                if k != 'cmd' or cname(it['call']) in DECLS: return 'declaration not followed by its definition'
            if k == 'cmd' and cname(it['call']) in DECLS:
                n = cname(it['call']); s = singles(it['call'])
                if n in ('cpp_member', 'cpp_constructor') and (len(s) < 2 or not in_class): return 'member'
                if n in ('ct_add_test', 'ct_add_section') and (len(s) < 2 or s[-1] == 'NAME' or s.count('NAME') != 1): return 'test arity'
                pending = it; continue
            if k == 'cmd':
                n = cname(it['call']); s = singles(it['call'])
                if n in STRUCT_OPEN or n in STRUCT_OPEN.values() or n in DECLS: return 'structural name as single command: ' + n
                if n == 'generic_command': return 'K2'
                if n == 'set' and len(s) < 1: return 'set arity'
                if n == 'option' and not 2 <= len(s) <= 3: return 'option arity'
                if n == 'cpp_attr' and (len(s) < 2 or not in_class): return 'attr'
                if n == 'add_test':
                    s = all_args(it['call'])        # every argument counts, parenthesised ones included (D19)
                    # positional=True also admits CMake's positional signature add_test(<name> <cmd> ...): an entry is due (C02), how it
                    # is headed is not prescribed (C11 speaks of "the argument following NAME")
                    if positional and len(s) >= 2 and s.count('NAME') == 0: pass
                    elif len(s) < 2 or s[-1] == 'NAME' or s.count('NAME') != 1: return 'add_test arity'
            elif k == 'block':
                n = cname(it['open']); s = singles(it['open'])
                if STRUCT_OPEN.get(n) != cname(it['close']):
                    if not (n in ('function', 'macro') and cname(it['close']) in ('endfunction', 'endmacro')): return 'closer'
                if n in ('function', 'macro', 'cpp_class') and len(s) < 1: return n + ' arity'
                r = rec(it['body'], n == 'cpp_class' or (in_class and n in ('if', 'foreach', 'while')))
                if r: return r
            elif k == 'decl':
                n = cname(it['decl']); s = singles(it['decl'])
                if n in ('cpp_member', 'cpp_constructor') and (len(s) < 2 or not in_class): return 'member'
                if n in ('ct_add_test', 'ct_add_section') and (len(s) < 2 or s[-1] == 'NAME' or s.count('NAME') != 1): return 'test arity'
                if len(singles(it['impl'])) < 1: return 'impl arity'
                r = rec(it['body'], False)
                if r: return r
        if pending is not None: return 'declaration not followed by its definition'
        return None
    r = rec(m['items'], False)
    return (r is None, r)


# ---- structural specification of `documented` (independent ground truth) ------------------------------------
def unq(v): return v[1:-1] if len(v) >= 2 and v[0] == '"' and v[-1] == '"' else v


def cpa_direct(body):
    for it in body:
        if it['k'] == 'cmd' and cname(it['call']) == 'cmake_parse_arguments': return True
        if it['k'] == 'block' and cname(it['open']) in ('if', 'foreach', 'while', 'cpp_class') and cpa_direct(it['body']): return True
    return False


def spec_entries(m, cfg, reading='B'):
    """expected `documented` for a well-formed module under cfg = {'incl','trigger','regex'}.
    Returns None when the module is in the K1 region (documented class with include_undocumented_cpp_class off).
    reading: what an implementing definition with a doccomment of its own contributes -- 'A': its own documented entry ("every
    other command that carries a doccomment"), 'B': nothing of its own ("the definition that implements the preceding declaration
    produces no entry"); it implements the declaration under both."""
    incl = {f: cfg.get('incl', {}).get(f, True) for f in FLAGS}
    trigger = cfg.get('trigger', ':param **kwargs:')
    rx = cfg.get('regex', {})
    strip = lambda kind, p: re.sub(rx.get(kind, ''), '', p)
    out = []
    k1 = [False]

    def fn_entry(kind, call, d, body, documented):
        s = singles(call)
        return dict(t='func' if kind == 'function' else 'macro', name=s[0],
                    params=[strip('fn' if kind == 'function' else 'macro', p) for p in s[1:]],
                    kw=(trigger in doc_text(d) if documented else trigger in '') or cpa_direct(body), doc=doc_text(d) if documented else '')

    def decl_entry(dc, d, im, cls):
        """the declaration's own contribution; returns True if it claims the implementing definition"""
        n = cname(dc); s = singles(dc); ik = cname(im); isg = singles(im); documented = d is not None
        if n in ('ct_add_test', 'ct_add_section'):
            if documented or incl[n]:
                i = s.index('NAME')
                out.append(dict(t='cttest' if n == 'ct_add_test' else 'section', name=s[i + 1], doc=doc_text(d),
                                ef='EXPECTFAIL' in s, params=isg[2:], macro=ik == 'macro'))
                return True
            return False
        if isinstance(cls, dict) and (documented or incl[n]):
            (cls['members'] if n == 'cpp_member' else cls['ctors']).append(
                dict(name=s[0], doc=doc_text(d), pc=s[1], types=s[2:], params=[strip('member', p) for p in isg][2:],
                     macro=ik == 'macro', ctor=n == 'cpp_constructor'))
            return True
        return False

    def rec(items, cls):
        pending = None       # None: nothing pending; 'claimed' / 'hidden': a declaration written as a plain command came before
        for idx, it in enumerate(items):
            k = it['k']; d = it.get('doc'); documented = d is not None
            if k == 'dangling': continue
            if pending is not None and k == 'block' and cname(it['open']) in ('function', 'macro'):
                was = pending; pending = None
                if documented and reading in ('A', 'A2'):
                    e = fn_entry(cname(it['open']), it['open'], d, it['body'], True)
                    if reading == 'A2': e['kw'] = trigger in doc_text(d)       # cmake_parse_arguments in its body credited to the declaration instead
                    out.append(e)
                elif was == 'hidden' and incl[cname(it['open'])]: out.append(fn_entry(cname(it['open']), it['open'], None, it['body'], False))
                rec(it['body'], cls); continue
            if k == 'cmd' and cname(it['call']) in DECLS:
                j = idx + 1      # the implementing definition further down this list
                while j < len(items) and not (items[j]['k'] == 'block' and cname(items[j]['open']) in ('function', 'macro')): j += 1
                pending = 'claimed' if decl_entry(it['call'], d, items[j]['open'], cls) else 'hidden'
                continue
            if k == 'cmd':
                c = it['call']; n = cname(c); s = singles(c)
                if n == 'set':
                    if documented:
                        v = s[1:]
                        out.append(dict(t='var', name=s[0], doc=doc_text(d), vt='STRING' if len(v) == 1 else ('LIST' if len(v) > 1 else 'UNSET'),
                                        val=(unq(v[0]) if len(v) == 1 else (' '.join(v) if v else None))))
                elif n == 'option':
                    if documented or incl['option']:
                        out.append(dict(t='opt', name=s[0], doc=doc_text(d), help=s[1], val=s[2] if len(s) == 3 else None))
                elif n == 'add_test':
                    s = all_args(c)
                    if documented or incl['add_test']:
                        if 'NAME' in s: i = s.index('NAME'); out.append(dict(t='ctest', name=s[i + 1], doc=doc_text(d), params=s[:i] + s[i + 2:]))
                        else: out.append(dict(t='ctest', name='', doc=doc_text(d), params=list(s), loose=True))      # heading not prescribed
                elif n == 'cpp_attr':
                    if isinstance(cls, dict) and (documented or incl['cpp_attr']):
                        cls['attrs'].append(dict(name=s[1], doc=doc_text(d), pc=s[0], dv=s[2] if len(s) > 2 else None))
                elif n == 'cmake_parse_arguments':
                    pass
                elif documented:
                    out.append(dict(t='gen', name=n, doc=doc_text(d), params=all_args(c)))
            elif k == 'block':
                o = it['open']; n = cname(o); s = singles(o)
                if n in ('function', 'macro'):
                    if documented or incl[n]: out.append(fn_entry(n, o, d, it['body'], documented))
                    rec(it['body'], cls)
                elif n == 'cpp_class':
                    if documented or incl['cpp_class']:
                        if documented and not incl['cpp_class']: k1[0] = True
                        c = dict(t='class', name=s[0], doc=doc_text(d), supers=s[1:], inner=[], ctors=[], members=[], attrs=[])
                        out.append(c)
                        if isinstance(cls, dict): cls['inner'].append(s[0])
                        rec(it['body'], c)
                    else:
                        rec(it['body'], 'HIDDEN')
                else:
                    if documented: out.append(dict(t='gen', name=n, doc=doc_text(d), params=all_args(o)))
                    rec(it['body'], cls)
            elif k == 'decl':
                im = it['impl']
                if not decl_entry(it['decl'], d, im, cls) and incl[cname(im)]:
                    out.append(fn_entry(cname(im), im, None, it['body'], False))
                rec(it['body'], cls)

    rec(m['items'], None)
    head = []
    if m['moddoc'] is not None:
        md = m['moddoc']
        name = md['open'].replace('@module', '').strip()
        head = [dict(t='module', name=name, doc=doc_text(md))]
    return None if k1[0] else head + out
