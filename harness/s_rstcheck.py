"""C07: the real pipeline's output parsed by docutils (stub directives for the Sphinx ones): no error-level message, and
the doctree has the predicted shape (title, module directive, entries as top-level siblings, everything else nested)."""
import random, re, time
import docutils.frontend, docutils.nodes, docutils.parsers.rst, docutils.utils
from docutils.parsers.rst import Directive, directives, roles

import impl, gen_modules as GM, suites, oracle


class Stub(Directive):
    has_content = True; optional_arguments = 1; final_argument_whitespace = True
    option_spec = {'value': directives.unchanged, 'maxdepth': directives.unchanged}
    def run(self):
        n = docutils.nodes.container(); n['dname'] = self.name
        n['darg'] = self.arguments[0] if self.arguments else ''
        self.state.nested_parse(self.content, self.content_offset, n)
        return [n]


for d in ['module', 'function', 'data', 'py:class', 'py:method', 'py:attribute', 'toctree']:
    directives.register_directive(d, Stub)


def _role(name, rawtext, text, lineno, inliner, options={}, content=[]):
    return [docutils.nodes.literal(rawtext, text)], []


for r in ['class', 'code']:
    roles.register_local_role(r, _role)

BLOCKS = [['Some paragraph text.', 'It continues here.'], ['One line.'], [':param a: first', ':param b: second'], [':keyword k: v'],
          ['* item one', '* item two'], ['Example::', '', '   set(x y)', '     deeper line'], ['.. note::', '', '   A nested note', '   with two lines.'],
          ['.. warning:: inline warning text'], ['Héllo ✓ wörld.'], ['1. first', '2. second'], ['Term', '   definition body'],
          ['.. code::', '', '   function(f)', '   endfunction()'], [':param x1: has name like a parameter']]


PROBES = ['Some paragraph text.', 'One line.', 'Héllo ✓ wörld.', 'A nested note', 'item one', 'definition body']


def parse(text):
    st = docutils.frontend.get_default_settings(docutils.parsers.rst.Parser); st.report_level = 5; st.halt_level = 5
    doc = docutils.utils.new_document('<page>', settings=st)
    docutils.parsers.rst.Parser().parse(text, doc)
    return doc


def shape(node):
    """nesting of directives below a node: [(name, arg, [children...])]"""
    out = []
    for c in node.children:
        if isinstance(c, docutils.nodes.container) and c.get('dname'):
            out.append((c['dname'], c['darg'], shape(c)))
        elif isinstance(c, (docutils.nodes.note, docutils.nodes.warning)):
            out.append((c.tagname, '', shape(c)))
        elif isinstance(c, docutils.nodes.Element) and not isinstance(c, (docutils.nodes.section,)):
            out += [x for x in shape(c) if x[0] in ('note', 'warning') and False]
    return out


def dirs_only(sh):
    """keep only the directives CMinx itself emits (notes/warnings written by the user inside doc text are content)"""
    return [(n, a, dirs_only(ch)) for n, a, ch in sh]


def predicted(entries, mod):
    ents = list(entries)
    if not any(e['t'] == 'module' for e in ents): ents.insert(0, dict(t='module', name=mod, doc=''))
    out = []
    def meth(m):
        pretty = ', '.join(m['params']) + ("[, ...]" if "args" in m['types'] else "")
        return ('py:method', f"{m['name']}({pretty})", [('note', '', [])] if m['macro'] else [])
    for e in ents:
        t = e['t']
        if t == 'module': out.append(('module', e['name'] or mod, []))
        elif t in ('func', 'macro'):
            ps = list(e['params']) + (['**kwargs'] if e['kw'] else [])
            out.append(('function', f"{e['name']}({' '.join(ps)})", [('note', '', [])] if t == 'macro' else []))
        elif t == 'var': out.append(('data', e['name'], []))
        elif t == 'opt': out.append(('data', e['name'], [('note', '', [])]))
        elif t in ('gen', 'ctest'): out.append(('function', f"{e['name']}({' '.join(e['params'])})", [('warning', '', [])]))
        elif t in ('cttest', 'section'): out.append(('function', f"{e['name']}({'EXPECTFAIL' if e['ef'] else ''})", [('warning', '', [])]))
        elif t == 'class':
            ch = [meth(m) for m in e['ctors']] + [meth(m) for m in e['members']] + [('py:attribute', a['name'], []) for a in e['attrs']]
            out.append(('py:class', e['name'], ch))
    return out


def user_directives(doc_lines):
    """notes/warnings the user's own doc text contains (they nest inside the entry, after CMinx's own)"""
    out = []
    for l in doc_lines:
        s = l.strip()
        if s.startswith('.. note::'): out.append(('note', '', []))
        elif s.startswith('.. warning::'): out.append(('warning', '', []))
    return out


def norm_arg(s): return ' '.join(s.split())


PUNCT_RUN = re.compile(r'^([!-/:-@\[-`{-~])\1{3,}$')


def transition_values(spec):
    """known finding K10: a default value that is a run of four or more equal punctuation characters is written as it stands into
    a field body, where reST reads it as a transition (ERROR/3 "Unexpected section title or transition")"""
    vals = set()
    def rec(es):
        for e in es:
            if e.get('t') in ('var', 'opt') and isinstance(e.get('val'), str) and PUNCT_RUN.match(e['val'].strip()): vals.add(e['val'].strip())
            for k in ('members', 'ctors', 'inner', 'body', 'sections'):
                if isinstance(e.get(k), list) and e[k] and isinstance(e[k][0], dict): rec(e[k])
    rec(spec)
    return vals


def check_page(rst, spec, mod='M', k10=None):
    """returns None or a violation detail; error messages that are exactly known finding K10 are collected in `k10` and otherwise
    ignored, so that everything else on such a page is still judged"""
    doc = parse(rst)
    msgs = [m for m in doc.findall(docutils.nodes.system_message) if m['level'] >= 3]
    runs = transition_values(spec)
    def is_k10(m):
        ls = m.astext().split('\n')
        return 'Unexpected section title or transition' in ls[0] and ls[-1].strip() in runs
    if k10 is not None:
        k10 += [m.astext()[:200] for m in msgs if is_k10(m)]
        msgs = [m for m in msgs if not is_k10(m)]
    if msgs:
        return dict(kind='docutils reports an error-level message', message=msgs[0].astext()[:400])
    secs = [c for c in doc.children if isinstance(c, docutils.nodes.section)]
    if len(secs) != 1 or any(not isinstance(c, (docutils.nodes.section, docutils.nodes.comment, docutils.nodes.system_message)) for c in doc.children):
        return dict(kind='document is not exactly one titled section', top=[c.tagname for c in doc.children][:8])
    got = shape(secs[0])
    want = predicted(spec, mod)
    # compare CMinx's own directives: same top-level sequence; inside each entry the predicted nested ones come first
    if [(n, norm_arg(a)) for n, a, _ in got] != [(n, norm_arg(a)) for n, a, _ in want]:
        return dict(kind='top-level directive sequence', expected=[(n, a) for n, a, _ in want], real=[(n, a) for n, a, _ in got])
    def nested_ok(g, w):
        gi = 0
        for n, a, ch in w:
            while gi < len(g) and (g[gi][0], norm_arg(g[gi][1])) != (n, norm_arg(a)): gi += 1   # user-written notes may sit in between
            if gi == len(g): return False
            if not nested_ok(g[gi][2], ch): return False
            gi += 1
        return True
    for (n, a, gch), (_, _, wch) in zip(got, want):
        if not nested_ok(gch, wch):
            return dict(kind='entry content not nested as predicted', entry=(n, a), expected=wch, real=gch)
    # nothing but the entries' directives at the top level: text, fields or lists there would be content outside any entry
    stray = [c.tagname for c in secs[0].children
             if not isinstance(c, (docutils.nodes.title, docutils.nodes.container, docutils.nodes.comment, docutils.nodes.system_message))]
    if stray:
        return dict(kind='content outside every entry directive', nodes=stray[:6])
    # every entry's documentation text sits inside its own directive
    tops = [c for c in secs[0].children if isinstance(c, docutils.nodes.container) and c.get('dname')]
    ents = list(spec)
    if not any(e['t'] == 'module' for e in ents): ents.insert(0, dict(t='module', name=mod, doc=''))
    for node, e in zip(tops, ents):
        text = node.astext()
        for probe in PROBES:
            if probe in (e.get('doc') or '') and probe not in text:
                return dict(kind="an entry's documentation text is not inside its directive", entry=e.get('name'), missing=probe)
            subs = [m for k in ('ctors', 'members') for m in e.get(k, [])] + list(e.get('attrs', []))
            for m in subs:
                if probe in (m.get('doc') or '') and probe not in text:
                    return dict(kind="a member's documentation text is not inside its class directive", entry=e.get('name'), member=m.get('name'), missing=probe)
    return None


def gen_case(seed, n):
    g = random.Random(f"C07/{seed}/{n}")
    if n % 3 == 2:      # class-heavy: classes with several inner classes / members / attributes, i.e. lists of >= 2 items under a directive
        gen = GM.Gen(g, lg=random.Random(f"C07/{seed}/{n}/l"), layout=g.choice([0, 1]), p_doc=0.9, max_depth=3, max_items=g.choice([8, 12]),
                     weights={'class': 9, 'member': 2, 'attr': 2, 'ctor': 2, 'dangling': 0.2, 'func': 0.5, 'macro': 0.5, 'blk': 0.3, 'cpa': 0.3,
                              'generic': 0.5, 'set': 0.5, 'option': 0.3, 'add_test': 0.3, 'cttest': 0.5}, doc_blocks=BLOCKS)
    else:
        gen = GM.Gen(g, lg=random.Random(f"C07/{seed}/{n}/l"), layout=g.choice([0, 1]), p_doc=0.8, max_depth=3, max_items=5,
                     weights={'class': 2.5, 'member': 2, 'attr': 1.5, 'ctor': 1.5, 'dangling': 0.3}, doc_blocks=BLOCKS)
    return gen.module(moddoc=g.random() < 0.2), {}


def c07_suite(seed, count, out, drv, budget_s=None):
    t0 = time.time(); done = 0
    with impl.Sandbox() as sb:
        for n in range(count):
            if budget_s and time.time() - t0 > budget_s:
                out.notes.append(f"C07 suite stopped at {done}/{count} (time budget)"); break
            m, cfg = gen_case(seed, n)
            wf, _ = GM.well_formed(m)
            if not wf: continue
            spec = GM.spec_entries(m, cfg)
            if spec is None or oracle.has_multiline_args(spec): out.dist['skipped:multiline-arg'] += 1; continue
            src = drv.run([dict(op='render', module=m)])[0]['src']
            mo = drv.run([dict(op='pipeline', cfg=suites.model_cfg(m, cfg), headers=['#'], title='Title of page', mod='M', src=src)])[0]
            real = impl.real_pipeline(sb, src, impl.make_settings(cfg, headers=['#']), 'Title of page', 'M')
            out.traces_validated += 1
            key = ('C07', seed, n)
            out.note_case(key, suites.nontrivial('C07', m, cfg))
            for e in spec: out.dist['entry:' + e['t']] += 1
            out.sample(dict(suite='docutils', key=key, source=src[:500]))
            rec = dict(suite='docutils', key=key, module=m, cfg=cfg, source=src)
            if mo.get('rst') != real.get('rst'):
                out.disagreements.append(dict(rec, detail=dict(kind='output', model=mo.get('rst', mo), real=real.get('rst', real))))
            if 'rst' not in real:
                out.violations.append(dict(rec, detail=dict(kind='well-formed module rejected', real=real), model_agrees='rst' not in mo)); continue
            k10 = []
            v = check_page(real['rst'], spec, k10=k10)
            if v: out.violations.append(dict(rec, detail=v, rst=real['rst'], model_agrees=mo.get('rst') == real['rst']))
            elif k10: out.violations.append(dict(rec, tag='K10', detail=dict(kind='docutils reports an error-level message', message=k10[0]), rst=real['rst'],
                                                 model_agrees=mo.get('rst') == real['rst']))
            done += 1
    out.suites.append(dict(name='docutils', pages=done))


def replay(v, drv):
    m = v['module']; cfg = v.get('cfg') or {}
    src = drv.run([dict(op='render', module=m)])[0]['src']
    with impl.Sandbox() as sb:
        real = impl.real_pipeline(sb, src, impl.make_settings(cfg, headers=['#']), 'Title of page', 'M')
    if 'rst' not in real: return dict(fails=True, real=real)
    d = check_page(real['rst'], GM.spec_entries(m, cfg))
    return dict(fails=d is not None, detail=d, rst=real['rst'])
