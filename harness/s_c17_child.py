"""child process for the PYTHONHASHSEED variants of C17: documents one case and prints the output tree as JSON"""
import json, os, sys
sys.path.insert(0, os.path.dirname(os.path.abspath(__file__)))
import impl, s_tree as T
case = json.load(open(sys.argv[1])); root = sys.argv[2]; os.makedirs(root, exist_ok=True)
r = T.run_real(root, case, variant='v')
print(json.dumps(r['files']))
