"""Shared plumbing: paths, the Lean build + audit, the driver client, evidence and replay files."""
import fcntl, hashlib, json, os, re, subprocess, sys, tempfile, time

VERIF = os.path.dirname(os.path.dirname(os.path.abspath(__file__)))
LEAN_DIR = os.path.join(VERIF, "lean")
DRIVER = os.path.join(LEAN_DIR, ".lake", "build", "bin", "driver")
VALIDCHECK = os.path.join(LEAN_DIR, ".lake", "build", "bin", "validcheck")
REPO = os.environ.get("CMINX_REPO", "/repo")
REPO_SRC = os.path.join(REPO, "src")
# evidence describes /repo itself: a run against another tree (CMINX_REPO=<scratch worktree with a seeded change>, tools/eval_*.py,
# tools/automutate.py) writes its evidence next to that tree instead, so that /verif/evidence only ever holds runs on /repo
EVIDENCE_DIR = os.path.join(VERIF, "evidence") if os.path.realpath(REPO) == "/repo" else os.path.join(tempfile.gettempdir(), "cmxv_evidence_" + hashlib.sha1(REPO.encode()).hexdigest()[:10])
REPLAY_DIR = os.path.join(VERIF, "replays")
KNOWN_FINDINGS = os.path.join(VERIF, "known-findings.txt")
STD_AXIOMS = {"propext", "Classical.choice", "Quot.sound"}
FORBIDDEN = re.compile(r"\bsorry\b|\badmit\b|^axiom |native_decide|bv_decide|implemented_by|\bunsafe |maxHeartbeats 0|@\[extern", re.M)


class HarnessError(Exception):
    """The machinery itself malfunctioned (exit 2, never a VIOLATION)."""


def lake_build(targets=None):
    """(flock) `lake build <targets>`; returns (ok, log). A fresh snapshot without .lake works; parallel checks do not race.
    Each check builds only the driver and its own property modules, so a broken proof file of another property cannot
    raise an alarm here."""
    os.makedirs(os.path.join(LEAN_DIR, ".lake"), exist_ok=True)
    with open(os.path.join(LEAN_DIR, ".lake", "verif.lock"), "w") as lk:
        fcntl.flock(lk, fcntl.LOCK_EX)
        p = subprocess.run(["lake", "build"] + list(targets or []), cwd=LEAN_DIR, capture_output=True, text=True)
        return p.returncode == 0, p.stdout + p.stderr


def theorem_listing(prop_id):
    """CminxProps/<id>.theorems: theorem names, `import X` lines for further modules, # comments"""
    listing = os.path.join(LEAN_DIR, "CminxProps", f"{prop_id}.theorems")
    names, imports = [], []
    if os.path.exists(listing):
        for l in open(listing):
            l = l.split("#")[0].strip()
            if not l: continue
            if l.startswith("import "): imports.append(l[len("import "):].strip())
            else: names.append(l)
    # without explicit `import` lines the theorems live in CminxProps/<id>.lean; a proof file that exists but is not
    # referenced by the listing (work in progress) is deliberately not built by the check
    if names and not imports:
        imports = [f"CminxProps.{prop_id}"]
    return names, imports


def strip_comments(src):
    """remove /- ... -/ (nested) and -- comments so that the forbidden-token grep ignores prose"""
    out, i, depth, n = [], 0, 0, len(src)
    while i < n:
        if src.startswith("/-", i):
            depth += 1; i += 2
        elif depth and src.startswith("-/", i):
            depth -= 1; i += 2
        elif depth:
            i += 1
        elif src.startswith("--", i):
            j = src.find("\n", i); i = n if j < 0 else j
        else:
            out.append(src[i]); i += 1
    return "".join(out)


def import_closure(modules):
    """project-local modules reachable through `import` lines from the given ones (file paths)"""
    seen, todo = {}, list(modules)
    while todo:
        m = todo.pop()
        if m in seen: continue
        path = os.path.join(LEAN_DIR, *m.split(".")) + ".lean"
        if not os.path.exists(path): continue
        seen[m] = path
        for line in open(path, encoding="utf-8"):
            mm = re.match(r"\s*import\s+([A-Za-z0-9_.]+)", line)
            if mm and mm.group(1).split(".")[0] in ("CminxModel", "CminxLemmas", "CminxProps", "Driver"):
                todo.append(mm.group(1))
    return seen


def grep_forbidden(modules=None):
    """forbidden tokens in the Lean sources the given modules depend on (default: the model and the driver).
    Proof files of other properties — possibly work in progress — are none of this check's business."""
    files = import_closure(list(modules or []) + ["CminxModel", "Driver.Main"])
    hits = []
    for m, path in sorted(files.items()):
        body = strip_comments(open(path, encoding="utf-8").read())
        for mt in FORBIDDEN.finditer(body):
            if m.startswith("Driver") and mt.group(0) in ("unsafe ",): continue
            hits.append(f"{m}: {mt.group(0).strip()}")
    return hits


def audit_axioms(prop_id):
    """Run `#print axioms` for every theorem of the property listed in CminxProps/<id>.theorems.
    Returns dict: theorems (list of {name, axioms}), ok (bool), log."""
    names, imports = theorem_listing(prop_id)
    if not names:
        return {"theorems": [], "ok": True, "log": "no theorems registered"}
    src = "".join(f"import {m}\n" for m in imports) + "".join(f"#print axioms {n}\n" for n in names)
    with tempfile.NamedTemporaryFile("w", suffix=".lean", dir=LEAN_DIR, delete=False) as f:
        f.write(src); tmp = f.name
    try:
        p = subprocess.run(["lake", "env", "lean", tmp], cwd=LEAN_DIR, capture_output=True, text=True)
    finally:
        os.unlink(tmp)
    out = p.stdout + p.stderr
    res, ok = [], p.returncode == 0
    flat = re.sub(r"\s+", " ", out)
    for n in names:
        m = re.search(r"'" + re.escape(n) + r"' (depends on axioms: \[([^\]]*)\]|does not depend on any axioms)", flat)
        if not m:
            res.append({"name": n, "axioms": None}); ok = False; continue
        ax = [a.strip() for a in (m.group(2) or "").split(",") if a.strip()]
        res.append({"name": n, "axioms": ax})
        if not set(ax) <= STD_AXIOMS: ok = False
    return {"theorems": res, "ok": ok, "log": out[-2000:] if not ok else ""}


class Driver:
    """Batch client for the Lean model driver (one JSON request per line)."""
    def __init__(self):
        if not os.path.exists(DRIVER):
            raise HarnessError(f"driver not built: {DRIVER}")

    def run(self, requests, timeout=600):
        if not requests: return []
        data = "".join(json.dumps(r, ensure_ascii=False) + "\n" for r in requests).encode("utf-8")
        p = subprocess.run([DRIVER], input=data, capture_output=True, timeout=timeout)
        lines = p.stdout.decode("utf-8").split("\n")
        if lines and lines[-1] == "": lines.pop()
        if p.returncode != 0 or len(lines) != len(requests):
            raise HarnessError(f"driver returned {len(lines)} lines for {len(requests)} requests (rc={p.returncode}): {p.stderr[-500:]!r}")
        out = [json.loads(l) for l in lines]
        for r, o in zip(requests, out):
            if "fail" in o: raise HarnessError(f"driver rejected request {str(r)[:200]}: {o['fail']}")
        return out


class ValidCheck:
    """optional second executable: evaluates the theorems' hypotheses (Module.valid, itemsWf, K1 guard) on decorated modules"""
    def __init__(self):
        self.available = os.path.exists(VALIDCHECK)

    def run(self, modules, timeout=600):
        if not self.available or not modules: return None
        data = "".join(json.dumps(dict(module=m), ensure_ascii=False) + "\n" for m in modules).encode("utf-8")
        try:
            p = subprocess.run([VALIDCHECK], input=data, capture_output=True, timeout=timeout)
            lines = [l for l in p.stdout.decode("utf-8").split("\n") if l]
            if p.returncode != 0 or len(lines) != len(modules): return None
            return [json.loads(l) for l in lines]
        except Exception:
            return None


def write_json(path, obj):
    os.makedirs(os.path.dirname(path), exist_ok=True)
    tmp = path + ".tmp"
    with open(tmp, "w", encoding="utf-8") as f:
        json.dump(obj, f, indent=1, ensure_ascii=False, sort_keys=True, default=str)
    os.replace(tmp, path)


def replay_path(prop_id, payload):
    h = hashlib.sha256(json.dumps(payload, sort_keys=True, default=str, ensure_ascii=False).encode()).hexdigest()[:12]
    return os.path.join(REPLAY_DIR, f"{prop_id}-{h}.json")


def load_known_findings():
    """lines `finding: property=C08 id=K1 matcher=<name> <text>` / `fixed: property=C06 <commit> <text>`"""
    findings, fixed = [], []
    if os.path.exists(KNOWN_FINDINGS):
        for line in open(KNOWN_FINDINGS, encoding="utf-8"):
            line = line.strip()
            if line.startswith("finding:"):
                kv = dict(re.findall(r"(\w+)=(\S+)", line))
                text = re.sub(r"^finding:\s*(\w+=\S+\s*)*", "", line)
                findings.append({"property": kv.get("property"), "id": kv.get("id"), "matcher": kv.get("matcher"), "text": text})
            elif line.startswith("fixed:"):
                fixed.append(line)
    return findings, fixed
