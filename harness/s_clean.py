"""C01 support: the static `clean_doc_lines` on canonical, near-canonical and arbitrary line lists vs the Lean `cleanDocLines`;
the canonical ones also against the statement itself (body lines come back verbatim)."""
import random
import impl
from impl import DocumentationAggregator

ALPHA = ['#', '[', ']', ' ', '\t', ':', '.', 'a', 'é', '✓', '@module', 'x y', '\r', '*', ' ', ' ']


def rand_line(g, n=8):
    return ''.join(g.choice(ALPHA) for _ in range(g.randint(0, n)))


def clean_suite(seed, count, out, drv):
    g = random.Random(f"C01/clean/{seed}")
    cases = []
    for n in range(count):
        mode = g.choice(['canonical', 'canonical', 'near', 'arbitrary'])
        ind = ''.join(g.choice(' \t') for _ in range(g.randint(0, 9)))
        body = [rand_line(g).replace('\r', '') for _ in range(g.randint(0, 6))]
        body = [b for b in body if ']]' not in b]
        if mode == 'canonical':
            lines = ['#[[['] + [ind + '#' + (' ' + b if b else '') for b in body] + [ind + '#]]']
        elif mode == 'near':
            lines = ['#[[[' + g.choice(['', ' ', ' text', ' @module m'])] + [g.choice([ind, ind[:-1], ind + ' ', '']) + g.choice(['#', '# ', '#  ', '', '##']) + b for b in body] + [ind + g.choice(['#]]', '#]] ', ']]', '#]]#'])]
        else:
            lines = [rand_line(g, 12) for _ in range(g.randint(1, 6))]
        cases.append((mode, ind, body, lines))
    models = drv.run([dict(op='clean', lines=l) for _, _, _, l in cases])
    for n, ((mode, ind, body, lines), mo) in enumerate(zip(cases, models)):
        real = DocumentationAggregator.clean_doc_lines(list(lines))
        out.traces_validated += 1
        out.dist['clean:' + mode] += 1
        out.note_case(('C01', 'clean', seed, n), any(b.strip() for b in body))
        rec = dict(suite='clean', key=('C01', 'clean', seed, n), lines=lines, source='\n'.join(lines))
        if mo['doc'] != real:
            out.disagreements.append(dict(rec, detail=dict(kind='clean_doc_lines', model=mo['doc'], real=real)))
        if mode == 'canonical' and real != '\n'.join(body + ['']):
            out.violations.append(dict(rec, detail=dict(kind='canonical doccomment not returned verbatim', expected='\n'.join(body + ['']), real=real), model_agrees=mo['doc'] == real))
    out.sample(dict(suite='clean', lines=cases[0][3]))
    out.suites.append(dict(name='clean', cases=count))


def replay(v, drv):
    real = DocumentationAggregator.clean_doc_lines(list(v['lines']))
    exp = (v.get('detail') or {}).get('expected')
    return dict(fails=exp is not None and real != exp, real=real, expected=exp, lines=v['lines'])


def l0_table_suite(out, drv):
    """L0, exhaustively: the code points the model takes for Python white space (`str.strip()`/`rstrip()`/`split()` without arguments, used by the
    module-name doccomment, by pathspec's pattern clean-up and by confuse's StrSeq) against `str.isspace()` for every code point, and the
    model's lower-casing of command names against `str.lower()` on ASCII (identifiers are ASCII by the token rule)"""
    r = drv.run([dict(op='pyspace')])[0]
    real = [c for c in range(0x110000) if chr(c).isspace()]
    out.traces_validated += 1; out.dist['L0:code points compared'] += 0x110000
    if r['spaces'] != real:
        out.disagreements.append(dict(suite='L0-tables', key='isspace', detail=dict(kind='white-space set', only_model=sorted(set(r['spaces']) - set(real))[:10], only_python=sorted(set(real) - set(r['spaces']))[:10])))
    if r['lower'] != ''.join(chr(c) for c in range(128)).lower():
        out.disagreements.append(dict(suite='L0-tables', key='lower', detail=dict(kind='ASCII lower-casing')))
    out.suites.append(dict(name='L0-tables', cases=2))
