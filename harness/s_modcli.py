"""Settings path: the module-level properties build their Settings objects directly (impl.make_settings).  A user's settings
travel  main() -> argparse -> confuse (-s file) -> config_template -> dict_to_settings -> document -> Documenter.  This suite sends
generated (module, cfg) cases down that road: the module is written to a sandbox file, cfg to a `-s` YAML file (every string
double-quoted, read back before use), the REAL `cminx.main([file, '-s', s.yaml, '-o', out])` runs in-process, and the page it
writes is compared with the page of the direct API path (impl.real_pipeline with impl.make_settings(cfg)) for the same text.
The property's own oracle (what the module prescribes under cfg, oracle.project) judges the main() page: a failure is a
violation with the (module, cfg) as input; a difference the oracle does not object to is a disagreement.

cfg is drawn from the module's OWN text: trigger strings are pieces of its doccomments, strip patterns are pieces of the
parameters and names of its definitions -- begun or ended at a white-space character of the text where there is one, or padded
with blanks/tabs/line breaks that are (or are not) there, anchored, empty, matching the name: "all trigger strings and strip
patterns" includes the ones whose edges are white space."""
import contextlib, io, logging, os, random, re, time

import yaml
import impl, suites, oracle, shrink as SH, gen_modules as GM
from impl import cminx

PADS = [' ', ' ', '\t', '\n', '  ', ' \n', '\r\n', '\x0b', '\u2028', '\xa0']
RX_PADS = [' ', ' ', '\t', '\n', '  ', ' ?', ' *', '[ ]', '\\s', ' +']
FIXED_TRIGGERS = ['', ':keyword', ':keyword ', ' :keyword', ':param **kwargs:', ':param **kwargs: ', ':param', '\n', ' ', '\n\n', 'x', ':keyword\t', '\n:keyword']
FIXED_RX = ['', '^_[a-zA-Z]*_', '^_[a-zA-Z]*_\n', ' ', '^ ', ' $', '^.', 'x', '[0-9]+$', ' [a-z]+', '[a-z]+ ', '^"', '\\s+', '^_', 'a', 'f|g', 'f |g', '\t']


class _Quoted(yaml.SafeDumper):
    """every string as a double-quoted scalar (escapes for everything that is not printable ASCII): nothing is folded, trimmed or re-typed"""
_Quoted.add_representer(str, lambda d, s: d.represent_scalar('tag:yaml.org,2002:str', s, style='"'))


def settings_yaml(cfg):
    """(text of the -s file, the mapping it must load back as)"""
    inp = {'include_undocumented_' + f: bool(cfg.get('incl', {}).get(f, True)) for f in impl.FLAGS}
    inp['kwargs_doc_trigger_string'] = cfg['trigger']
    inp['function_parameter_name_strip_regex'] = cfg['regex']['fn']
    inp['macro_parameter_name_strip_regex'] = cfg['regex']['macro']
    inp['member_parameter_name_strip_regex'] = cfg['regex']['member']
    data = {'input': inp}
    return yaml.dump(data, Dumper=_Quoted, default_flow_style=False, width=1 << 20), data


# ---- cfg drawn from the module ------------------------------------------------------------------------------------------
def piece(g, text, edge):
    """a non-empty substring of text; edge: it begins or ends at a white-space character of the text where there is one"""
    if not text: return ''
    ws = [i for i, c in enumerate(text) if c.isspace()]
    if edge and ws:
        i = g.choice(ws)
        if g.random() < 0.5: return text[i:i + g.randint(1, 7)]
        return text[max(0, i - g.randint(0, 6)):i + 1]
    i = g.randrange(len(text)); return text[i:i + g.randint(1, 7)]


def pad(g, s, pads, plain=False):
    r = 0.0 if plain else g.random()
    if r < 0.4: return s
    if r < 0.65: return s + g.choice(pads)
    if r < 0.9: return g.choice(pads) + s
    return g.choice(pads) + s + g.choice(pads)


def rx_escape(s): return ''.join('\\' + c if c in '.^$*+?{}[]\\|()' else c for c in s)


def valid_rx(r):
    try: re.compile(r); return True
    except Exception: return False


def def_texts(m):
    """per strip-pattern kind: the parameter texts the pattern is applied to, and the names it must leave alone"""
    params = {'fn': [], 'macro': [], 'member': []}; names = {'fn': [], 'macro': [], 'member': []}; docs = []
    for it in GM.walk_items(m['items']):
        if it['k'] == 'block' and GM.cname(it['open']) in ('function', 'macro'):
            k = 'fn' if GM.cname(it['open']) == 'function' else 'macro'; s = GM.singles(it['open'])
            params[k] += s[1:]; names[k] += s[:1]
            if it.get('doc') is not None: docs.append(GM.doc_text(it['doc']))
        elif it['k'] == 'decl' and GM.cname(it['decl']) in ('cpp_member', 'cpp_constructor'):
            s = GM.singles(it['impl']); params['member'] += s[2:]; names['member'] += s[:1]
    return params, names, docs


def draw_cfg(g, m, cfg):
    params, names, docs = def_texts(m)
    plain = g.random() < 0.3       # a case in three: pieces as they come, no white space sought or added
    r = g.random()
    if r < 0.2 or not docs: trig = g.choice(FIXED_TRIGGERS)
    else:
        trig = pad(g, piece(g, g.choice(docs), not plain and g.random() < 0.6), PADS, plain)
        if r > 0.9: trig = trig.strip() + g.choice(PADS)       # the same words, other white space after them
    rx = {}
    for k in ('fn', 'macro', 'member'):
        r = g.random()
        texts = (params[k] if r < 0.75 or not names[k] else names[k]) or names[k]
        if r < 0.2 or not texts: cand = g.choice(FIXED_RX)
        else:
            t = g.choice(texts)
            cand = rx_escape(piece(g, t, not plain and g.random() < 0.7))
            a = g.random()
            if a < 0.1: cand = '^' + cand
            elif a < 0.2: cand = cand + '$'
            cand = pad(g, cand, RX_PADS, plain)
        rx[k] = cand if valid_rx(cand) else ''
    return dict(cfg, trigger=trig, regex=rx)


def gen_case(prop, seed, n):
    """a well-formed module with at least one function/macro definition, and a cfg drawn from it"""
    for attempt in range(40):
        g = random.Random(f"{prop}/settings-path/{seed}/{n}/{attempt}")
        kw, cfg = suites.profile(prop, g)
        kw.update(p_doc=0.8, malformed=0.0, p_docimpl=0, p_stale=0, layout=g.choice([0, 1, 1, 2]))
        m = GM.Gen(g, lg=random.Random(f"{prop}/settings-path/{seed}/{n}/{attempt}/layout"), **kw).module()
        params, names, docs = def_texts(m)
        if GM.well_formed(m)[0] and not suites.has_crlf_doc(m) and (names['fn'] or names['macro']) and (attempt >= 20 or params['fn'] or params['macro']):
            return m, draw_cfg(g, m, cfg)
    return m, draw_cfg(g, m, cfg)


# ---- the two roads --------------------------------------------------------------------------------------------------------
def run_main(sb, src, cfg, tag='c'):
    """{'rst': page} | {'err': ...} | {'skip': why}"""
    base = os.path.join(sb.dir, '+sp_' + tag + '+')
    home = os.path.join(base, 'home'); work = os.path.join(base, '+work+'); outd = os.path.join(base, 'out')
    for d in (os.path.join(home, '.config'), work, os.path.join(base, 'in')): os.makedirs(d, exist_ok=True)
    p = os.path.join(base, 'in', 'M.cmake')
    with open(p, 'wb') as f: f.write(src.encode('utf-8'))
    text, data = settings_yaml(cfg)
    sfile = os.path.join(base, 's.yaml')
    with open(sfile, 'wb') as f: f.write(text.encode('utf-8'))
    with open(sfile, encoding='utf-8') as f:
        if yaml.safe_load(f) != data: return dict(skip='the settings do not survive YAML')
    old = {k: os.environ.get(k) for k in ('HOME', 'XDG_CONFIG_HOME', 'CMINXDIR')}
    os.environ['HOME'] = home; os.environ['XDG_CONFIG_HOME'] = os.path.join(home, '.config'); os.environ.pop('CMINXDIR', None)
    cwd = os.getcwd(); res = None
    try:
        os.chdir(work)
        with contextlib.redirect_stdout(io.StringIO()), contextlib.redirect_stderr(io.StringIO()):
            try: cminx.main([p, '-s', sfile, '-o', outd])
            except SystemExit as e: res = dict(err='exit', kind=repr(e.code))
            except RecursionError: raise
            except BaseException as e:
                if isinstance(e, (KeyboardInterrupt, MemoryError)): raise
                res = impl.classify_exception(e, src)
    finally:
        os.chdir(cwd)
        for k, v in old.items():
            if v is None: os.environ.pop(k, None)
            else: os.environ[k] = v
        logging.disable(logging.NOTSET)
        for name in ('cminx', ''):
            lg = logging.getLogger(name)
            for h in lg.handlers[:]: lg.removeHandler(h)
    if res is not None: return res
    page = os.path.join(outd, 'M.rst')
    if not os.path.isfile(page): return dict(err='no-page', kind=sorted(os.listdir(outd)) if os.path.isdir(outd) else None)
    with open(page, encoding='utf-8', newline='') as f: return dict(rst=f.read())


def judge(prop, m, cfg, page):
    """the property's own predicate on a page alone: what the module prescribes under cfg (page half of the projection)"""
    if not (GM.well_formed(m)[0] or GM.well_formed(m, positional=True)[0]) or suites.has_crlf_doc(m): return None
    spec = GM.spec_entries(m, cfg)
    if spec is None: return None
    if 'err' in page: return dict(kind='well-formed module rejected on the road main() -> settings file -> Documenter', real=page)
    e_rst, _ = oracle.loosen(oracle.neutralise(oracle.expected_rst(spec, 'M', 'M', '#')), [], spec)
    r_rst, _ = oracle.loosen(oracle.neutralise(page['rst']), [], spec)
    pe = oracle.project(prop, e_rst, [])[1]; pr = oracle.project(prop, r_rst, [])[1]
    if pe != pr:
        return dict(kind='the page main() writes under a settings file differs from what the module prescribes under those settings',
                    expected=pe, real=pr)
    return None


def one_case(prop, sb, m, cfg, src, tag='c'):
    """(disagreement, violation, main's result, direct result)"""
    direct = impl.real_pipeline(sb, src, impl.make_settings(cfg), 'M', 'M')
    viamain = run_main(sb, src, cfg, tag)
    if 'skip' in viamain: return None, None, viamain, direct
    vio = judge(prop, m, cfg, viamain)
    dis = None
    if ('err' in viamain) != ('err' in direct):
        dis = dict(kind='error-status', main=viamain if 'err' in viamain else 'ok', direct=direct if 'err' in direct else 'ok')
    elif 'err' not in viamain and viamain['rst'] != direct['rst']:
        a = viamain['rst'].split('\n'); b = direct['rst'].split('\n')
        i = next((i for i, (x, y) in enumerate(zip(a, b)) if x != y), min(len(a), len(b)))
        dis = dict(kind='page of main() under a settings file differs from the page of the API under the same settings', first_difference=i,
                   main=a[i:i + 3], direct=b[i:i + 3])
    return dis, vio, viamain, direct


def settings_path_suite(prop, seed, count, out, drv, budget_s=None):
    t0 = time.time(); done = 0
    with impl.Sandbox() as sb:
        for lo in range(0, count, 50):
            if budget_s and time.time() - t0 > budget_s:
                out.notes.append(f"settings-path suite stopped at {done}/{count} cases (time budget)"); break
            cases = [((prop, 'settings-path', seed, n),) + gen_case(prop, seed, n) for n in range(lo, min(count, lo + 50))]
            rend = drv.run([dict(op='render', module=m) for _, m, _ in cases])
            for (key, m, cfg), r in zip(cases, rend):
                dis, vio, viamain, direct = one_case(prop, sb, m, cfg, r['src'], 'n%d' % key[3])
                done += 1
                if 'skip' in viamain: out.dist['settings-path:skipped (' + viamain['skip'] + ')'] += 1; continue
                out.traces_validated += 2; out.note_case(key, True)
                out.dist['settings-path:' + ('err:' + str(viamain['err']) if 'err' in viamain else 'ok')] += 1
                st = [cfg['trigger']] + list(cfg['regex'].values())
                if any(s != s.strip() for s in st): out.dist['settings-path:pattern with white-space edge'] += 1
                if cfg['trigger'] == '' : out.dist['settings-path:empty trigger'] += 1
                out.sample(dict(suite='settings-path', key=key, source=r['src'][:400], cfg=cfg), limit=6)
                rec = dict(suite='settings-path', key=key, module=m, cfg=cfg, source=r['src'], settings_file=settings_yaml(cfg)[0])
                if vio: out.violations.append(dict(rec, detail=vio, model_agrees=True))
                elif dis: out.disagreements.append(dict(rec, detail=dis))
    out.suites.append(dict(name='settings-path (main + -s file vs API)', cases=done))


# ---- shrinking / replay of a case of this suite ------------------------------------------------------------------------------
def _fails(prop, drv):
    def f(m, cfg):
        src = drv.run([dict(op='render', module=m)])[0]['src']
        with impl.Sandbox() as sb: dis, vio, viamain, direct = one_case(prop, sb, m, cfg, src)
        return vio, dis, src, viamain
    return f


def shrink(prop):
    def go(v, drv):
        f = _fails(prop, drv); cfg = v['cfg']
        m = SH.shrink_module(v['module'], lambda c: f(c, cfg)[0] is not None)
        vio, dis, src, viamain = f(m, cfg)
        if vio is None: return v
        return dict(v, module=m, source=src, detail=vio, shrunk=True)
    return go


def replay(prop):
    def go(v, drv):
        vio, dis, src, viamain = _fails(prop, drv)(v['module'], v['cfg'])
        return dict(fails=vio is not None, source=src, settings_file=settings_yaml(v['cfg'])[0], detail=vio, real=viamain)
    return go
