#!/venv/bin/python
"""Entry point of every check:  check.py <Cxx> [--tier quick|thorough]   |   check.py --replay <file>

Decision procedure (DESIGN.md §3.5):
  1 lean   : lake build; `#print axioms` of every theorem of the property ⊆ {propext, Classical.choice, Quot.sound};
             no sorry/admit/axiom/native_decide/... in the Lean sources
  2 corr   : model (Lean) vs real code on generated inputs, under the property's projection
  3 oracle : the property's own predicate on the REAL output, ground truth from the abstract input
  4 known findings are reported as KNOWN-FINDING lines, never as violations
  5 exit 1 + `VIOLATION property=<id> replay=<path>` with a concrete failing input when the oracle found one;
    exit 1 + `... no-failing-input-found` when a proof obligation or the correspondence broke and the search found none;
    exit 2 when the machinery itself malfunctioned.
"""
import argparse, json, os, sys, time, traceback

sys.path.insert(0, os.path.dirname(os.path.abspath(__file__)))
import common


def main():
    ap = argparse.ArgumentParser()
    ap.add_argument('prop', nargs='?')
    ap.add_argument('--tier', default=os.environ.get('VERIF_TIER', 'quick'), choices=['quick', 'thorough'])
    ap.add_argument('--replay')
    ap.add_argument('--no-lean', action='store_true', help='skip the Lean build/audit (debugging only; never registered)')
    args = ap.parse_args()
    seed = int(os.environ.get('VERIF_SEED', '0'))
    try:
        if os.environ.get('VERIF_IMPLCOV') == '1' or (args.tier == 'thorough' and os.environ.get('VERIF_IMPLCOV') != '0' and not args.replay):
            import implcov
            implcov.start(common.REPO_SRC)      # before cminx is imported
        import runner
        if args.replay:
            return runner.replay(args.replay)
        if not args.prop:
            ap.error('property id required')
        return runner.run_check(args.prop, args.tier, seed, skip_lean=args.no_lean)
    except common.HarnessError as e:
        print(f"HARNESS-ERROR: {e}", file=sys.stderr)
        return 2
    except Exception:
        traceback.print_exc()
        return 2


if __name__ == '__main__':
    sys.exit(main())
