"""Directory-level suites (C12-C15, C17, C18, part of C06): abstract trees with explicit listing orders, pattern sets and
settings; the real `cminx.document`/`main` run in a sandbox against the Lean `Walk` model and declarative oracles."""
import contextlib, copy, hashlib, io, os, random, re, sys

import pathspec
import impl, oracle
from impl import cminx

NAMES = ['a', 'b', 'c', 'mod', 'x.y', 'd-e', 'aa', 'ab', 'ac', 'e1', 'e2', 'e3', 'Z', 'útf', 'tc.cmake.in', 'P.cmake', 'v1.2.x', '.hid',
         'A', 'Mod', 'B', 'sub\\a', 'deep\\mod', 're\u0301sume\u0301', '模块', 'ｗｉｄｅ', 'x\u0308y']      # case twins, backslashes, combining marks, wide characters
EXTS = ['.cmake', '.cmake', '.cmake', '.cmake', '.CMake', '.CMAKE', '.txt', '', '.cmake.in', '.cmake~']
DIRS = ['sub', 'deep', 'my dir', 'aa', 'ab', 'ac', 'build', 'x.d', 'cmake', 'T-1', 'tmpl.cmake', '.dot']
PATTERNS = ['a*/', '*.cmake/', 'mod*/', 'e?/', 'aa/', 'ab/', 'ac/', 'build', 'sub/', '*.txt', 'a.cmake', 'b.cmake', 'c.cmake', '**/deep/*.cmake', 'mod.*', 'x.d/',
            'aa.cmake', 'ab.cmake', 'ac.cmake', 'e1.cmake', 'e2.cmake', 'e3.cmake', '*.cmake', 'sub/*.cmake', '/nomatch', 'deep/',
            '{INP}/sub/a.cmake', '{INP}/aa/', '**/ab/', 'a*', '!a.cmake', 'cmake/']


def file_content(g, name):
    ident = re.sub(r'\W', '_', name)
    k = g.random()
    if k < 0.08:      # characters that str.splitlines() treats as line boundaries although CMake and the aggregator do not
        return '#[[[\n# page\x0cbreak and v\x0btab, ls\u2028ps\u2029 nel\x85 fs\x1c here\n#]]\nfunction(f_%s a)\nendfunction()\n' % ident
    if k < 0.14:      # titles whose display width differs from their length
        return '#[[[ @module named.%s%s\n# module text\n#]]\nfunction(f_%s)\nendfunction()\n' % (g.choice(['模块名称', 're\u0301sume\u0301', 'ｆｕｌｌ', 'a\u0308\u0308b', 'my helpers ', 'tab\tbed ']), name, ident)
    if k < 0.2:       # keyword arguments: rendering appends **kwargs to the entry's own parameter list
        return '#[[[\n# Fetch. %s\n#]]\nfunction(fetch_%s url dest)\n  cmake_parse_arguments(_f "" "" "X" ${ARGN})\nendfunction()\n' % (name, ident)
    if k < 0.55: return 'function(f_%s a)\nendfunction()\n' % ident
    if k < 0.7: return '#[[[\n# Doc of %s ✓\n#]]\nfunction(f_%s a b)\nendfunction()\nset(V_%s 1)\n' % (name, ident, ident)
    if k < 0.76:      # any blanks between the opener and the tag
        return '#[[[%s@module named.%s\n# module text\n#]]\n#[[[\n# fdoc\n#]]\nmacro(m_%s)\nendmacro()\n' % (g.choice([' ', ' ', '  ', '\t', '', '   ', ' \t']), ident, ident)
    if k < 0.8:      # the same, the module doccomment indented by more columns than its opener is long
        ind = g.choice(['      ', '        ', '\t\t\t\t\t\t\t'])
        return '%s#[[[ @module named.%s\n%s# module text\n%s#]]\n#[[[\n# fdoc\n#]]\nmacro(m_%s)\nendmacro()\n' % (ind, ident, ind, ind, ident)
    if k < 0.87: return '#[[[%s@module\n# unnamed module text\n#]]\noption(O_%s "help")\n' % (g.choice([' ', ' ', '  ', '\t', '']), ident)
    if k < 0.93: return ''
    return '# only a comment\n'


def gen_dir(g, depth, max_depth=3, want_cmake=False, k4=False):
    children = []; used = set()
    for _ in range(g.randint(0, 4)):
        nm = g.choice(NAMES); ext = g.choice(EXTS); f = nm + ext
        key = nm + ext.lower()          # same stem + differently spelled extension = K4 (both write <stem>.rst); case twins of the stem are fine
        if key in used or f in used: continue
        used.add(key); used.add(f); children.append(dict(name=f, content=file_content(g, f)))
    if depth == 0 and g.random() < 0.3:
        # 8: a byte-identical copy of one file in another directory (a vendored copy): the second copy must get the page it gets alone
        src_files = [c for c in children if 'children' not in c and c['name'].lower().endswith('.cmake')]
        if src_files:
            c0 = g.choice(src_files)
            twin = dict(name=c0['name'], content=c0['content'])
            dn = g.choice(['vendor', 'compat', 'Zcopy'])
            if dn not in used and dn.lower() not in {u.lower() for u in used}:
                used.add(dn); children.append(dict(name=dn, children=[twin, dict(name='other.cmake', content=c0['content'])]))
    if g.random() < 0.05 and 'cmake' not in used:
        used.add('cmake'); children.append(dict(name='cmake', content='set(x 1)\n'))
    if want_cmake and not any(c['name'].endswith('.cmake') for c in children):
        children.append(dict(name='root.cmake', content=file_content(g, 'root.cmake')))
    if depth < max_depth:
        for _ in range(g.randint(0, 3)):
            n = g.choice(DIRS)
            if n in used or n.lower() in {u.lower() for u in used}: continue
            used.add(n); children.append(dict(name=n, children=gen_dir(g, depth + 1, max_depth)))
    if k4:
        # K4 on purpose: one stem with two spellings of the extension and different contents -- both write <stem>.rst; which one
        # survives must not depend on the listing order (C17)
        fs = [c for c in children if 'children' not in c and c['name'].endswith('.cmake')]
        if fs:
            c0 = g.choice(fs); twin = c0['name'][:-len('.cmake')] + g.choice(['.CMAKE', '.CMake'])
            if twin not in used:
                used.add(twin); children.append(dict(name=twin, content='function(twin_upper_%d hint)\nendfunction()\n' % g.randint(0, 99)))
    g.shuffle(children)
    return children


def permute(g, children, mode):
    """a listing order for every directory of the tree (deep copy)"""
    ch = [dict(c, children=permute(g, c['children'], mode)) if 'children' in c else dict(c) for c in children]
    if mode == 'sorted': ch.sort(key=lambda c: c['name'])
    elif mode == 'reversed': ch.sort(key=lambda c: c['name'], reverse=True)
    elif mode == 'shuffle': g.shuffle(ch)
    return ch


def link_target_dir(link_dir, children):
    os.makedirs(link_dir, exist_ok=True)
    tgt = os.path.join(link_dir, '+lt_%d+' % len(os.listdir(link_dir)))
    materialize(tgt, children, link_dir)
    return tgt


def materialize(path, children, link_dir=None, hidden_links=()):
    """a child with `symlink: True` is created as a symbolic link to a regular file outside the input tree (in link_dir); a
    directory child with `dirlink: True` as a symbolic link to a directory there.  `hidden_links` (dicts rel/name/children) are
    further directory links that the abstract tree does not mention: with input.follow_symlinks off they must be invisible.
    A directory child with `alias: <link text>` is a link to another directory of the SAME tree (see add_aliases)"""
    os.makedirs(path, exist_ok=True)
    for c in children:
        p = os.path.join(path, c['name'])
        if 'children' in c and c.get('alias'):
            if not os.path.lexists(p): os.symlink(c['alias'], p)      # relative, may be made before its target
        elif 'children' in c and c.get('dirlink') and link_dir:
            if not os.path.lexists(p): os.symlink(link_target_dir(link_dir, c['children']), p)      # a repeated run finds the link in place
        elif 'children' in c: materialize(p, c['children'], link_dir)
        elif c.get('symlink') and link_dir:
            os.makedirs(link_dir, exist_ok=True)
            tgt = os.path.join(link_dir, 'shared_%d_%s' % (len(os.listdir(link_dir)), c['name']))
            with open(tgt, 'wb') as f: f.write(c['content'].encode('utf-8'))
            if os.path.lexists(p): os.unlink(p)
            os.symlink(tgt, p)
        else:
            with open(p, 'wb') as f: f.write(c['content'].encode('utf-8'))
    for h in hidden_links:
        d = os.path.join(path, *h['rel'])
        if os.path.isdir(d) and not os.path.lexists(os.path.join(d, h['name'])):
            os.symlink(link_target_dir(link_dir, h['children']), os.path.join(d, h['name']))


def add_aliases(g, case, inp):
    """Directory links that stay INSIDE the input tree (`compat -> core`, `old/api -> ../../new/api`, a second name for an
    external link), one or several per target, on top of the links the case already has.  input.follow_symlinks is switched on, so
    every alias is a processed directory of its own with its target's content: the abstract tree carries it as a directory child
    (dirlink, alias=<link text>) whose children are a copy of the target's -- the resolution the Lean model needs -- while the
    real code meets two paths with one real directory behind them.  Only acyclic ones: a target is never the link's own directory
    or an ancestor of it (os.walk would not come back), and no link is planted inside a target (its copies would go stale).
    Returns the number of links planted."""
    children = inp['children']
    for h in inp.pop('hidden_links', []):      # followed links are visible ones
        ch = children
        for n in h['rel']: ch = next(c for c in ch if c['name'] == n)['children']
        ch.append(dict(name=h['name'], children=h['children'], dirlink=True))
    case['settings']['follow'] = True
    dirs = [((), children)]; outside = set()
    def alld(ch, rel):
        for c in ch:
            if 'children' in c:
                dirs.append((rel + (c['name'],), c['children']))
                if c.get('dirlink'): outside.add(rel + (c['name'],))     # link texts are relative: no link is put into a directory that lives elsewhere
                else: alld(c['children'], rel + (c['name'],))
    alld(children, ())
    targets = dirs[1:]; with_cmake = [d for d in targets if any('children' not in c and c['name'].endswith('.cmake') for c in d[1])]
    below = lambda rel, top: rel[:len(top)] == top
    chosen = []; parents = []
    for _ in range(g.choice([1, 1, 2, 2, 3]) if targets else 0):
        if chosen and g.random() < 0.4: trel, tch = g.choice(chosen)         # one more link to the same directory
        else: trel, tch = g.choice(with_cmake if with_cmake and g.random() < 0.75 else targets)
        if any(below(p, trel) for p in parents): continue
        ok = [d for d in dirs if d[0] not in outside and not below(d[0], trel) and not any(below(d[0], t[0]) for t in chosen)]
        sib = [d for d in ok if d[0] == trel[:-1]]
        if not ok: continue
        prel, pch = g.choice(sib if sib and g.random() < 0.65 else ok)
        nm = g.choice(['compat', 'alias', 'lnk', 'zz_old', '0first', 'AA', 'x.lnk', trel[-1] + '2', 'old_' + trel[-1], trel[-1][:-1] or 'q'])
        if nm in ('.', '..', case.get('nested_name', '_docs')) or any(c['name'].lower() == nm.lower() for c in pch): continue     # nor the output directory's name
        text = os.path.relpath(os.path.join(os.sep, *trel), os.path.join(os.sep, *prel))
        pch.insert(g.randint(0, len(pch)), dict(name=nm, children=copy.deepcopy(tch), dirlink=True, alias=text))
        if all(t[0] != trel for t in chosen): chosen.append((trel, tch))
        parents.append(prel)
    return len(parents)


def alias_suite(prop, seed, count, out, drv, budget_s=None):
    """the trees of the tree suite with links between their own directories added (add_aliases), judged by the same check"""
    import time
    import s_treeprops as P      # imports this module
    t0 = time.time(); done = 0
    for n in range(count):
        if budget_s and time.time() - t0 > budget_s:
            out.notes.append(f"alias suite stopped at {done}/{count} (time budget)"); break
        g = random.Random(f"{prop}/alias/{seed}/{n}")
        for _ in range(8):
            case = P.gen_case(g, prop)
            tgt = case['inputs'][case.get('target', 0)]
            if tgt['kind'] == 'dir' and add_aliases(g, case, tgt): break
        else: continue
        if g.random() < 0.7: case['settings']['recursive'] = True      # without -r no link is ever looked at
        with impl.Sandbox() as sb:
            P.check_case(prop, case, sb, drv, (prop, 'alias', seed, n), out)
        out.dist['aliases'] += 1; done += 1
    out.suites.append(dict(name='aliases', cases=done))


@contextlib.contextmanager
def imposed_listing(inp, children):
    """make os.walk list every directory below `inp` in the order the abstract tree states (in-place, so CMinx's
    pruning of the lists still works)"""
    order = {}
    def rec(path, ch):
        order[os.path.normpath(path)] = [c['name'] for c in ch]
        for c in ch:
            if 'children' in c: rec(os.path.join(path, c['name']), c['children'])
    rec(inp, children)
    real_walk = os.walk
    def walk(top, topdown=True, onerror=None, followlinks=False):
        for root, dirs, files in real_walk(top, topdown=topdown, onerror=onerror, followlinks=followlinks):
            o = order.get(os.path.normpath(root))
            if o is not None:
                pos = {n: i for i, n in enumerate(o)}
                dirs.sort(key=lambda n: pos.get(n, 1 << 30)); files.sort(key=lambda n: pos.get(n, 1 << 30))
            yield root, dirs, files
    os.walk = walk
    try: yield
    finally: os.walk = real_walk


def excluded_list(inp_abs, children, patterns):
    """exclusion bits for every path below the input, from pathspec with exactly the strings CMinx builds"""
    spec = pathspec.PathSpec.from_lines(pathspec.patterns.GitWildMatchPattern, patterns)
    out = []
    def rec(path, rel, ch):
        for c in ch:
            if 'children' in c:
                if spec.match_file(os.path.join(path, os.path.join(c['name'], ""))): out.append(rel + [c['name'], 'd'])
                rec(os.path.join(path, c['name']), rel + [c['name']], c['children'])
            else:
                if spec.match_file(os.path.join(path, c['name'])): out.append(rel + [c['name'], 'f'])
    rec(inp_abs, [], children)
    return out, spec


def snapshot(root):
    snap = {}
    for r, ds, fs in os.walk(root):
        for d in ds: snap[os.path.relpath(os.path.join(r, d), root) + '/'] = 'dir'
        for f in fs:
            p = os.path.join(r, f)
            if not os.path.isfile(p): snap[os.path.relpath(p, root)] = 'special'; continue
            with open(p, 'rb') as fh: snap[os.path.relpath(p, root)] = hashlib.sha256(fh.read()).hexdigest()
    return snap


def read_tree(root):
    out = {}
    if not os.path.isdir(root): return out
    for r, ds, fs in os.walk(root):
        for f in fs:
            p = os.path.join(r, f)
            with open(p, 'rb') as fh: out[os.path.relpath(p, root)] = fh.read().decode('utf-8', 'replace')
    return out


def make_settings(st, outdir):
    s = impl.make_settings(st.get('cfg'), headers=st.get('headers'))
    s.input.recursive = st['recursive']; s.input.auto_exclude_directories_without_cmake = st['auto_exclude']
    s.input.exclude_filters = list(st['patterns_resolved'])
    s.rst.prefix = st.get('prefix'); s.rst.module_path_separator = st.get('sep', '.')
    s.rst.file_extensions_in_titles = st.get('ext_titles', False); s.rst.file_extensions_in_modules = st.get('ext_modules', False)
    s.output.directory = outdir
    s.input.follow_symlinks = bool(st.get('follow', False))
    return s


def run_real(sb_dir, case, variant='v0', cwd_mode=None, loc='+loc+', keep_inputs=False):
    """materialise the case under sb_dir/variant and run the real cminx.document; returns dict(files, stdout, status)"""
    # directory names of the harness must not be matchable by generated exclude patterns (patterns see absolute paths, K7):
    # a variant called 'alone' is excluded by 'a*', a directory 'loc' by the suffix glob '*c' — so every harness directory
    # starts and ends with '+', a character no generated name or pattern contains
    base = os.path.join(sb_dir, '+zq9_' + variant + '+'); os.makedirs(base, exist_ok=True)
    inputs = case['inputs']; st = dict(case['settings'])
    results = dict(files={}, stdout='', status='ok', abs_inputs=[])
    old_cwd = os.getcwd()
    outmode = case.get('output', 'abs')
    workdir = os.path.join(base, '+work+'); os.makedirs(workdir, exist_ok=True)
    if cwd_mode is None and case.get('run_from') == 'parent': cwd_mode = lambda b, ai, w: os.path.dirname(ai[0])      # started in the directory that holds the input
    decoy = os.path.join(base, '+decoy+'); os.makedirs(decoy, exist_ok=True)
    with open(os.path.join(decoy, 'keep.txt'), 'w') as f: f.write('decoy')
    abs_inputs = []
    for k, inp in enumerate(inputs):
        parent = os.path.join(base, loc, '+i%d+' % k)
        p = os.path.join(parent, inp['name'])
        if inp.get('via_link') and inp['kind'] in ('dir', 'file') and not os.path.lexists(p):
            # the path the user names is a symbolic link; what it points to has another name.  Titles, module names and the default prefix
            # come from the name that was given, not from the link's target
            target = os.path.join(base, loc, '+real%d+' % k, 'zz_target_%d%s' % (k, os.path.splitext(inp['name'])[1] if inp['kind'] == 'file' else ''))
            os.makedirs(os.path.dirname(target), exist_ok=True); os.makedirs(parent, exist_ok=True)
            if inp['kind'] == 'dir': materialize(target, inp['children'], os.path.join(base, '+vendor_q7+'), inp.get('hidden_links', ()))
            else:
                with open(target, 'wb') as f: f.write(inp['content'].encode('utf-8'))
            os.symlink(target, p)
        if keep_inputs and os.path.exists(p): pass       # second run over the very same files (mtimes untouched)
        elif inp['kind'] == 'dir': materialize(p, inp['children'], os.path.join(base, '+vendor_q7+'), inp.get('hidden_links', ()))
        elif inp['kind'] == 'file':
            os.makedirs(parent, exist_ok=True)
            with open(p, 'wb') as f: f.write(inp['content'].encode('utf-8'))
        elif inp['kind'] == 'special':
            os.makedirs(parent, exist_ok=True)
            if not os.path.lexists(p): os.mkfifo(p)
        else: os.makedirs(parent, exist_ok=True)
        abs_inputs.append(p)
    results['abs_inputs'] = abs_inputs
    if outmode is None: outdir = None; out_abs = None
    elif outmode == 'abs': out_abs = os.path.join(base, 'out'); outdir = out_abs
    elif outmode == 'rel':
        run_cwd = workdir if cwd_mode is None else cwd_mode(base, abs_inputs, workdir)
        out_abs = os.path.join(run_cwd, 'rel', 'out'); outdir = os.path.join('rel', 'out')
    elif outmode == 'nested': out_abs = os.path.join(abs_inputs[0], case.get('nested_name', '_docs')) if inputs[0]['kind'] == 'dir' else os.path.join(base, 'out'); outdir = out_abs
    elif outmode == 'prepopulated':
        out_abs = os.path.join(base, 'out'); outdir = out_abs; os.makedirs(os.path.join(out_abs, 'other'), exist_ok=True)
        with open(os.path.join(out_abs, 'other', 'keep.rst'), 'w') as f: f.write('unrelated')
        with open(os.path.join(out_abs, 'README'), 'w') as f: f.write('unrelated too')
    else: raise ValueError(outmode)
    st['patterns_resolved'] = [pt.replace('{INP}', abs_inputs[0]) for pt in case.get('patterns', [])]
    before = snapshot(base)
    stdout = io.StringIO()
    try:
        os.chdir(workdir if cwd_mode is None else cwd_mode(base, abs_inputs, workdir))
        settings = make_settings(st, outdir)
        pristine = copy.deepcopy(settings)
        with impl.capture_logs() as logs, contextlib.redirect_stdout(stdout), contextlib.redirect_stderr(io.StringIO()):
            try:
                for k, (inp, p) in enumerate(zip(inputs, abs_inputs)):
                    spelled = inp.get('spelled', 'abs')
                    if spelled == 'rel': arg = os.path.relpath(p, os.getcwd())
                    elif spelled == 'updir' and inp['kind'] == 'dir' and any('children' in c and not c.get('dirlink') for c in inp['children']):
                        # the directory named from inside as <sub-directory>/..
                        os.chdir(p); arg = os.path.join(next(c['name'] for c in inp['children'] if 'children' in c and not c.get('dirlink')), '..')
                    elif spelled in ('dot', 'updir') and inp['kind'] == 'dir':
                        os.chdir(p); arg = '.'
                    else: arg = p
                    if case.get('outputs'): settings.output.directory = os.path.join(base, case['outputs'][k])     # same Settings object, sent to another directory for this input
                    if inp['kind'] == 'dir':
                        with imposed_listing(p, inp['children']): cminx.document(arg, settings)
                    else: cminx.document(arg, settings)
                    if spelled in ('dot', 'updir'): os.chdir(workdir)
            except SystemExit as e:
                results['status'] = 'exit-1' if e.code in (-1, 255) else 'exit:%r' % (e.code,)
            except BaseException as e:
                if isinstance(e, (KeyboardInterrupt, MemoryError)): raise
                results['status'] = impl.classify_exception(e, '')
        results['settings_unchanged'] = (settings == pristine)
        results['log_errors'] = logs.errors
    finally:
        os.chdir(old_cwd)
    after = snapshot(base)
    results['stdout'] = stdout.getvalue()
    results['files'] = read_tree(out_abs) if out_abs else {}
    if case.get('outputs'): results['files_by_output'] = {o: read_tree(os.path.join(base, o)) for o in case['outputs']}
    out_rel = (os.path.relpath(out_abs, base) + os.sep) if out_abs else None
    changed = {}
    for pth in set(before) | set(after):
        if before.get(pth) != after.get(pth):
            if out_rel and (pth.startswith(out_rel) or pth == out_rel.rstrip(os.sep) + '/'): continue
            if out_rel and pth.endswith('/') and out_rel.startswith(pth): continue      # parents created for the output directory
            changed[pth] = (before.get(pth), after.get(pth))
    results['changed_outside_output'] = changed
    results['out_abs'] = out_abs; results['base'] = base
    if outmode == 'prepopulated':
        results['unrelated_intact'] = (results['files'].get(os.path.join('other', 'keep.rst')) == 'unrelated' and results['files'].get('README') == 'unrelated too')
        results['files'].pop(os.path.join('other', 'keep.rst'), None); results['files'].pop('README', None)
    return results


def model_request(case, abs_inputs):
    st = case['settings']
    inputs = []
    for inp, p in zip(case['inputs'], abs_inputs):
        pats = [pt.replace('{INP}', abs_inputs[0]) for pt in case.get('patterns', [])]
        spec = pathspec.PathSpec.from_lines(pathspec.patterns.GitWildMatchPattern, pats)
        j = dict(kind=inp['kind'], name=inp['name'])
        if inp['kind'] == 'dir':
            j['children'] = inp['children']
            j['excluded'], _ = excluded_list(os.path.join(p, ''), inp['children'], pats)
            j['excl_root'] = spec.match_file(os.path.join(p, ''))
        elif inp['kind'] == 'file':
            j['content'] = inp['content']; j['excl_root'] = spec.match_file(p)
        else:
            j['excl_root'] = spec.match_file(p)
        inputs.append(j)
    cfg = st.get('cfg') or {}
    settings = dict(recursive=st['recursive'], auto_exclude=st['auto_exclude'], sep=st.get('sep', '.'),
                    ext_titles=st.get('ext_titles', False), ext_modules=st.get('ext_modules', False),
                    headers=st.get('headers') or ['#', '*', '=', '-', '_', '~', '!', '&', '@', '^'],
                    stdout=case.get('output', 'abs') is None,
                    cfg=dict(incl=cfg.get('incl', {}), trigger=cfg.get('trigger', ':param **kwargs:')))
    if st.get('prefix') is not None: settings['prefix'] = st['prefix']
    return dict(op='tree', settings=settings, inputs=inputs)


def model_files(mo):
    """the output tree the model's writes produce (later writes to one path win)"""
    files = {}
    for w in mo['writes']: files[os.path.join(*w['path'])] = w['content']
    return files


# ---- declarative oracle (C13/C14/C15): which pages and toctrees must exist -------------------------------------------
def iscm(f): return f.lower().endswith('.cmake')


def spec_walk(children, rel, excl, rec, auto, out, order):
    """Processed(d): root; with -r a non-excluded sub-directory of a processed... (see DESIGN C13).  `excl(relcomps,isdir)`.
    Fills out[path] = toctree list (for index pages) or None (for file pages); `order` gets processed files in walk order."""
    files = [c['name'] for c in children if 'children' not in c and not excl(rel + [c['name']], False)]
    subs = [c for c in children if 'children' in c and not excl(rel + [c['name']], True)]
    if auto:
        subs = [c for c in subs if any(('children' not in x) and x['name'].endswith('.cmake') and not excl(rel + [c['name'], x['name']], False)
                                       for x in c['children'])]
        if not any(f.endswith('.cmake') for f in files):
            if rec:
                for c in subs: spec_walk(c['children'], rel + [c['name']], excl, rec, auto, out, order)
            return
    toc = []
    if rec: toc += [c['name'] + '/index.rst' for c in sorted(subs, key=lambda c: c['name'])]
    toc += ['.'.join(f.split('.')[:-1]) for f in sorted(files) if iscm(f)]
    out[os.path.join(*(rel + ['index.rst']))] = toc
    for f in sorted(files):
        if iscm(f):
            out[os.path.join(*(rel + ['.'.join(f.split('.')[:-1]) + '.rst']))] = None
            order.append(rel + [f])
    if rec:
        for c in subs: spec_walk(c['children'], rel + [c['name']], excl, rec, auto, out, order)


def parse_toctree(text):
    lines = text.split('\n')
    try: i = lines.index('   :maxdepth: 2')
    except ValueError: return None
    return [l[3:] for l in lines[i + 1:] if l.startswith('   ') and l.strip()]


def title_of(text):
    lines = text.split('\n')
    return lines[2] if len(lines) > 3 else None


def module_line(text):
    for l in text.split('\n'):
        if l.startswith('.. module:: '): return l[len('.. module:: '):]
    return None
