"""C19: cminx_gen_rst() driven by the real `cmake -P` — (a) a recorder as CMINX_EXECUTABLE: argv vs the Lean `genArgv`;
(b) the working-tree CMinx as CMINX_EXECUTABLE: output tree vs a direct command-line run; (c) failing inputs must make
cmake fail."""
import json, os, random, shutil, stat, subprocess, sys, time

import common, impl, s_tree as T

CMAKE_MODULE = os.path.join(common.REPO, 'cmake', 'cminx.cmake')
PY = sys.executable
EXTRA_GROUPS = [['-p', 'PFX'], ['-p', 'my.pre'], ['-e', 'sub/'], ['-e', '*.txt'], ['-e', 'a.cmake', '-e', 'b.cmake'], ['-s', '{SFILE}'],
                ['--prefix', 'L'], ['-e', 'deep/'], ['-p', 'my prefix'], ['-e', 'dir with space/'], ['-p', 'quo"te'], ['-p', '$dollar{x}'],
                ['-e', '#hash'], ['-p', 'back\\slash'], ['-p', 'VERBOSE'], ['-e', 'QUIET'], ['-p', 'ARGN', '-e', 'TARGETS'],      # words that are keywords to (other) CMake commands; execute_process's own keywords: known finding K11
                ['-p', 'Docs-NOTFOUND'], ['-e', '*-NOTFOUND'], ['--prefix=X-NOTFOUND'], ['-p', 'OFF'], ['-p', '0']]
FALSE_CONSTANT_GROUPS = [['-p', 'Docs-NOTFOUND'], ['-e', '*-NOTFOUND'], ['--prefix=X-NOTFOUND'], ['-p', 'x', '-e', 'pkg-NOTFOUND']]   # ARGN is then false as a CMake condition


def cq(s):
    """a CMake quoted argument"""
    return '"' + s.replace('\\', '\\\\').replace('"', '\\"').replace('$', '\\$').replace(';', '\;') + '"'


def cq_raw(s):
    """quoted argument that keeps ';' as written (to exercise CMake's list flattening, K5)"""
    return '"' + s.replace('\\', '\\\\').replace('"', '\\"').replace('$', '\\$') + '"'


def write_exec(path, body):
    with open(path, 'w') as f: f.write(body)
    os.chmod(path, os.stat(path).st_mode | stat.S_IXUSR | stat.S_IXGRP | stat.S_IXOTH)


def recorder(sb_dir, status=0):
    rec = os.path.join(sb_dir, 'recorder.py'); log = os.path.join(sb_dir, 'argv.json')
    write_exec(rec, f"#!{PY}\nimport sys, json\njson.dump(sys.argv[1:], open({log!r}, 'w'))\nsys.exit({status})\n")
    return rec, log


def cminx_exe(sb_dir):
    exe = os.path.join(sb_dir, 'cminx_wt.py')
    write_exec(exe, f"#!{PY}\nimport sys, warnings\nwarnings.filterwarnings('ignore')\nsys.path.insert(0, {common.REPO_SRC!r})\nfrom cminx import main\nsys.exit(main())\n")      # exactly what the installed console script does: main() with its default arguments
    return exe


def gen_call(inp, outp, extra, raw=False):
    q = cq_raw if raw else cq
    return f'cminx_gen_rst({cq(inp)} {cq(outp)} {" ".join(q(e) for e in extra)})'


def run_cmake(sb_dir, exe, inp, outp, extra, raw=False, mode='script', ctx='top', calls=None, keep=False):
    """mode 'script': cmake -P; 'project': an out-of-source configure of a project whose CMakeLists.txt makes the call (the working
    directory, against which relative paths are meant, is then neither the source nor the build directory).  `calls`: the CMake text
    of a whole sequence of calls instead of the one call; `keep`: configure the build directory of the previous run again"""
    call = calls or gen_call(inp, outp, extra, raw)
    if ctx in ('function', 'macro'):
        # the call sits in a helper that itself received more arguments than it passes on (ARGV<n>/ARGN of the caller must not leak in)
        call = f'{ctx}(docs_helper first second)\n  {call}\nend{ctx}()\ndocs_helper(one two three -p LEAKED nightly "" x)'
    body = f'set(CMINX_EXECUTABLE {cq(exe)})\ninclude({cq(CMAKE_MODULE)})\n{call}\nmessage(STATUS "configure continues")\n'
    env = dict(os.environ, HOME=os.path.join(sb_dir, 'home'), XDG_CONFIG_HOME=os.path.join(sb_dir, 'home', '.config'))
    env.pop('CMINXDIR', None)
    if mode == 'project':
        psrc = os.path.join(sb_dir, '+psrc+'); pbuild = os.path.join(sb_dir, '+pbuild+')
        if not keep: shutil.rmtree(psrc, ignore_errors=True); shutil.rmtree(pbuild, ignore_errors=True)
        os.makedirs(psrc, exist_ok=True)
        with open(os.path.join(psrc, 'CMakeLists.txt'), 'w') as f:
            f.write('cmake_minimum_required(VERSION 3.19)\nproject(drive LANGUAGES NONE)\n' + body)
        cmd = ['cmake', '-S', psrc, '-B', pbuild]
    else:
        script = os.path.join(sb_dir, 'drive.cmake')
        with open(script, 'w') as f: f.write(body)
        cmd = ['cmake', '-P', script]
    p = subprocess.run(cmd, capture_output=True, text=True, cwd=sb_dir, env=env, timeout=120)
    return p.returncode, p.stdout + p.stderr


def run_cli(sb_dir, exe, args):
    env = dict(os.environ, HOME=os.path.join(sb_dir, 'home'), XDG_CONFIG_HOME=os.path.join(sb_dir, 'home', '.config'))
    env.pop('CMINXDIR', None)
    p = subprocess.run([exe] + args, capture_output=True, text=True, cwd=sb_dir, env=env, timeout=120)
    return p.returncode


KINDS = ['dir', 'nested', 'file', 'missing', 'syntax-error', 'nested']


def gen_input(g, sb_dir, kind):
    base = os.path.join(sb_dir, g.choice(['src', 'src dir', 'sr$c', 'rel:2.0', 'a:b c'])); os.makedirs(base, exist_ok=True)      # ':' is an ordinary character of a POSIX path
    if kind in ('dir', 'nested'):
        ch = T.gen_dir(g, 0, max_depth=2 if kind == 'nested' else 0, want_cmake=True)
        p = os.path.join(base, g.choice(['proj', 'my.mod'])); T.materialize(p, ch); return kind, p, True
    if kind == 'file':
        p = os.path.join(base, 'one.cmake'); open(p, 'w').write(T.file_content(g, 'one.cmake')); return kind, p, False
    if kind == 'missing': return kind, os.path.join(base, 'does_not_exist'), False
    p = os.path.join(base, 'bad'); os.makedirs(p); open(os.path.join(p, 'bad.cmake'), 'w').write('set(x "unterminated)\n'); return kind, p, True


def cmake_suite(seed, count, out, drv, budget_s=None, only=None):
    if not shutil.which('cmake'): raise common.HarnessError('cmake not installed')
    t0 = time.time(); done = 0
    for n in (range(count) if only is None else [only]):
        if budget_s and time.time() - t0 > budget_s:
            out.notes.append(f"cmake suite stopped at {done}/{count} (time budget)"); break
        g = random.Random(f"C19/{seed}/{n}")
        with impl.Sandbox() as sb:
            os.makedirs(os.path.join(sb.dir, 'home', '.config'))
            kind, inp, is_dir = gen_input(g, sb.dir, KINDS[(n // 4) % len(KINDS)])      # the grid kind x mode x relative is walked systematically
            sfile = os.path.join(sb.dir, 's.yaml'); open(sfile, 'w').write('rst:\n  module_path_separator: "/"\n')
            extra = []
            for grp in g.sample(EXTRA_GROUPS, g.choice([0, 0, 1, 1, 2, 3])):
                extra += [x.replace('{SFILE}', sfile) for x in grp]
            if n % 6 == 5: extra += g.choice(FALSE_CONSTANT_GROUPS)
            mode = ['script', 'project'][n % 2]; rel = (n // 2) % 2 == 1; ctx = ['top', 'function', 'top', 'macro', 'function'][n % 5]
            if rel: inp = os.path.relpath(inp, sb.dir)        # relative to the working directory of both cmake and the direct run
            key = ('C19', seed, n); rec = dict(suite='cmake', key=key, kind=kind, extra=extra, mode=mode, relative_input=rel, call_context=ctx)
            out.dist['call-context:' + ctx] += 1
            out.dist['mode:' + mode] += 1; out.dist['input-path:' + ('relative' if rel else 'absolute')] += 1
            out.note_case(key, True); out.dist['input:' + kind] += 1; out.dist['extra-groups:%d' % (len(extra) // 2)] += 1
            out.sample(dict(suite='cmake', input_kind=kind, extra=extra))
            # (a) recorder: argv as CMake builds it vs the model
            r_exe, log = recorder(sb.dir)
            outa = os.path.join(sb.dir, g.choice(['out_a', 'out a', 'api:v2']))
            rc, txt = run_cmake(sb.dir, r_exe, inp, outa, extra, mode=mode, ctx=ctx)
            out.traces_validated += 1
            argv = json.load(open(log)) if os.path.exists(log) else None
            mo = drv.run([dict(op='cmakewrap', is_dir=is_dir, input=inp, output=outa, extra=extra)])[0]
            if argv != mo['argv']:
                out.disagreements.append(dict(rec, detail=dict(kind='argv built by cminx_gen_rst', model=mo['argv'], real=argv, cmake_output=txt[-300:])))
            want = [inp, '-o', outa] + extra + (['-r'] if is_dir else [])
            if argv is None or sorted(argv) != sorted(want) or ('-r' in argv) != is_dir:
                out.violations.append(dict(rec, detail=dict(kind='arguments not forwarded verbatim / -r not iff directory', expected_multiset=want, real=argv), model_agrees=argv == mo['argv']))
            # (b) the working-tree CMinx through CMake vs directly
            exe = cminx_exe(sb.dir)
            outb = os.path.join(sb.dir, 'out_b'); outc = os.path.join(sb.dir, 'out_c')
            rcb, txtb = run_cmake(sb.dir, exe, inp, outb, extra, mode=mode, ctx=ctx)
            rcc = run_cli(sb.dir, exe, [inp, '-o', outc] + extra + (['-r'] if is_dir else []))
            out.traces_validated += 2
            tb, tc = T.read_tree(outb), T.read_tree(outc)
            if kind in ('missing', 'syntax-error'):
                out.dist['failing-input:cmake-rc=%d' % rcb] += 1
                if rcb == 0 or 'configure continues' in txtb:
                    out.violations.append(dict(rec, detail=dict(kind='CMinx failed but the CMake call did not fail fatally', cli_status=rcc, cmake_status=rcb, output=txtb[-400:]), model_agrees=True))
            else:
                if rcb != 0 or rcc != 0:
                    out.violations.append(dict(rec, detail=dict(kind='valid input failed', cmake_status=rcb, cli_status=rcc, output=txtb[-400:]), model_agrees=True))
                elif tb != tc:
                    diff = sorted(set(tb) ^ set(tc)) or [p for p in tb if tb[p] != tc.get(p)]
                    out.violations.append(dict(rec, detail=dict(kind='output tree through cminx_gen_rst differs from the command line', paths=diff[:6]), model_agrees=True))
            # (c) a failing child must be fatal
            if n % 2 == 0:
                how = ['status-3', 'no-such-executable', 'status-255', 'killed-by-signal'][(n // 2) % 4]
                if how == 'no-such-executable': f_exe = os.path.join(sb.dir, 'removed', 'cminx')
                elif how == 'killed-by-signal':
                    f_exe = os.path.join(sb.dir, 'dies.py')
                    write_exec(f_exe, f"#!{PY}\nimport os, signal\nos.kill(os.getpid(), signal.SIGKILL)\n")
                else: f_exe, _ = recorder(sb.dir, status=int(how.split('-')[1]))
                rcf, txtf = run_cmake(sb.dir, f_exe, inp, outa, extra, mode=mode, ctx=ctx)
                out.traces_validated += 1; out.dist['failing-child:' + how] += 1
                if rcf == 0 or 'configure continues' in txtf:
                    out.violations.append(dict(rec, detail=dict(kind='a failing cminx (' + how + ') was not fatal to the CMake run', cmake_status=rcf, output=txtf[-300:]), model_agrees=True))
        done += 1
    out.suites.append(dict(name='cmake', runs=done))


# ---- histories: several calls from one build directory, something the output depends on changed in between ---------------
SETTINGS_TEXTS = ['rst:\n  module_path_separator: "/"\n', 'rst:\n  prefix: draft\n', 'rst:\n  prefix: release\n  file_extensions_in_titles: true\n',
                  'input:\n  include_undocumented_function: false\n  include_undocumented_macro: false\n  include_undocumented_option: false\n',
                  'rst:\n  headers: ["=", "~", "^", "+", ":", ".", "-"]\n  file_extensions_in_modules: true\n', 'input:\n  exclude_filters: ["sub/", "a*"]\n',
                  'input:\n  auto_exclude_directories_without_cmake: false\nrst:\n  module_path_separator: "::"\n']
HIST_CLASSES = ['settings', 'edit-file', 'add-file', 'remove-file', 'remove-output', 'remove-page', 'user-config', 'same', 'other-extras',
                'other-output', 'break-repair', 'edit-keep-mtime']
BAD_TAIL = '\nset(x "unterminated)\n'


def apply_ops(ops, outs):
    """the changes between two calls, as data (also executed by the hook that runs between two calls of ONE CMake run, hence self-contained)"""
    import os, shutil
    for op in ops:
        if op[0] == 'write':
            os.makedirs(os.path.dirname(op[1]), exist_ok=True)
            with open(op[1], 'wb') as f: f.write(op[2].encode('utf-8'))
        elif op[0] == 'append':          # op[3]: the file keeps its old modification time (restored from an archive, rsync -t)
            st = os.stat(op[1])
            with open(op[1], 'ab') as f: f.write(op[2].encode('utf-8'))
            if op[3]: os.utime(op[1], ns=(st.st_atime_ns, st.st_mtime_ns))
        elif op[0] == 'chop':
            with open(op[1], 'rb+') as f: f.truncate(os.path.getsize(op[1]) - op[2])
        elif op[0] == 'rm': os.unlink(op[1])
        elif op[0] == 'rm-output': shutil.rmtree(outs[op[1]], ignore_errors=True)
        elif op[0] == 'rm-page':
            pages = sorted(os.path.join(r, f) for r, _, fs in os.walk(outs[op[1]]) for f in fs)
            if pages: os.unlink(pages[op[2] % len(pages)])


def gen_history(g, first, inp_abs, is_dir, sfile, ucfg, extra, one_run):
    """steps = [dict(ops, extra, o)]: before call k the changes ops are made, then cminx_gen_rst(<input> <output o> extra) is called"""
    files = sorted(os.path.join(r, f) for r, _, fs in os.walk(inp_abs) for f in fs if f.lower().endswith('.cmake')) if is_dir else [inp_abs]
    dirs = [r for r, _, _ in os.walk(inp_abs)] if is_dir else []
    steps = [dict(ops=[], extra=extra, o=0, what='first')]
    cur_s = 0; n_add = 0
    for c in [first] + [g.choice(HIST_CLASSES) for _ in range(g.choice([1, 1, 2, 2]))]:
        if c == 'settings' and sfile not in extra: c = 'user-config'
        if c in ('add-file', 'remove-file') and (not is_dir or (c == 'remove-file' and len(files) < 2)): c = 'edit-file'
        if c == 'break-repair' and one_run: c = 'edit-keep-mtime'       # a fatal error ends the run: nothing to observe after it
        st = dict(ops=[], extra=extra, o=0, what=c)
        if c == 'settings':
            cur_s = g.choice([i for i in range(len(SETTINGS_TEXTS)) if i != cur_s]); st['ops'] = [['write', sfile, SETTINGS_TEXTS[cur_s]]]
        elif c == 'user-config': st['ops'] = [['write', ucfg, g.choice(SETTINGS_TEXTS[1:])]]
        elif c in ('edit-file', 'edit-keep-mtime'):
            k = g.randint(0, 999); st['ops'] = [['append', g.choice(files), f'\n#[[[\n# Added later ({k}).\n#]]\nfunction(later_{k} x)\nendfunction()\n', c == 'edit-keep-mtime']]
        elif c == 'add-file':
            n_add += 1; p = os.path.join(g.choice(dirs), f'added{n_add}.cmake'); files.append(p)
            st['ops'] = [['write', p, f'#[[[\n# A file that was not there at the last call.\n#]]\nmacro(added_{n_add} y)\nendmacro()\n']]
        elif c == 'remove-file':
            p = g.choice(files); files.remove(p); st['ops'] = [['rm', p]]
        elif c == 'remove-output': st['ops'] = [['rm-output', 0]]
        elif c == 'remove-page': st['ops'] = [['rm-page', 0, g.randint(0, 50)]]
        elif c == 'other-extras': st['extra'] = extra + g.choice([['-p', 'other'], ['-e', 'added*'], ['--prefix', 'v2']])
        elif c == 'other-output': st['o'] = 1
        elif c == 'break-repair':
            p = g.choice(files); st['ops'] = [['append', p, BAD_TAIL, False]]
            steps.append(st); st = dict(ops=[['chop', p, len(BAD_TAIL)]], extra=extra, o=0, what='repaired')
        steps.append(st)
        if c in ('other-extras', 'other-output'): steps.append(dict(ops=[], extra=extra, o=0, what='back to the first call'))
    return steps


def history_suite(seed, count, out, drv, budget_s=None, only=None):
    """the same oracle as (b)/(c) of cmake_suite, per step of a history: a direct command-line history (same changes, own output
    directories) is recorded first, the inputs are put back, then CMake replays it -- one configure per step in one build directory,
    or all calls in ONE run with a hook making the changes in between"""
    if not shutil.which('cmake'): raise common.HarnessError('cmake not installed')
    import inspect
    t0 = time.time(); done = 0
    for n in (range(count) if only is None else [only]):
        if budget_s and time.time() - t0 > budget_s:
            out.notes.append(f"cmake history suite stopped at {done}/{count} (time budget)"); break
        g = random.Random(f"C19h/{seed}/{n}")
        with impl.Sandbox() as sb:
            home = os.path.join(sb.dir, 'home'); ucfg = os.path.join(home, '.config', 'cminx', 'config.yaml'); os.makedirs(os.path.dirname(ucfg))
            q, r = divmod(n, len(HIST_CLASSES)); first = HIST_CLASSES[r]          # every class opens a history; round q walks form x mode for it
            one_run = (r // 2 + q // 2) % 2 == 1; mode = ['script', 'project'][(r + q) % 2]
            kind = 'nested' if first in ('add-file', 'remove-file') else ['nested', 'dir', 'file', 'nested', 'dir'][n % 5]
            kind, inp_abs, is_dir = gen_input(g, sb.dir, kind); inp = inp_abs
            if (n // 4) % 2 == 1: inp = os.path.relpath(inp_abs, sb.dir)
            ctx = ['top', 'function', 'top', 'macro'][(n // 3) % 4]
            sfile = os.path.join(sb.dir, 's.yaml'); open(sfile, 'w').write(SETTINGS_TEXTS[0])
            extra = []
            for grp in g.sample([x for x in EXTRA_GROUPS if '{SFILE}' not in x], g.choice([0, 0, 1, 1, 2])): extra += grp
            if first == 'settings' or g.random() < 0.5: extra = extra + ['-s', sfile] if g.random() < 0.5 else ['-s', sfile] + extra
            steps = gen_history(g, first, inp_abs, is_dir, sfile, ucfg, extra, one_run)
            key = ('C19h', seed, n); rec = dict(suite='cmake-history', key=key, kind=kind, extra=extra, mode=mode, relative_input=inp != inp_abs, call_context=ctx,
                                                 form='one-run' if one_run else 'configure-again', history=[s['what'] for s in steps])
            out.note_case(key, True); out.dist['history:' + rec['form']] += 1; out.dist['history-mode:' + mode] += 1; out.dist['history-input:' + kind] += 1
            for s in steps: out.dist['history-step:' + s['what']] += 1
            out.sample(dict(suite='cmake-history', input_kind=kind, extra=extra, history=rec['history']), limit=6)
            exe = cminx_exe(sb.dir)
            outs_b = [os.path.join(sb.dir, 'out_b'), os.path.join(sb.dir, 'out_b2')]; outs_c = [os.path.join(sb.dir, 'out_c'), os.path.join(sb.dir, 'out_c2')]
            world = [os.path.join(sb.dir, os.path.relpath(inp_abs, sb.dir).split(os.sep)[0]), sfile, home]        # all that the changes touch, outputs aside
            bak = os.path.join(sb.dir, '+backup+'); os.makedirs(bak)
            for i, w in enumerate(world): (shutil.copytree if os.path.isdir(w) else shutil.copy2)(w, os.path.join(bak, str(i)))
            # 1. what the command line produces at every moment of the history
            cli = []; prev = None
            for s in steps:
                apply_ops(s['ops'], outs_c)
                rcc = run_cli(sb.dir, exe, [inp, '-o', outs_c[s['o']]] + s['extra'] + (['-r'] if is_dir else []))
                trees = [T.read_tree(o) for o in outs_c]; cli.append((rcc, trees))
                if prev is not None and s['ops'] and s['o'] == 0 and rcc == 0: out.dist['history-step-changes-output:' + str(trees[0] != prev)] += 1
                if rcc == 0 and s['o'] == 0: prev = trees[0]
            out.traces_validated += len(steps)
            # 2. everything back to the beginning
            for i, w in enumerate(world):
                if os.path.isdir(w): shutil.rmtree(w); shutil.copytree(os.path.join(bak, str(i)), w)
                else: shutil.copy2(os.path.join(bak, str(i)), w)
            # 3. the same history through cminx_gen_rst()
            got = []        # per step: (cmake status, fatal?, trees of both outputs after the call, cmake's text)
            if one_run:
                hist = os.path.join(sb.dir, '+hist+.json'); snap = os.path.join(sb.dir, '+snap+'); hook = os.path.join(sb.dir, 'between.py')
                json.dump(dict(steps=steps, outs=outs_b, snap=snap), open(hist, 'w'))
                write_exec(hook, f"#!{PY}\nimport json, os, shutil, sys\n{inspect.getsource(apply_ops)}\nk = int(sys.argv[1]); H = json.load(open({hist!r}))\n"
                                 "for i, o in enumerate(H['outs']):\n    if os.path.isdir(o): shutil.copytree(o, os.path.join(H['snap'], '%d.%d' % (k - 1, i)))\n"
                                 "apply_ops(H['steps'][k]['ops'], H['outs'])\n")
                calls = '\n'.join((f'execute_process(COMMAND {cq(hook)} {k} COMMAND_ERROR_IS_FATAL ANY)\n' if k else '') + gen_call(inp, outs_b[s['o']], s['extra'])
                                  for k, s in enumerate(steps))
                rcb, txtb = run_cmake(sb.dir, exe, inp, None, None, mode=mode, ctx=ctx, calls=calls)
                fatal = rcb != 0 and 'configure continues' not in txtb
                for k in range(len(steps)):
                    last = k == len(steps) - 1
                    trees = [T.read_tree(o if last else os.path.join(snap, '%d.%d' % (k, i))) for i, o in enumerate(outs_b)]
                    got.append((rcb, fatal, trees, txtb))
            else:
                for k, s in enumerate(steps):
                    apply_ops(s['ops'], outs_b)
                    rcb, txtb = run_cmake(sb.dir, exe, inp, outs_b[s['o']], s['extra'], mode=mode, ctx=ctx, keep=k > 0)
                    got.append((rcb, rcb != 0 and 'configure continues' not in txtb, [T.read_tree(o) for o in outs_b], txtb))
            out.traces_validated += len(steps)
            for k, (s, (rcc, tc), (rcb, fatal, tb, txtb)) in enumerate(zip(steps, cli, got)):
                r = dict(rec, step=k, change_before_this_call=s['what'], ops=[o[:2] for o in s['ops']])
                if rcc != 0:
                    out.dist['history-failing-step:cmake-rc=%d' % rcb] += 1
                    if not fatal: out.violations.append(dict(r, detail=dict(kind='CMinx failed but the CMake call did not fail fatally', cli_status=rcc, cmake_status=rcb, output=txtb[-400:]), model_agrees=True))
                    if one_run: break
                elif rcb != 0 and (not one_run or all(c[0] == 0 for c in cli)):
                    out.violations.append(dict(r, detail=dict(kind='valid input failed', cmake_status=rcb, cli_status=rcc, output=txtb[-400:]), model_agrees=True)); break
                elif tb != tc:
                    i = 0 if tb[0] != tc[0] else 1
                    diff = sorted(set(tb[i]) ^ set(tc[i])) or [p for p in tb[i] if tb[i][p] != tc[i].get(p)]
                    out.violations.append(dict(r, detail=dict(kind='output tree through cminx_gen_rst differs from the command line', paths=diff[:6], output_directory=i), model_agrees=True)); break
        done += 1
    out.suites.append(dict(name='cmake-history', runs=done))


def k5_witness(drv):
    with impl.Sandbox() as sb:
        os.makedirs(os.path.join(sb.dir, 'home', '.config'))
        r_exe, log = recorder(sb.dir)
        inp = os.path.join(sb.dir, 'x.cmake'); open(inp, 'w').write('set(a b)\n')
        rc, _ = run_cmake(sb.dir, r_exe, inp, os.path.join(sb.dir, 'o'), ['-e', 'a;b', '-e', ''], raw=True)
        argv = json.load(open(log)) if os.path.exists(log) else None
    return argv is not None and argv[1:-2] != ['-e', 'a;b', '-e', '']


def k11_witness(drv):
    """an extra argument that is one of execute_process()'s own keywords (COMMAND, OUTPUT_VARIABLE, ...) is not forwarded: the list is expanded
    unquoted inside execute_process(COMMAND ...), which takes the word for its keyword"""
    with impl.Sandbox() as sb:
        os.makedirs(os.path.join(sb.dir, 'home', '.config'))
        r_exe, log = recorder(sb.dir)
        inp = os.path.join(sb.dir, 'x.cmake'); open(inp, 'w').write('set(a b)\n')
        rc, _ = run_cmake(sb.dir, r_exe, inp, os.path.join(sb.dir, 'o'), ['-p', 'COMMAND'])
        argv = json.load(open(log)) if os.path.exists(log) else None
    return argv is None or argv[1:-2] != ['-p', 'COMMAND']


def replay(v, drv):
    """cases are a function of (seed, n): regenerate that one case and run it again"""
    from suites import Outcome
    key = v.get('key') or []
    if len(key) != 3: return dict(fails=True, note='no case key recorded')
    out = Outcome('C19')
    (history_suite if v.get('suite') == 'cmake-history' else cmake_suite)(key[1], key[2] + 1, out, drv, only=key[2])
    mine = [x for x in out.violations if x.get('detail', {}).get('kind') == v.get('detail', {}).get('kind')] or out.violations
    return dict(fails=bool(mine), violations=[x.get('detail') for x in mine][:3], case=dict(kind=v.get('kind'), mode=v.get('mode'), relative_input=v.get('relative_input'), extra=v.get('extra'), history=v.get('history')))
