"""C19: cminx_gen_rst() driven by the real `cmake -P` — (a) a recorder as CMINX_EXECUTABLE: argv vs the Lean `genArgv`;
(b) the working-tree CMinx as CMINX_EXECUTABLE: output tree vs a direct command-line run; (c) failing inputs must make
cmake fail."""
import json, os, random, shutil, stat, subprocess, sys, time

import common, impl, s_tree as T

CMAKE_MODULE = os.path.join(common.REPO, 'cmake', 'cminx.cmake')
PY = sys.executable
EXTRA_GROUPS = [['-p', 'PFX'], ['-p', 'my.pre'], ['-e', 'sub/'], ['-e', '*.txt'], ['-e', 'a.cmake', '-e', 'b.cmake'], ['-s', '{SFILE}'],
                ['--prefix', 'L'], ['-e', 'deep/'], ['-p', 'my prefix'], ['-e', 'dir with space/'], ['-p', 'quo"te'], ['-p', '$dollar{x}'],
                ['-e', '#hash'], ['-p', 'back\\slash'], ['-p', 'Docs-NOTFOUND'], ['-e', '*-NOTFOUND'], ['--prefix=X-NOTFOUND'], ['-p', 'OFF'], ['-p', '0']]
FALSE_CONSTANT_GROUPS = [['-p', 'Docs-NOTFOUND'], ['-e', '*-NOTFOUND'], ['--prefix=X-NOTFOUND'], ['-p', 'x', '-e', 'pkg-NOTFOUND']]   # ARGN is then false as a CMake condition


def cq(s):
    """a CMake quoted argument"""
    return '"' + s.replace('\\', '\\\\').replace('"', '\\"').replace('$', '\\$').replace(';', '\;') + '"'


def cq_raw(s):
    """quoted argument that keeps ';' as written (to exercise CMake's list flattening, K5)"""
    return '"' + s.replace('\\', '\\\\').replace('"', '\\"').replace('$', '\\$') + '"'


def write_exec(path, body):
    with open(path, 'w') as f: f.write(body)
    os.chmod(path, os.stat(path).st_mode | stat.S_IXUSR | stat.S_IXGRP | stat.S_IXOTH)


def recorder(sb_dir, status=0):
    rec = os.path.join(sb_dir, 'recorder.py'); log = os.path.join(sb_dir, 'argv.json')
    write_exec(rec, f"#!{PY}\nimport sys, json\njson.dump(sys.argv[1:], open({log!r}, 'w'))\nsys.exit({status})\n")
    return rec, log


def cminx_exe(sb_dir):
    exe = os.path.join(sb_dir, 'cminx_wt.py')
    write_exec(exe, f"#!{PY}\nimport sys, warnings\nwarnings.filterwarnings('ignore')\nsys.path.insert(0, {common.REPO_SRC!r})\nimport cminx\ncminx.main(sys.argv[1:])\n")
    return exe


def run_cmake(sb_dir, exe, inp, outp, extra, raw=False, mode='script', ctx='top'):
    """mode 'script': cmake -P; 'project': an out-of-source configure of a project whose CMakeLists.txt makes the call (the working
    directory, against which relative paths are meant, is then neither the source nor the build directory)"""
    q = cq_raw if raw else cq
    call = f'cminx_gen_rst({cq(inp)} {cq(outp)} {" ".join(q(e) for e in extra)})'
    if ctx in ('function', 'macro'):
        # the call sits in a helper that itself received more arguments than it passes on (ARGV<n>/ARGN of the caller must not leak in)
        call = f'{ctx}(docs_helper first second)\n  {call}\nend{ctx}()\ndocs_helper(one two three -p LEAKED nightly "" x)'
    body = f'set(CMINX_EXECUTABLE {cq(exe)})\ninclude({cq(CMAKE_MODULE)})\n{call}\nmessage(STATUS "configure continues")\n'
    env = dict(os.environ, HOME=os.path.join(sb_dir, 'home'), XDG_CONFIG_HOME=os.path.join(sb_dir, 'home', '.config'))
    env.pop('CMINXDIR', None)
    if mode == 'project':
        psrc = os.path.join(sb_dir, '+psrc+'); pbuild = os.path.join(sb_dir, '+pbuild+')
        shutil.rmtree(psrc, ignore_errors=True); shutil.rmtree(pbuild, ignore_errors=True); os.makedirs(psrc)
        with open(os.path.join(psrc, 'CMakeLists.txt'), 'w') as f:
            f.write('cmake_minimum_required(VERSION 3.19)\nproject(drive LANGUAGES NONE)\n' + body)
        cmd = ['cmake', '-S', psrc, '-B', pbuild]
    else:
        script = os.path.join(sb_dir, 'drive.cmake')
        with open(script, 'w') as f: f.write(body)
        cmd = ['cmake', '-P', script]
    p = subprocess.run(cmd, capture_output=True, text=True, cwd=sb_dir, env=env, timeout=120)
    return p.returncode, p.stdout + p.stderr


def run_cli(sb_dir, exe, args):
    env = dict(os.environ, HOME=os.path.join(sb_dir, 'home'), XDG_CONFIG_HOME=os.path.join(sb_dir, 'home', '.config'))
    env.pop('CMINXDIR', None)
    p = subprocess.run([exe] + args, capture_output=True, text=True, cwd=sb_dir, env=env, timeout=120)
    return p.returncode


KINDS = ['dir', 'nested', 'file', 'missing', 'syntax-error', 'nested']


def gen_input(g, sb_dir, kind):
    base = os.path.join(sb_dir, g.choice(['src', 'src dir', 'sr$c'])); os.makedirs(base, exist_ok=True)
    if kind in ('dir', 'nested'):
        ch = T.gen_dir(g, 0, max_depth=2 if kind == 'nested' else 0, want_cmake=True)
        p = os.path.join(base, g.choice(['proj', 'my.mod'])); T.materialize(p, ch); return kind, p, True
    if kind == 'file':
        p = os.path.join(base, 'one.cmake'); open(p, 'w').write(T.file_content(g, 'one.cmake')); return kind, p, False
    if kind == 'missing': return kind, os.path.join(base, 'does_not_exist'), False
    p = os.path.join(base, 'bad'); os.makedirs(p); open(os.path.join(p, 'bad.cmake'), 'w').write('set(x "unterminated)\n'); return kind, p, True


def cmake_suite(seed, count, out, drv, budget_s=None, only=None):
    if not shutil.which('cmake'): raise common.HarnessError('cmake not installed')
    t0 = time.time(); done = 0
    for n in (range(count) if only is None else [only]):
        if budget_s and time.time() - t0 > budget_s:
            out.notes.append(f"cmake suite stopped at {done}/{count} (time budget)"); break
        g = random.Random(f"C19/{seed}/{n}")
        with impl.Sandbox() as sb:
            os.makedirs(os.path.join(sb.dir, 'home', '.config'))
            kind, inp, is_dir = gen_input(g, sb.dir, KINDS[(n // 4) % len(KINDS)])      # the grid kind x mode x relative is walked systematically
            sfile = os.path.join(sb.dir, 's.yaml'); open(sfile, 'w').write('rst:\n  module_path_separator: "/"\n')
            extra = []
            for grp in g.sample(EXTRA_GROUPS, g.choice([0, 0, 1, 1, 2, 3])):
                extra += [x.replace('{SFILE}', sfile) for x in grp]
            if n % 6 == 5: extra += g.choice(FALSE_CONSTANT_GROUPS)
            mode = ['script', 'project'][n % 2]; rel = (n // 2) % 2 == 1; ctx = ['top', 'function', 'top', 'macro', 'function'][n % 5]
            if rel: inp = os.path.relpath(inp, sb.dir)        # relative to the working directory of both cmake and the direct run
            key = ('C19', seed, n); rec = dict(suite='cmake', key=key, kind=kind, extra=extra, mode=mode, relative_input=rel, call_context=ctx)
            out.dist['call-context:' + ctx] += 1
            out.dist['mode:' + mode] += 1; out.dist['input-path:' + ('relative' if rel else 'absolute')] += 1
            out.note_case(key, True); out.dist['input:' + kind] += 1; out.dist['extra-groups:%d' % (len(extra) // 2)] += 1
            out.sample(dict(suite='cmake', input_kind=kind, extra=extra))
            # (a) recorder: argv as CMake builds it vs the model
            r_exe, log = recorder(sb.dir)
            outa = os.path.join(sb.dir, g.choice(['out_a', 'out a']))
            rc, txt = run_cmake(sb.dir, r_exe, inp, outa, extra, mode=mode, ctx=ctx)
            out.traces_validated += 1
            argv = json.load(open(log)) if os.path.exists(log) else None
            mo = drv.run([dict(op='cmakewrap', is_dir=is_dir, input=inp, output=outa, extra=extra)])[0]
            if argv != mo['argv']:
                out.disagreements.append(dict(rec, detail=dict(kind='argv built by cminx_gen_rst', model=mo['argv'], real=argv, cmake_output=txt[-300:])))
            want = [inp, '-o', outa] + extra + (['-r'] if is_dir else [])
            if argv is None or sorted(argv) != sorted(want) or ('-r' in argv) != is_dir:
                out.violations.append(dict(rec, detail=dict(kind='arguments not forwarded verbatim / -r not iff directory', expected_multiset=want, real=argv), model_agrees=argv == mo['argv']))
            # (b) the working-tree CMinx through CMake vs directly
            exe = cminx_exe(sb.dir)
            outb = os.path.join(sb.dir, 'out_b'); outc = os.path.join(sb.dir, 'out_c')
            rcb, txtb = run_cmake(sb.dir, exe, inp, outb, extra, mode=mode, ctx=ctx)
            rcc = run_cli(sb.dir, exe, [inp, '-o', outc] + extra + (['-r'] if is_dir else []))
            out.traces_validated += 2
            tb, tc = T.read_tree(outb), T.read_tree(outc)
            if kind in ('missing', 'syntax-error'):
                out.dist['failing-input:cmake-rc=%d' % rcb] += 1
                if rcb == 0 or 'configure continues' in txtb:
                    out.violations.append(dict(rec, detail=dict(kind='CMinx failed but the CMake call did not fail fatally', cli_status=rcc, cmake_status=rcb, output=txtb[-400:]), model_agrees=True))
            else:
                if rcb != 0 or rcc != 0:
                    out.violations.append(dict(rec, detail=dict(kind='valid input failed', cmake_status=rcb, cli_status=rcc, output=txtb[-400:]), model_agrees=True))
                elif tb != tc:
                    diff = sorted(set(tb) ^ set(tc)) or [p for p in tb if tb[p] != tc.get(p)]
                    out.violations.append(dict(rec, detail=dict(kind='output tree through cminx_gen_rst differs from the command line', paths=diff[:6]), model_agrees=True))
            # (c) a failing child must be fatal
            if n % 2 == 0:
                how = ['status-3', 'no-such-executable', 'status-255', 'killed-by-signal'][(n // 2) % 4]
                if how == 'no-such-executable': f_exe = os.path.join(sb.dir, 'removed', 'cminx')
                elif how == 'killed-by-signal':
                    f_exe = os.path.join(sb.dir, 'dies.py')
                    write_exec(f_exe, f"#!{PY}\nimport os, signal\nos.kill(os.getpid(), signal.SIGKILL)\n")
                else: f_exe, _ = recorder(sb.dir, status=int(how.split('-')[1]))
                rcf, txtf = run_cmake(sb.dir, f_exe, inp, outa, extra, mode=mode, ctx=ctx)
                out.traces_validated += 1; out.dist['failing-child:' + how] += 1
                if rcf == 0 or 'configure continues' in txtf:
                    out.violations.append(dict(rec, detail=dict(kind='a failing cminx (' + how + ') was not fatal to the CMake run', cmake_status=rcf, output=txtf[-300:]), model_agrees=True))
        done += 1
    out.suites.append(dict(name='cmake', runs=done))


def k5_witness(drv):
    with impl.Sandbox() as sb:
        os.makedirs(os.path.join(sb.dir, 'home', '.config'))
        r_exe, log = recorder(sb.dir)
        inp = os.path.join(sb.dir, 'x.cmake'); open(inp, 'w').write('set(a b)\n')
        rc, _ = run_cmake(sb.dir, r_exe, inp, os.path.join(sb.dir, 'o'), ['-e', 'a;b', '-e', ''], raw=True)
        argv = json.load(open(log)) if os.path.exists(log) else None
    return argv is not None and argv[1:-2] != ['-e', 'a;b', '-e', '']


def replay(v, drv):
    """cases are a function of (seed, n): regenerate that one case and run it again"""
    from suites import Outcome
    key = v.get('key') or []
    if len(key) != 3: return dict(fails=True, note='no case key recorded')
    out = Outcome('C19')
    cmake_suite(key[1], key[2] + 1, out, drv, only=key[2])
    mine = [x for x in out.violations if x.get('detail', {}).get('kind') == v.get('detail', {}).get('kind')] or out.violations
    return dict(fails=bool(mine), violations=[x.get('detail') for x in mine][:3], case=dict(kind=v.get('kind'), mode=v.get('mode'), relative_input=v.get('relative_input'), extra=v.get('extra')))
