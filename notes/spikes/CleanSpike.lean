namespace Cm
abbrev Str := List Char

def lstripSet (cs : List Char) (s : Str) : Str := s.dropWhile (fun c => cs.contains c)
def rstripSet (cs : List Char) (s : Str) : Str := (lstripSet cs s.reverse).reverse
def numSpaces (last : Str) : Nat := (last.takeWhile (fun c => c != '#')).length
def dropOneSpace : Str → Str
  | ' ' :: t => t
  | s => s
def isWs (s : Str) : Bool := !s.isEmpty && s.all (fun c => c == ' ' || c == '\t')
def cleanLine (n : Nat) (line : Str) : Str :=
  dropOneSpace (lstripSet ['#','[',']'] (line.drop n))
def joinNl : List Str → Str
  | [] => []
  | [l] => l
  | l :: ls => l ++ '\n' :: joinNl ls
def mapLast (f : Str → Str) : List Str → List Str
  | [] => []
  | [l] => [f l]
  | l :: ls => l :: mapLast f ls
def cleanDocLines (lines : List Str) : Str :=
  let n := numSpaces (lines.getLastD [])
  let cl := mapLast (rstripSet ['#',']']) (lines.map (cleanLine n))
  match joinNl cl with
  | '\n' :: t => t
  | d => d

/-- canonical body line -/
def bodyLine (ind : Str) (t : Str) : Str := ind ++ '#' :: (if t.isEmpty then [] else ' ' :: t)
def canon (ind : Str) (body : List Str) : List Str :=
  "#[[[".toList :: (body.map (bodyLine ind) ++ [ind ++ "#]]".toList])

def IndOk (ind : Str) : Prop := ∀ c ∈ ind, c = ' ' ∨ c = '\t'

theorem numSpaces_ind (ind rest : Str) (h : IndOk ind) : numSpaces (ind ++ '#' :: rest) = ind.length := by
  induction ind with
  | nil => simp [numSpaces]
  | cons c cs ih =>
    have hc : c = ' ' ∨ c = '\t' := h c (by simp)
    have hcs : IndOk cs := fun d hd => h d (by simp [hd])
    have := ih hcs
    rcases hc with rfl | rfl <;> simp_all [numSpaces, List.takeWhile]

theorem cleanLine_body (ind t : Str) : cleanLine ind.length (bodyLine ind t) = t := by
  unfold cleanLine bodyLine
  rw [List.drop_left]
  by_cases ht : t.isEmpty
  · have : t = [] := by simpa using ht
    subst this; simp [lstripSet, dropOneSpace]
  · simp [ht, lstripSet, List.dropWhile, dropOneSpace]
end Cm
