/-! Spike: maximal munch for unquoted arguments and first-terminator search, round-trip lemmas. -/
namespace LexSpike
abbrev Str := List Char

def isUnqChar (c : Char) : Bool :=
  !(c == ' ' || c == '\t' || c == '\r' || c == '\n' || c == '(' || c == ')' || c == '#' || c == '"' || c == '\\')

def asciiAlnum (c : Char) : Bool :=
  ('a' ≤ c && c ≤ 'z') || ('A' ≤ c && c ≤ 'Z') || ('0' ≤ c && c ≤ '9')

def escOk (c : Char) : Bool := (!asciiAlnum c) || c == 't' || c == 'r' || c == 'n'

/-- length of the longest prefix matching `(~[ \t\r\n()#"\\] | Escape_sequence)+` (0 = no match) -/
def unqLen : Str → Nat
  | [] => 0
  | c :: rest =>
    if c = '\\' then
      match rest with
      | [] => 0
      | d :: rest' => if escOk d then unqLen rest' + 2 else 0
    else if isUnqChar c then unqLen rest + 1 else 0

inductive UElem | ch (c : Char) (h : isUnqChar c = true) | esc (c : Char) (h : escOk c = true)

def UElem.text : UElem → Str
  | .ch c _ => [c]
  | .esc c _ => ['\\', c]
def utext (es : List UElem) : Str := (es.map UElem.text).flatten

theorem isUnqChar_ne_bs {c : Char} (h : isUnqChar c = true) : c ≠ '\\' := by
  intro hc; subst hc; simp [isUnqChar] at h

/-- maximal munch stops exactly at the end of the abstract argument when `rest` cannot continue it -/
theorem unqLen_utext (es : List UElem) (rest : Str) (h : unqLen rest = 0) :
    unqLen (utext es ++ rest) = (utext es).length := by
  induction es with
  | nil => simpa [utext] using h
  | cons e es ih =>
    cases e with
    | ch c hc =>
      have hne := isUnqChar_ne_bs hc
      simp only [utext, List.map_cons, List.flatten_cons, UElem.text, List.cons_append, List.nil_append,
        List.length_cons] at ih ⊢
      rw [unqLen.eq_def]; simp [hne, hc, ih]
    | esc c hc =>
      simp only [utext, List.map_cons, List.flatten_cons, UElem.text, List.cons_append, List.nil_append,
        List.length_cons] at ih ⊢
      rw [unqLen.eq_def]; simp [hc, ih]

/-- first occurrence of `pat` -/
def findSub (pat : Str) : Str → Option Nat
  | [] => if pat.isEmpty then some 0 else none
  | c :: cs => if pat.isPrefixOf (c :: cs) then some 0 else (findSub pat cs).map (· + 1)

theorem isPrefixOf_append_self (p r : Str) : p.isPrefixOf (p ++ r) = true := by
  induction p with
  | nil => simp
  | cons a p ih => simp [ih]

/-- a match that fits inside `s` does not depend on what follows `s` -/
theorem isPrefixOf_append_of_le (p s r : Str) (h : p.length ≤ s.length) :
    p.isPrefixOf (s ++ r) = p.isPrefixOf s := by
  induction p generalizing s with
  | nil => simp
  | cons a p ih =>
    cases s with
    | nil => simp at h
    | cons b s => simp at h; simp [List.isPrefixOf, ih s h]

/-- if the first occurrence of `pat` in `body ++ pat` is the final one, it is also the first in any extension -/
theorem findSub_append (pat body rest : Str) (hp : pat ≠ [])
    (h : findSub pat (body ++ pat) = some body.length) :
    findSub pat (body ++ pat ++ rest) = some body.length := by
  induction body with
  | nil =>
    cases pat with
    | nil => exact absurd rfl hp
    | cons a p =>
      have := isPrefixOf_append_self (a :: p) rest
      simp only [List.nil_append, List.cons_append] at this ⊢
      simp [findSub, this]
  | cons c cs ih =>
    simp only [List.cons_append, findSub, List.append_assoc] at h ⊢
    by_cases hpre : pat.isPrefixOf (c :: (cs ++ pat)) = true
    · simp [hpre] at h
    · have hlen : pat.length ≤ (c :: (cs ++ pat)).length := by simp; omega
      have hpre' : pat.isPrefixOf (c :: (cs ++ pat) ++ rest) = false := by
        rw [isPrefixOf_append_of_le _ _ _ hlen]; exact Bool.eq_false_iff.mpr hpre
      simp only [hpre, Bool.false_eq_true, if_false, Option.map_eq_some_iff] at h
      obtain ⟨k, hk, hk'⟩ := h
      have hk2 : k = cs.length := by simpa using hk'
      subst hk2
      simp only [List.cons_append, List.append_assoc] at hpre'
      have := ih hk
      simp only [List.append_assoc] at this
      simp [hpre', this]

#print axioms unqLen_utext
#print axioms findSub_append
end LexSpike
