/-! Spike: flat stack machine vs nested items. kwargs attribution only. -/
namespace Spike

inductive Item where
  | fn (doc : Bool) (name : Nat) (body : List Item)
  | cpa
  | blk (body : List Item)
  | other

inductive Ev where
  | fnOpen (doc : Bool) (name : Nat) | fnClose | cpa | other

mutual
def flat : Item → List Ev
  | .fn d n b => Ev.fnOpen d n :: (flats b ++ [Ev.fnClose])
  | .cpa => [Ev.cpa]
  | .blk b => Ev.other :: (flats b ++ [Ev.other])
  | .other => [Ev.other]
def flats : List Item → List Ev
  | [] => []
  | i :: is => flat i ++ flats is
end

mutual
def cpaDirect : Item → Bool
  | .cpa => true
  | .blk b => cpaDirects b
  | _ => false
def cpaDirects : List Item → Bool
  | [] => false
  | i :: is => cpaDirect i || cpaDirects is
end

structure Entry where
  name : Nat
  kw : Bool
deriving Repr, DecidableEq

mutual
def spec (inc : Bool) : Item → List Entry
  | .fn d n b => (if d || inc then [⟨n, cpaDirects b⟩] else []) ++ specs inc b
  | .blk b => specs inc b
  | _ => []
def specs (inc : Bool) : List Item → List Entry
  | [] => []
  | i :: is => spec inc i ++ specs inc is
end

structure St where
  docd : List Entry
  defs : List (Option Nat)
deriving Repr

def kwT (e : Entry) : Entry := { e with kw := true }
def setKw (l : List Entry) (i : Nat) : List Entry := l.modify i kwT

def step (inc : Bool) (st : St) : Ev → Option St
  | .fnOpen d n =>
      if d || inc then some { docd := st.docd ++ [⟨n, false⟩], defs := some st.docd.length :: st.defs }
      else some { st with defs := none :: st.defs }
  | .fnClose => match st.defs with
      | [] => none
      | _ :: ds => some { st with defs := ds }
  | .cpa => match st.defs with
      | some i :: _ => some { st with docd := setKw st.docd i }
      | _ => some st
  | .other => some st

def run (inc : Bool) : St → List Ev → Option St
  | st, [] => some st
  | st, e :: es => (step inc st e).bind (fun st' => run inc st' es)

theorem run_append (inc) (st : St) (a b : List Ev) :
    run inc st (a ++ b) = (run inc st a).bind (fun st' => run inc st' b) := by
  induction a generalizing st with
  | nil => simp [run]
  | cons e es ih =>
    simp only [List.cons_append, run]
    cases step inc st e <;> simp [ih]

/-- effect of a body on the top definition -/
def mark (docd : List Entry) (defs : List (Option Nat)) (b : Bool) : List Entry :=
  match defs, b with
  | some i :: _, true => setKw docd i
  | _, _ => docd

@[simp] theorem mark_false (l ds) : mark l ds false = l := by
  unfold mark; split <;> simp_all
@[simp] theorem mark_length (l ds b) : (mark l ds b).length = l.length := by
  unfold mark; split <;> simp [setKw]

theorem modify_append_lt {α} (f : α → α) (l m : List α) (i : Nat) (h : i < l.length) :
    (l ++ m).modify i f = l.modify i f ++ m := by
  induction l generalizing i with
  | nil => simp at h
  | cons a l ih => cases i with
    | zero => simp
    | succ i => simp at h; simp [ih i h]

theorem modify_append_len {α} (f : α → α) (l m : List α) (a : α) :
    (l ++ a :: m).modify l.length f = l ++ f a :: m := by
  induction l with
  | nil => simp
  | cons b l ih => simp [ih]

theorem kwT_idem : kwT ∘ kwT = kwT := by funext e; simp [kwT]

theorem mark_mark (l ds a b) : mark (mark l ds a) ds b = mark l ds (a || b) := by
  unfold mark
  rcases ds with _ | ⟨_ | i, ds⟩ <;> cases a <;> cases b <;> simp [setKw, List.modify_modify_eq, kwT_idem]

def WFst (st : St) : Prop := ∀ i, some i ∈ st.defs → i < st.docd.length

theorem mark_append (l m : List Entry) (ds b) (h : ∀ i, some i ∈ ds → i < l.length) :
    mark (l ++ m) ds b = mark l ds b ++ m := by
  unfold mark
  rcases ds with _ | ⟨_ | i, ds⟩ <;> cases b <;> simp [setKw]
  exact modify_append_lt _ _ _ _ (h i (by simp))

mutual
theorem run_flat (inc : Bool) (it : Item) (st : St) (h : WFst st) :
    run inc st (flat it) = some { docd := mark st.docd st.defs (cpaDirect it) ++ spec inc it, defs := st.defs } := by
  cases it with
  | cpa =>
    obtain ⟨docd, defs⟩ := st
    rcases defs with _ | ⟨_ | i, ds⟩ <;> simp [flat, run, step, cpaDirect, spec, mark]
  | other => obtain ⟨docd, defs⟩ := st; simp [flat, run, step, cpaDirect, spec]
  | blk b =>
    obtain ⟨docd, defs⟩ := st
    simp only [flat, run, step, Option.bind]
    rw [run_append, run_flats inc b _ h]
    simp [run, step, cpaDirect, spec]
  | fn d n b =>
    obtain ⟨docd, defs⟩ := st
    simp only [flat, run, step]
    by_cases hd : (d || inc) = true
    · simp only [hd, if_true, Option.bind]
      have hwf : WFst { docd := docd ++ [⟨n, false⟩], defs := some docd.length :: defs } := by
        intro i hi
        simp at hi
        rcases hi with rfl | hi
        · simp
        · have := h i hi; simp at this ⊢; omega
      rw [run_append, run_flats inc b _ hwf]
      simp only [Option.bind, run, step, cpaDirect, spec, hd, if_true, mark_false]
      congr 1
      simp only [St.mk.injEq, and_true]
      cases hb : cpaDirects b
      · simp
      · simp [mark, setKw, modify_append_len, kwT]
    · have hd' : (d || inc) = false := by simpa using hd
      simp only [hd', Option.bind, Bool.false_eq_true, if_false]
      have hwf : WFst { docd := docd, defs := none :: defs } := by
        intro i hi; simp at hi; exact h i hi
      rw [run_append, run_flats inc b _ hwf]
      simp [run, step, cpaDirect, spec, hd', mark]
theorem run_flats (inc : Bool) (its : List Item) (st : St) (h : WFst st) :
    run inc st (flats its) = some { docd := mark st.docd st.defs (cpaDirects its) ++ specs inc its, defs := st.defs } := by
  cases its with
  | nil => obtain ⟨docd, defs⟩ := st; simp [flats, run, cpaDirects, specs]
  | cons i is =>
    obtain ⟨docd, defs⟩ := st
    simp only [flats]
    rw [run_append, run_flat inc i _ h]
    have h2 : WFst { docd := mark docd defs (cpaDirect i) ++ spec inc i, defs := defs } := by
      intro k hk
      have := h k hk
      simp at this ⊢; omega
    simp only [Option.bind]
    rw [run_flats inc is _ h2]
    simp only [cpaDirects, specs]
    congr 1
    simp only [St.mk.injEq, and_true]
    rw [mark_append _ _ _ _ (by intro k hk; have := h k hk; simpa using this), mark_mark]
    simp
end

theorem agg_refines (inc : Bool) (its : List Item) :
    run inc ⟨[], []⟩ (flats its) = some ⟨specs inc its, []⟩ := by
  have := run_flats inc its ⟨[], []⟩ (by intro i hi; simp at hi)
  simpa [mark] using this

#print axioms agg_refines
end Spike
