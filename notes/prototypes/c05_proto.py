"""Argument boundaries: abstract args  vs  CMake 3.25 (--trace json)  vs  CMinx parse tree."""
import sys, os, random, json, subprocess, tempfile, re
sys.path.insert(0, os.environ.get('CMINX_SRC','/tmp/scratch/rc/src'))
from antlr4 import InputStream, CommonTokenStream
from cminx.parser.CMakeLexer import CMakeLexer
from cminx.parser.CMakeParser import CMakeParser
from cminx.parser import ParserErrorListener
R=random.Random(int(sys.argv[1])); N=int(sys.argv[2])
UCH=list("abcXYZ019_-./:;=+*%!?,<>@$[]{}~^&|'`é")
UESC=['\\(','\\)','\\#','\\"','\\ ','\\\\','\;','\\t','\\n','\\r','\\$','\\@','\\[']
QCH=list("abc xyz019_-./:;=+*%!?,<>@$[]{}()#~é\n\t")
def unq():
    while True:
        s=''.join(R.choice(UCH+UESC) if R.random()<0.85 else R.choice(UESC) for _ in range(R.randint(1,6)))
        if re.match(r'\[=*\[',s): continue
        if '$(' in s: continue
        return ('u',s,s)
def quoted():
    parts=[]; val=[]
    for _ in range(R.randint(0,6)):
        r=R.random()
        if r<0.7: c=R.choice(QCH); parts.append(c); val.append(c)
        elif r<0.9: e=R.choice(UESC); parts.append(e); val.append(e)
        else: parts.append('\\\n'); 
    return ('q','"'+''.join(parts)+'"',''.join(val))
def bracket():
    lvl=R.randint(0,2); close=']'+'='*lvl+']'
    while True:
        c=''.join(R.choice(list("ab ]=[\n#\"\\()x")) for _ in range(R.randint(0,7)))
        if close in c+close[:-1] or (c+close).find(close)!=len(c): continue
        if lvl==0 and False: continue
        break
    v=c[1:] if c.startswith('\n') else c
    return ('b','['+'='*lvl+'['+c+close, v)
def arg(depth=0):
    r=R.random()
    if r<0.45: return unq()
    if r<0.7: return quoted()
    if r<0.85: return bracket()
    if depth<2: return ('g',[arg(depth+1) for _ in range(R.randint(0,3))])
    return unq()
SEP=[' ','  ','\t','\n','\n  ',' # c\n',' #[[ bc ]] ','\n#[=[ x ]] ]=]\n']
def render_args(args):
    out=''
    for i,a in enumerate(args):
        if a[0]=='g':
            out+=R.choice(['',' ','\n'])+'('+render_args(a[1])+R.choice(['',' '])+')'+R.choice(['',' '])
        else:
            out+=R.choice(SEP)+a[1]+R.choice(['']+SEP)
            # CMake requires separation between consecutive non-paren args: ensured by leading SEP
    return out
def flat(args):
    o=[]
    for a in args:
        if a[0]=='g': o+=['(']+flat(a[1])+[')']
        else: o.append(a[2])
    return o
cases=[]; lines=['function(probe)\nendfunction()\n']
for n in range(N):
    args=[arg() for _ in range(R.randint(0,5))]
    txt='probe('+render_args(args)+')\n'
    cases.append((args,txt)); lines.append(txt)
d=tempfile.mkdtemp(); p=os.path.join(d,'p.cmake'); open(p,'w',encoding='utf-8',newline='').write(''.join(lines))
tr=os.path.join(d,'t.json')
r=subprocess.run(['cmake','--trace-format=json-v1','--trace-redirect='+tr,'-P',p],capture_output=True,text=True)
if r.returncode!=0: print('CMAKE FAILED',r.stderr[:600])
tl=[json.loads(l) for l in open(tr,encoding='utf-8') if '"cmd"' in l]
tl=[t for t in tl if t['cmd']=='probe']
print('cmake traced',len(tl),'of',N)
# cminx
lx=CMakeLexer(InputStream(''.join(lines))); ps=CMakeParser(CommonTokenStream(lx)); ps.removeErrorListeners(); ps.addErrorListener(ParserErrorListener())
tree=ps.cmake_file()
def cflat(ctx):
    o=[]
    for c in ctx.children:
        if isinstance(c,CMakeParser.Single_argumentContext):
            t=c.getText()
            if c.Quoted_argument(): t=t[1:-1].replace('\\\n','')
            elif c.Bracket_argument() or re.match(r'\[=*\[',t):
                m=re.match(r'\[(=*)\[',t); t=t[len(m.group(0)):-len(m.group(0))]; t=t[1:] if t.startswith('\n') else t
            o.append(t)
        elif isinstance(c,CMakeParser.Compound_argumentContext): o+=['(']+cflat(c)+[')']
    return o
cm=[cflat(c) for c in tree.command_invocation() if c.Identifier().getText()=='probe']
print('cminx commands',len(cm))
bad=0
for i,(args,txt) in enumerate(cases):
    exp=flat(args); a=tl[i]['args'] if i<len(tl) else None; b=cm[i] if i<len(cm) else None
    if a!=exp or b!=exp:
        bad+=1
        if bad<=6: print('DIFF',i,repr(txt)); print(' abstract',exp); print(' cmake   ',a); print(' cminx   ',b)
print('bad',bad)
import shutil; shutil.rmtree(d)
