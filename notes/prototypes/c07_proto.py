import sys, random, collections
sys.argv=[sys.argv[0]]+sys.argv[1:]
import importlib.util, os
os.environ.setdefault('CMINX_SRC','/tmp/scratch/rc/src')
import agg_proto_lib as A
import docutils.frontend, docutils.parsers.rst, docutils.utils, docutils.nodes
from docutils.parsers.rst import Directive, directives, roles
class Stub(Directive):
    has_content=True; optional_arguments=1; final_argument_whitespace=True
    option_spec={'value':directives.unchanged,'maxdepth':directives.unchanged}
    def run(self):
        n=docutils.nodes.container(); n['dname']=self.name
        self.state.nested_parse(self.content, self.content_offset, n); return [n]
for d in ['module','function','data','py:class','py:method','py:attribute','toctree']: directives.register_directive(d, Stub)
def role(name, rawtext, text, lineno, inliner, options={}, content=[]): return [docutils.nodes.literal(rawtext,text)],[]
for r in ['class','code']: roles.register_local_role(r, role)
def parse(text):
    st=docutils.frontend.get_default_settings(docutils.parsers.rst.Parser); st.report_level=5; st.halt_level=5
    doc=docutils.utils.new_document('<x>',settings=st); docutils.parsers.rst.Parser().parse(text,doc); return doc
seed=int(sys.argv[1]); N=int(sys.argv[2]); cnt=collections.Counter(); shown=0
GOOD=['text here','more text.',':param a: b','* item','','see [1]_ no wait','héllo ✓']
for n in range(N):
    A.R=random.Random(seed*100000+n)
    A.DOCLINES=None
    items=A.gen_items(0); out=[]; A.render(items,'',out); text='\n'.join(out)+'\n'
    got,rst,err=A.run(text,A.Settings())
    d=parse(rst)
    msgs=[m for m in d.findall(docutils.nodes.system_message) if m['level']>=3]
    top=[c for c in d.children]
    for m in msgs:
        k=m.astext().split('\n')[0][:70]; k=k.split(')')[1] if ')' in k else k
        cnt[k]+=1
        if shown<3 and 'Unexpected' not in k and 'nknown' not in k: shown+=1; print(m.astext()[:300]); print(rst[:1500])
print(cnt)
