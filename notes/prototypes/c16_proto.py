import sys, os, json, dataclasses, itertools, yaml, io, contextlib, logging
sys.path.insert(0, os.environ.get('CMINX_SRC','/tmp/scratch/rc/src'))
import cminx
HOME='/tmp/scratch/c16b/home'; os.environ['HOME']=HOME; os.environ['XDG_CONFIG_HOME']=HOME+'/.config'
os.chdir('/tmp/scratch/c16b/proj')
defaults=yaml.safe_load(open(os.path.join(os.path.dirname(cminx.__file__),'config_default.yaml')))
OPTS={ # path -> (user value, sfile value, cli flag+value or None)
 ('input','include_undocumented_function'):(False,True if False else False,None),
 ('input','recursive'):(True,True,['-r']),
 ('input','kwargs_doc_trigger_string'):(':u',':s',None),
 ('input','function_parameter_name_strip_regex'):('^u','^s',None),
 ('input','auto_exclude_directories_without_cmake'):(False,False,None),
 ('input','follow_symlinks'):(True,True,None),
 ('rst','prefix'):('U','S',['-p','C']),
 ('rst','module_path_separator'):('/','::',None),
 ('rst','headers'):(['a','b'],['c','d'],None),
 ('rst','file_extensions_in_titles'):(True,True,None),
 ('output','directory'):('uout','sout',['-o','cout']),
 ('input','exclude_filters'):(['u1'],['s1','s2'],['-e','c1','-e','c2']),
}
def run(args):
    cap=[]
    cminx.document=lambda f,s: cap.append(s)
    with contextlib.redirect_stdout(io.StringIO()):
        cminx.main(args)
    logging.disable(logging.NOTSET)
    return dataclasses.asdict(cap[0])
bad=0; n=0
for (sec,key),(uv,sv,cli) in OPTS.items():
    for useU,useS,useC,rel in itertools.product([0,1],[0,1],[0,1] if cli else [0],[0,1] if key=='directory' else [0]):
        uf=HOME+'/.config/cminx/config.yaml'; sf='/tmp/scratch/c16b/proj/cfg/s.yaml'
        ud={sec:{key:uv}} if useU else {}
        sd={sec:{key:sv}} if useS else {}
        if rel: sd.setdefault('output',{})['relative_to_config']=True
        open(uf,'w').write(yaml.safe_dump(ud) if ud else '')
        open(sf,'w').write(yaml.safe_dump(sd) if sd else '{}')
        args=['-s',sf]+(cli if useC else [])+['in']
        got=run(args)[sec][key]; n+=1
        if key=='exclude_filters':
            exp=(['c1','c2'] if useC else [])+(sv if useS else [])+(uv if useU else [])
        elif key=='directory':
            if useC: exp=os.path.abspath('cout')
            elif useS: exp=os.path.join('/tmp/scratch/c16b/proj/cfg' if rel else os.getcwd(),'sout')
            elif useU: exp=os.path.join(HOME+'/.config/cminx' if rel else os.getcwd(),'uout')
            else: exp=None
        else:
            exp = (True if key=='recursive' else 'C') if useC else (sv if useS else (uv if useU else defaults[sec].get(key)))
        if got!=exp: bad+=1; print('DIFF',sec,key,'U',useU,'S',useS,'C',useC,'rel',rel,'got',got,'exp',exp)
print('runs',n,'bad',bad)
