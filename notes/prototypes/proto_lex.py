import sys, random, glob, io, contextlib
sys.path.insert(0,'/repo/src')
from antlr4 import InputStream, Token
from antlr4.error.ErrorListener import ErrorListener
from cminx.parser.CMakeLexer import CMakeLexer

NAMES = ['LP','RP','Module_docstring','Docstring','Doccomment_start','Blockcomment_end','Identifier','Unquoted_argument','Escape_sequence','Quoted_argument','Bracket_argument','Bracket_comment','Line_comment','Newline','Space']
def is_alnum(c): return c.isascii() and c.isalnum()
def esc_ok(s,i):
    # s[i]=='\\'; returns True if valid 2-char escape
    if i+1>=len(s): return False
    c=s[i+1]
    return (not is_alnum(c) and c!=';') or c in 'trn' or c==';'
def find(s, pat, start):
    j=s.find(pat,start); return None if j<0 else j+len(pat)
def bracket_close(s,i):
    # s[i]=='[' ; returns end of bracket argument or None
    n=len(s); j=i+1; eq=0
    while j<n and s[j]=='=': eq+=1; j+=1
    if j>=n or s[j]!='[': return None
    return find(s, ']'+'='*eq+']', j+1)
def cands(s,i):
    n=len(s); c=s[i]; out=[None]*15
    if c=='(': out[0]=i+1
    if c==')': out[1]=i+1
    if s.startswith('#[[[',i):
        out[4]=i+4
        out[3]=find(s,'#]]',i+4)
        j=i+4
        while j<n and s[j] in ' \t': j+=1
        if s.startswith('@module',j): out[2]=find(s,'#]]',j+7)
    if s.startswith('#]]',i): out[5]=i+3
    if c.isascii() and (c.isalpha() or c=='_'):
        j=i+1
        while j<n and (is_alnum(s[j]) or s[j]=='_'): j+=1
        out[6]=j
    # unquoted
    j=i
    while j<n:
        d=s[j]
        if d=='\\':
            if esc_ok(s,j): j+=2
            else: break
        elif d in ' \t\r\n()#"': break
        else: j+=1
    if j>i: out[7]=j
    if c=='\\' and esc_ok(s,i): out[8]=i+2
    if c=='"':
        j=i+1
        while True:
            if j>=n: break
            d=s[j]
            if d=='"': out[9]=j+1; break
            if d=='\\':
                if esc_ok(s,j): j+=2
                else: break
            else: j+=1
    if c=='[': out[10]=bracket_close(s,i)
    if c=='#':
        if i+1<n and s[i+1]=='[':
            e=bracket_close(s,i+1)
            out[11]=e
        # line comment
        j=i+1
        while j<n and s[j] not in '\r\n': j+=1
        L=s[i+1:j]
        k=0; isopen=False
        if L.startswith('['):
            k=1
            while k<len(L) and L[k]=='=': k+=1
            isopen = k<len(L) and L[k]=='['
        if not isopen:
            if j<n:
                if s[j]=='\r': j+= 2 if s.startswith('\r\n',j) else 1
                else: j+=1
                out[12]=j
            else:
                out[12]=j+0.5
    if c in '\r\n':
        j=i
        while j<n and s[j] in '\r\n': j+=1
        out[13]=j
    if c in ' \t':
        j=i
        while j<n and s[j] in ' \t': j+=1
        out[14]=j
    return out
def mylex(s):
    i=0; toks=[]
    while i<len(s):
        cs=cands(s,i)
        best=None
        for r,e in enumerate(cs):
            if e is not None and (best is None or e>best[1]): best=(r,e)
        if best is None: return toks, i
        e=int(best[1]); toks.append((NAMES[best[0]], s[i:e])); i=e
    return toks, None
class L(ErrorListener):
    def __init__(s): s.err=None
    def syntaxError(s, recognizer, offendingSymbol, line, column, msg, e):
        if s.err is None: s.err=(e.startIndex)
        raise StopIteration
def antlrlex(s):
    lx=CMakeLexer(InputStream(s)); lx.removeErrorListeners(); l=L(); lx.addErrorListener(l)
    toks=[]
    lx._skipall=True
    # capture skipped tokens too: override skip by monkeypatching emit? use channel trick: intercept via nextToken loop on _type
    orig_skip=lx.skip
    try:
        while True:
            # emulate nextToken but record skipped tokens
            t=next_incl_skip(lx)
            if t is None: break
            toks.append(t)
    except StopIteration:
        return toks, l.err
    return toks, None
from antlr4.Lexer import Lexer
def next_incl_skip(lx):
    # single-token version of Lexer.nextToken that returns skipped tokens too
    if lx._input.LA(1)==Token.EOF: return None
    lx._token=None; lx._channel=Token.DEFAULT_CHANNEL
    lx._tokenStartCharIndex=lx._input.index
    lx._tokenStartColumn=lx._interp.column; lx._tokenStartLine=lx._interp.line; lx._text=None
    lx._type=Token.INVALID_TYPE
    from antlr4.error.Errors import LexerNoViableAltException
    try:
        ttype=lx._interp.match(lx._input, lx._mode)
    except LexerNoViableAltException as e:
        lx.notifyListeners(e); raise
    if lx._type==Token.INVALID_TYPE: lx._type=ttype
    start=lx._tokenStartCharIndex; stop=lx._input.index
    text=lx._input.getText(start, stop-1)
    # ttype is rule's token type even for skip
    name = {1:'LP',2:'RP'}.get(ttype) or CMakeLexer.symbolicNames[ttype-2]
    return (name, text)
def compare(s, tag):
    a=mylex(s); b=antlrlex(s)
    if a!=b:
        # find first diff
        for k,(x,y) in enumerate(zip(a[0],b[0])):
            if x!=y: print('DIFF',tag,repr(s[:80]),k,x,y); return False
        print('DIFF',tag,repr(s[:80]),'len/err',len(a[0]),a[1],len(b[0]),b[1]); return False
    return True
if __name__=='__main__':
    mode=sys.argv[1]
    if mode=='corpus':
        n=0;bad=0
        for f in sorted(glob.glob('/usr/share/cmake-3.25/**/*.cmake',recursive=True))+sorted(glob.glob('/repo/**/*.cmake',recursive=True)):
            try: s=open(f,encoding='utf-8').read()
            except Exception as e: continue
            n+=1
            if not compare(s,f): bad+=1
        print('files',n,'bad',bad)
    else:
        rnd=random.Random(int(sys.argv[2])); N=int(sys.argv[3])
        alpha=['#','[',']','=','"','\\','(',')',' ','\n','\r','a','_','1',';','@module','#[[[','#]]',']]','t','-','\t','é']
        bad=0; errs=0
        for k in range(N):
            s=''.join(rnd.choice(alpha) for _ in range(rnd.randint(1,14)))
            if not compare(s,'rnd'): bad+=1
            if mylex(s)[1] is not None: errs+=1
        print('random',N,'bad',bad,'with-lex-error',errs)
