"""Layout pairs: same items, different layout RNG -> outputs must be byte-identical (C04)."""
import sys, random, os
os.environ.setdefault('CMINX_SRC','/tmp/scratch/rc/src')
import agg_proto_lib as A
SEPS=[' ','  ','\t','\n','\n\n',' # trailing comment\n','\n# line comment function(x)\n','#[[ br ]]',' #[=[ lvl1 ]] x ]=] ','\n   #]]\n','\n# #[[[ fake\n']
class LayoutR(random.Random): pass
def relayout(text, rnd, crlf=False):
    """cheap re-layout at line level: re-indent whole lines consistently per doc block, insert blank/comment lines between lines that are not inside a doc block"""
    out=[]; indoc=False; ind=''
    for line in text.split('\n'):
        stripped=line.lstrip(' \t')
        if stripped.startswith('#[[[') and not indoc:
            indoc=True; ind=rnd.choice(['',' ','    ','\t','\t\t ','        '])
        if indoc:
            out.append(ind+stripped)
            if stripped.startswith('#]]'): indoc=False
                # between doc and command: maybe comment/blank
            if not indoc and rnd.random()<0.4: out.append(rnd.choice(['','# annotation between doc and command','   #[[ x ]]']))
        else:
            if rnd.random()<0.3: out.append(rnd.choice(['','# c','#[==[ multi\nline ]==]','\t']))
            out.append(rnd.choice(['',' ','\t','      '])+stripped+rnd.choice(['',' ','  # trailing']))
    t='\n'.join(out)
    return t.replace('\n','\r\n') if crlf else t
seed=int(sys.argv[1]); N=int(sys.argv[2]); bad=0
for n in range(N):
    A.R=random.Random(seed*100000+n)
    items=A.gen_items(0); out=[]; A.render(items,'',out); text='\n'.join(out)+'\n'
    base=A.run(text,A.Settings())[1]
    for k in range(3):
        t2=relayout(text, random.Random(n*10+k))
        try: r=A.run(t2,A.Settings())[1]
        except BaseException as e: r='EXC '+type(e).__name__+str(e)[:100]
        if r!=base:
            bad+=1; print('LAYOUT DIFF',seed,n,k); 
            import difflib; print(''.join(list(difflib.unified_diff(base.splitlines(1),r.splitlines(1)))[:20])); print(t2[:600]); break
    # CRLF
    t3=text.replace('\n','\r\n')
    try: r=A.run(t3,A.Settings())[1]
    except BaseException as e: r='EXC '+type(e).__name__
    norm=lambda s:[l for l in s.replace('\r','').split('\n') if l.strip()!='']
    if norm(r)!=norm(base): bad+=1; print('CRLF DIFF',seed,n); print(repr(r[:300])); print(repr(base[:300]))
    if bad>2: break
print('done',N,'bad',bad)
