import sys, random, pickle
sys.path.insert(0,'/tmp/scratch/rc/src')
from cminx.rstwriter import RSTWriter
from cminx.config import Settings
# reference model: tree of dicts
def ind(d): return '   '*d
def r_elem(e, d):
    k=e['k']
    if k=='para': return '\n'.join(ind(d)+l for l in e['t'].split('\n'))
    if k=='field': return '\n'+ind(d)+':'+e['n']+': '+e['t']
    if k=='bl': return '\n'+''.join(ind(d)+'* '+i+'\n' for i in e['items'])
    if k=='el': return '\n'+''.join(ind(d)+str(j+1)+'. '+i+'\n' for j,i in enumerate(e['items']))
    if k=='dir':
        s='\n'+ind(d)+'.. '+e['title']+':: '+','.join(e['args'])+'\n'
        for (n,v) in e['opts']: s+=ind(d+1)+':'+n+': '+str(v)+'\n'
        if e['ch']: s+='\n'
        for c in e['ch']: s+=r_elem(c,d+1)+'\n'
        return s
def r_doc(m):
    h=m['hc']*len(m['title'])
    s='\n'+h+'\n'+m['title']+'\n'+h+'\n'
    for c in m['ch']: s+=r_elem(c,0)+'\n'
    return s
R=random.Random(int(sys.argv[1])); bad=0
TXT=['x','two\nlines','  lead','a\n\n  b','','ünï']
for n in range(int(sys.argv[2])):
    hc=R.choice(['#','*','=']); s=Settings(); s.rst.headers=[hc,'-']
    t=R.choice(TXT[:1]+['Title','Tïtle long']); w=RSTWriter(t,settings=s); m=dict(title=t,hc=hc,ch=[])
    handles=[(w,m,0)]
    for _ in range(R.randint(0,25)):
        obj,mod,d=R.choice(handles); op=R.choice(['text','field','bl','el','dir','opt','title','clear','ser','ser'])
        if op=='text': x=R.choice(TXT); obj.text(x); mod['ch'].append(dict(k='para',t=x))
        elif op=='field': a,b=R.choice(['Author','type x']),R.choice(['v','','w w']); obj.field(a,b); mod['ch'].append(dict(k='field',n=a,t=b))
        elif op=='bl': it=[R.choice(['i','j k']) for _ in range(R.randint(0,3))]; obj.bulleted_list(*it); mod['ch'].append(dict(k='bl',items=it))
        elif op=='el': it=[R.choice(['i','j k']) for _ in range(R.randint(0,3))]; obj.enumerated_list(*it); mod['ch'].append(dict(k='el',items=it))
        elif op=='dir':
            if d<5:
                nm=R.choice(['note','function','py:class']); ar=[R.choice(['a','f(x y)']) for _ in range(R.randint(0,2))]
                h=obj.directive(nm,*ar); e=dict(k='dir',title=nm,args=ar,opts=[],ch=[]); mod['ch'].append(e); handles.append((h,e,d+1))
        elif op=='opt':
            if mod.get('k')=='dir': a,b=R.choice(['maxdepth','value']),R.choice([2,'x','']); obj.option(a,b); mod['opts'].append((a,b))
        elif op=='title': nt=R.choice(['New','n2 long title','é']); obj.title=nt; mod['title']=nt
        elif op=='clear':
            obj.clear(); mod['ch']=[]
            # handles below are detached; drop them
            def under(e, root):
                return any(c is e or (c.get('k')=='dir' and under(e,c)) for c in root.get('ch',[]))
            handles=[(o,e,dd) for (o,e,dd) in handles if e is m or under(e,m)]
        elif op=='ser':
            before=pickle.dumps(w); a=w.to_text(); b=str(w); after=pickle.dumps(w)
            exp=r_doc(m)
            if a!=exp or a!=b or before!=after:
                bad+=1; print('MISMATCH',n); print(repr(a)); print(repr(exp)); break
print('done bad',bad)
