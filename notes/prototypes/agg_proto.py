"""Throw-away prototype: random abstract modules -> text -> real aggregator; compare with structural spec."""
import sys, os, random, json, tempfile, io, contextlib, logging, dataclasses
SRC=os.environ.get('CMINX_SRC','/tmp/scratch/rc/src'); sys.path.insert(0,SRC)
logging.disable(logging.CRITICAL)
from cminx.documenter import Documenter
from cminx.config import Settings, InputSettings
from cminx import documentation_types as DT

FLAGS=['function','macro','cpp_class','cpp_attr','cpp_constructor','cpp_member','ct_add_test','add_test','ct_add_section','option']
R=None
def word(): return R.choice(['a','b','x1','_p_','Foo','bar_baz','é','v-1','${v}','"q s"','""','[[br]]','[=[b ]] r]=]','a\;b','NAMEX','xEXPECTFAIL','name','"a\\"b"'])
def ident(): return R.choice(['f','g','my_fn','Klass','T1','outer','inner','n2'])+str(R.randint(0,99))
def docbody():
    if R.random()<0.5: return None
    n=R.randint(0,4); ls=[]
    for _ in range(n):
        ls.append(R.choice(['','text here','#hash','[br] x',']x',':param a: b',':keyword k: v','..  dots','  indented','* item','héllo ✓','see [1]','a :param **kwargs: b']))
    return ls
def case(s): 
    m=R.random()
    return s if m<0.6 else (s.upper() if m<0.8 else ''.join(c.upper() if R.random()<0.5 else c for c in s))
# item kinds produce: text lines (list), and spec contributions
def gen_items(depth, in_class=False, in_testfn=False):
    items=[]
    for _ in range(R.randint(0, 4 if depth else 6)):
        k=R.choice(['func','macro','set','option','add_test','cttest','generic','block','cpa','dangling','comment','class']+(['attr','member','ctor'] if in_class else [])+(['section'] if in_testfn else []))
        if depth>=3 and k in('func','macro','class','cttest','block','member','ctor','section'): k='generic'
        d=docbody()
        if k in('func','macro'):
            items.append(dict(k=k,doc=d,name=ident(),params=[word() for _ in range(R.randint(0,3))],body=gen_items(depth+1)))
        elif k=='set': items.append(dict(k=k,doc=d,name=ident(),vals=[word() for _ in range(R.randint(0,3))]))
        elif k=='option': items.append(dict(k=k,doc=d,name=ident(),help=R.choice(['"help text"','h']),dflt=R.choice([None,'ON','OFF'])))
        elif k=='add_test':
            nm=ident(); rest=[word() for _ in range(R.randint(1,3))]
            if R.random()<0.3: rest.append(nm)
            pos=R.randint(0,len(rest)); args=rest[:pos]+['NAME',nm]+rest[pos:]
            items.append(dict(k=k,doc=d,name=nm,args=args))
        elif k in('cttest','section'):
            nm=R.choice([ident(),'"quoted name"']); ef=R.random()<0.4
            args=['NAME',nm]+(['EXPECTFAIL'] if ef else [])
            if R.random()<0.5: args=args[2:]+args[:2]
            items.append(dict(k=k,doc=d,name=nm,ef=ef,args=args,impl=R.choice(['function','macro']),body=gen_items(depth+1,in_testfn=True)))
        elif k=='generic':
            args=[word() for _ in range(R.randint(0,3))]
            if R.random()<0.3: args.insert(R.randint(0,len(args)), '('+' '.join(word() for _ in range(R.randint(0,2)))+')')
            items.append(dict(k=k,doc=d,name=R.choice(['message','add_library','include','list','find_package','if_not']),args=args))
        elif k=='block':
            items.append(dict(k=k,open=R.choice(['if','foreach','while']),body=gen_items(depth+1,in_class,in_testfn)))
        elif k=='cpa': items.append(dict(k=k))
        elif k=='dangling': items.append(dict(k=k,doc=docbody() or ['dangling']))
        elif k=='comment': items.append(dict(k=k,text=R.choice(['# plain','#[[ bracket\n function(x) ]]','#[=[ lvl1 ]] ]=]','# #[[[ looks like doc','#]]','#   cpp_class(X)'])))
        elif k=='class':
            items.append(dict(k=k,doc=d,name=ident(),supers=[ident() for _ in range(R.randint(0,2))],body=gen_items(depth+1,in_class=True)))
        elif k=='attr':
            items.append(dict(k=k,doc=d,cls=ident(),name=ident(),dflt=R.choice([None,'5','"x y"'])))
        elif k in('member','ctor'):
            types=[R.choice(['int','str','desc','args','bool']) for _ in range(R.randint(0,3))]
            items.append(dict(k=k,doc=d,name=ident(),cls=ident(),types=types,impl=R.choice(['function','macro']),iparams=[word() for _ in range(R.randint(0,3))],body=gen_items(depth+1)))
    return items
def emit_doc(d, ind, out):
    if d is None: return
    out.append(ind+'#[[[')
    for l in d: out.append(ind+'#'+(' '+l if l else ''))
    out.append(ind+'#]]')
def render(items, ind, out):
    for it in items:
        k=it['k']; i2=ind+R.choice(['  ','\t','    '])
        if k in('func','macro'):
            emit_doc(it['doc'],ind,out); kw='function' if k=='func' else 'macro'
            out.append(ind+case(kw)+'('+' '.join([it['name']]+it['params'])+')'); render(it['body'],i2,out); out.append(ind+case('end'+kw)+'()')
        elif k=='set': emit_doc(it['doc'],ind,out); out.append(ind+case('set')+'('+' '.join([it['name']]+it['vals'])+')')
        elif k=='option': emit_doc(it['doc'],ind,out); out.append(ind+case('option')+'('+' '.join([it['name'],it['help']]+([it['dflt']] if it['dflt'] else []))+')')
        elif k=='add_test': emit_doc(it['doc'],ind,out); out.append(ind+case('add_test')+'('+' '.join(it['args'])+')')
        elif k in('cttest','section'):
            emit_doc(it['doc'],ind,out); cmd='ct_add_test' if k=='cttest' else 'ct_add_section'
            out.append(ind+case(cmd)+'('+' '.join(it['args'])+')'); out.append(ind+case(it['impl'])+'("${x}")'); render(it['body'],i2,out); out.append(ind+case('end'+it['impl'])+'()')
        elif k=='generic': emit_doc(it['doc'],ind,out); out.append(ind+case(it['name'])+'('+'\n   '.join(it['args'])+')')
        elif k=='block': out.append(ind+it['open']+'(cond)'); render(it['body'],i2,out); out.append(ind+'end'+it['open']+'()')
        elif k=='cpa': out.append(ind+case('cmake_parse_arguments')+'(p "" "" "" ${ARGN})')
        elif k=='dangling': emit_doc(it['doc'],ind,out); out.append(ind+'# breaker'); emit_doc(['second'],ind,out); out.append(ind+'message(after_dangling)')
        elif k=='comment': out.append(ind+it['text'])
        elif k=='class':
            emit_doc(it['doc'],ind,out); out.append(ind+case('cpp_class')+'('+' '.join([it['name']]+it['supers'])+')'); render(it['body'],i2,out); out.append(ind+case('cpp_end_class')+'()')
        elif k=='attr': emit_doc(it['doc'],ind,out); out.append(ind+case('cpp_attr')+'('+' '.join([it['cls'],it['name']]+([it['dflt']] if it['dflt'] else []))+')')
        elif k in('member','ctor'):
            emit_doc(it['doc'],ind,out); cmd='cpp_member' if k=='member' else 'cpp_constructor'
            out.append(ind+case(cmd)+'('+' '.join([it['name'],it['cls']]+it['types'])+')')
            out.append(ind+case(it['impl'])+'('+' '.join(['"${'+it['name']+'}"','self']+it['iparams'])+')'); render(it['body'],i2,out); out.append(ind+case('end'+it['impl'])+'()')
def docstr(d): return '' if d is None else '\n'.join(d+[''])
def unq(v): return v[1:-1] if len(v)>=2 and v[0]=='"' and v[-1]=='"' else v
# structural spec -> list of canonical entries
def cpa_direct(body):
    for it in body:
        if it['k']=='cpa': return True
        if it['k']=='block' and cpa_direct(it['body']): return True
        if it['k']=='class' and cpa_direct(it['body']): return True
    return False
def spec(items, flags, trigger, cls=None, out=None, dangling_prev=None):
    # cls: dict for innermost shown class, or 'HIDDEN' , or None
    for it in items:
        k=it['k']; d=it.get('doc'); documented = d is not None and k not in('block','cpa','comment','dangling')
        if k in('func','macro'):
            if documented or flags['function' if k=='func' else 'macro']:
                out.append(dict(t=k,name=it['name'],params=it['params'],kw=(trigger in docstr(d)) or cpa_direct(it['body']),doc=docstr(d)))
            spec(it['body'],flags,trigger,cls,out)
        elif k=='set':
            if documented:
                v=it['vals']; out.append(dict(t='var',name=it['name'],doc=docstr(d),vt='STRING' if len(v)==1 else('LIST' if len(v)>1 else 'UNSET'),val=(unq(v[0]) if len(v)==1 else(' '.join(v) if v else None))))
        elif k=='option':
            if documented or flags['option']: out.append(dict(t='opt',name=it['name'],doc=docstr(d),help=it['help'],val=it['dflt']))
        elif k=='add_test':
            if documented or flags['add_test']:
                a=it['args']; i=a.index('NAME'); out.append(dict(t='ctest',name=it['name'],doc=docstr(d),params=a[:i]+a[i+2:]))
        elif k in('cttest','section'):
            fl='ct_add_test' if k=='cttest' else 'ct_add_section'
            if documented or flags[fl]: out.append(dict(t=k,name=it['name'],doc=docstr(d),ef=it['ef']))
            else:
                # implementing def becomes ordinary definition
                kk='function' if it['impl']=='function' else 'macro'
                if flags[kk]: out.append(dict(t='func' if kk=='function' else 'macro',name='"${x}"',params=[],kw=(trigger in '') or cpa_direct(it['body']),doc=''))
            spec(it['body'],flags,trigger,cls,out)
        elif k=='generic':
            if documented: out.append(dict(t='gen',name=it['name'].lower(),doc=docstr(d),params=it['args']))
        elif k=='dangling': out.append(dict(t='gen',name='message',doc='second\n',params=['after_dangling']))
        elif k=='block': spec(it['body'],flags,trigger,cls,out)
        elif k=='class':
            if documented or flags['cpp_class']:
                c=dict(t='class',name=it['name'],doc=docstr(d),supers=it['supers'],ctors=[],members=[],attrs=[],inner=[])
                out.append(c)
                if isinstance(cls,dict): cls['inner'].append(it['name'])
                spec(it['body'],flags,trigger,c,out)
            else: spec(it['body'],flags,trigger,'HIDDEN',out)
        elif k=='attr':
            if isinstance(cls,dict) and (documented or flags['cpp_attr']): cls['attrs'].append(dict(name=it['name'],doc=docstr(d),pc=it['cls'],dv=it['dflt']))
        elif k in('member','ctor'):
            fl='cpp_member' if k=='member' else 'cpp_constructor'
            shown = isinstance(cls,dict) and (documented or flags[fl])
            if shown:
                (cls['members'] if k=='member' else cls['ctors']).append(dict(name=it['name'],doc=docstr(d),pc=it['cls'],types=it['types'],params=it['iparams'],macro=it['impl']=='macro',ctor=k=='ctor'))
            else:
                kk=it['impl']
                if flags[kk]: out.append(dict(t='func' if kk=='function' else 'macro',name='"${'+it['name']+'}"',params=['self']+it['iparams'],kw=(trigger in '') or cpa_direct(it['body']),doc=''))
            spec(it['body'],flags,trigger,cls,out)
    return out
def canon(e):
    if isinstance(e,DT.FunctionDocumentation) or isinstance(e,DT.MacroDocumentation):
        return dict(t='func' if isinstance(e,DT.FunctionDocumentation) else 'macro',name=e.name,params=[p for p in e.params if p!='**kwargs'],kw=e.has_kwargs,doc=e.doc)
    if isinstance(e,DT.OptionDocumentation): return dict(t='opt',name=e.name,doc=e.doc,help=e.help_text,val=e.value)
    if isinstance(e,DT.VariableDocumentation): return dict(t='var',name=e.name,doc=e.doc,vt=e.type.name,val=e.value)
    if isinstance(e,DT.CTestDocumentation): return dict(t='ctest',name=e.name,doc=e.doc,params=e.params)
    if isinstance(e,DT.SectionDocumentation): return dict(t='section',name=e.name,doc=e.doc,ef=e.expect_fail)
    if isinstance(e,DT.TestDocumentation): return dict(t='cttest',name=e.name,doc=e.doc,ef=e.expect_fail)
    if isinstance(e,DT.GenericCommandDocumentation): return dict(t='gen',name=e.name,doc=e.doc,params=e.params)
    if isinstance(e,DT.ClassDocumentation):
        m=lambda x: dict(name=x.name,doc=x.doc,pc=x.parent_class,types=x.param_types,params=x.params,macro=x.is_macro,ctor=x.is_constructor)
        return dict(t='class',name=e.name,doc=e.doc,supers=e.superclasses,ctors=[m(x) for x in e.constructors],members=[m(x) for x in e.members],attrs=[dict(name=a.name,doc=a.doc,pc=a.parent_class,dv=a.default_value) for a in e.attributes],inner=[c.name for c in e.inner_classes])
    if isinstance(e,DT.ModuleDocumentation): return dict(t='module',name=e.name,doc=e.doc)
    return dict(t='?'+type(e).__name__)
def run(text, settings):
    with tempfile.NamedTemporaryFile('w',suffix='.cmake',delete=False,encoding='utf-8',newline='') as f: f.write(text); p=f.name
    try:
        err=io.StringIO()
        with contextlib.redirect_stderr(err):
            d=Documenter(p,'T','M',settings); w=d.process()
        return [canon(e) for e in d.aggregator.documented], str(w), err.getvalue()
    finally: os.unlink(p)
def main():
    global R
    seed=int(sys.argv[1]); N=int(sys.argv[2]); bad=0; hidden_doc_class=0
    for n in range(N):
        R=random.Random(seed*100000+n)
        items=gen_items(0); out=[]; render(items,'',out); text='\n'.join(out)+'\n'
        mode=R.random()
        flags={f:True for f in FLAGS}
        if mode>0.5:
            for f in FLAGS: flags[f]=R.random()<0.5
        trigger=R.choice([':keyword',':param **kwargs:',''])
        if sys.argv[3:]==['nok1']:
            pass
        s=Settings(input=InputSettings(**{'include_undocumented_'+f:v for f,v in flags.items()},kwargs_doc_trigger_string=trigger))
        try:
            got,rst,err=run(text,s)
        except BaseException as e:
            print('EXC',seed,n,type(e).__name__,str(e)[:200]); print(text); bad+=1; 
            if bad>3: break
            continue
        exp=[dict(t='module',name='M',doc='')]+spec(items,flags,trigger,None,[])
        # K1 region: documented class with cpp_class off -> skip comparison
        def has_doc_class(its):
            return any((i['k']=='class' and i.get('doc') is not None) or has_doc_class(i.get('body',[])) for i in its)
        if not flags['cpp_class'] and has_doc_class(items): hidden_doc_class+=1; continue
        if got!=exp:
            bad+=1
            print('MISMATCH',seed,n,'flags',{k:v for k,v in flags.items() if not v},'trigger',repr(trigger)); print(text)
            for a,b in zip(got,exp):
                if a!=b: print(' got',a); print(' exp',b); break
            else: print(' len',len(got),len(exp), got[len(exp):] if len(got)>len(exp) else exp[len(got):])
            if bad>3: break
    print('done',N,'bad',bad,'skippedK1',hidden_doc_class)
main()
