import sys, os, random, tempfile, shutil, io, contextlib, logging, re
sys.path.insert(0, os.environ.get('CMINX_SRC','/tmp/scratch/rc/src'))
import cminx
logging.disable(logging.CRITICAL)
R=random.Random(int(sys.argv[1])); bad=0
for n in range(int(sys.argv[2])):
    base=tempfile.mkdtemp(prefix='c12')
    try:
        dname=R.choice(['in','my.proj','d-x'])
        inp=os.path.join(base,dname)
        rels=[]
        for _ in range(R.randint(1,5)):
            parts=[R.choice(['sub','a.b','deep']) for _ in range(R.randint(0,3))]+[R.choice(['f','x.y','mod'])+R.choice(['.cmake','.CMake','.cmake'])]
            rel=os.path.join(*parts)
            if rel.lower() in [r.lower() for r,_ in rels]: continue
            moddoc=R.choice([None,None,'named','unnamed'])
            rels.append((rel,moddoc))
        for rel,md in rels:
            p=os.path.join(inp,rel); os.makedirs(os.path.dirname(p),exist_ok=True)
            txt=''
            if md=='named': txt+='#[[[ @module the.name\n# module body\n#]]\n'
            if md=='unnamed': txt+='#[[[ @module\n# module body\n#]]\n'
            txt+=R.choice(['','#[[[\n# fdoc\n#]]\n'])+'function(f)\nendfunction()\n'
            open(p,'w').write(txt)
        s=cminx.Settings(); s.input.recursive=True; s.input.auto_exclude_directories_without_cmake=False
        pre=R.choice([None,'PFX','p.q']); sep=R.choice(['.','/','::','-']); hc=R.choice(['#','=','~'])
        s.rst.prefix=pre; s.rst.module_path_separator=sep; s.rst.headers=[hc,'*']
        s.rst.file_extensions_in_titles=R.random()<0.5; s.rst.file_extensions_in_modules=R.random()<0.5
        out=os.path.join(base,'out'); s.output.directory=out
        spelled=R.choice(['abs','rel','dot'])
        cwd=os.getcwd()
        try:
            if spelled=='abs': arg=inp
            elif spelled=='rel': os.chdir(base); arg=dname
            else: os.chdir(inp); arg='.'
            with contextlib.redirect_stdout(io.StringIO()): cminx.document(arg,s)
        finally: os.chdir(cwd)
        for rel,md in rels:
            o=os.path.join(out,'.'.join(rel.split('.')[:-1])+'.rst'); t=open(o).read().split('\n')
            P=(pre if pre is not None else dname)+sep
            strip=lambda x: re.sub(r'\.cmake$','',x,flags=re.I)
            title=P+(rel if s.rst.file_extensions_in_titles else strip(rel)); mod=P+(rel if s.rst.file_extensions_in_modules else strip(rel))
            if md=='named': title=mod='the.name'
            exp=['',hc*len(title),title,hc*len(title),'','.. module:: '+mod]
            if t[:6]!=exp or sum(1 for l in t if l.startswith('.. module::'))!=1 or (md and t[6:9]!=['','   module body','   ']):
                bad+=1; print('DIFF',n,rel,md,spelled,pre,sep); print(t[:9]); print(exp)
    finally: shutil.rmtree(base)
print('done bad',bad)
