"""Throw-away: random trees vs declarative spec of C13/C14/C15 on the (patched) code."""
import sys, os, random, tempfile, shutil, io, contextlib, logging, re
SRC=os.environ.get('CMINX_SRC','/tmp/scratch/rc/src'); sys.path.insert(0,SRC)
import cminx, pathspec
logging.disable(logging.CRITICAL)
R=None
NAMES=['a','b','c','mod','x.y','d-e','aa','ab','ac']
EXTS=['.cmake','.cmake','.cmake','.CMake','.CMAKE','.txt','','.cmake.in']
def gen_dir(depth):
    files=[]; 
    for _ in range(R.randint(0,4)):
        f=R.choice(NAMES)+R.choice(EXTS)
        if f.lower() not in [x.lower() for x in files]: files.append(f)
    if R.random()<0.1 and 'cmake' not in files: files.append('cmake')
    dirs={}
    if depth<3:
        for _ in range(R.randint(0,3)):
            n=R.choice(['sub','deep','aa','ab','ac','build','x.d'])
            if n not in dirs and n.lower() not in [x.lower() for x in files]: dirs[n]=gen_dir(depth+1)
    return dict(files=files,dirs=dirs)
def mk(root,t):
    os.makedirs(root,exist_ok=True)
    for f in t['files']:
        open(os.path.join(root,f),'w').write('function(f_%s a)\nendfunction()\n'%re.sub(r'\W','_',f))
    for n,d in t['dirs'].items(): mk(os.path.join(root,n),d)
def iscm(f): return f.lower().endswith('.cmake')
def spec_walk(t, absroot, rel, spec, rec, auto, out, top=True):
    # returns True if this dir is 'processed' (index written)
    def ex_f(f): return spec.match_file(os.path.join(absroot,rel,f))
    def ex_d(d): return spec.match_file(os.path.join(absroot,rel,d,''))
    files=[f for f in t['files'] if not ex_f(f)]
    subs={n:d for n,d in t['dirs'].items() if not ex_d(n)}
    if auto:
        def keep(n,d):
            return any(f.endswith('.cmake') and not spec.match_file(os.path.join(absroot,rel,n,f)) for f in d['files'])
        subs={n:d for n,d in subs.items() if keep(n,d)}
        if not any(f.endswith('.cmake') for f in files):
            # dir skipped, but walk continues into subs (only reachable for root)
            if rec:
                for n,d in subs.items(): spec_walk(d,absroot,os.path.join(rel,n),spec,rec,auto,out,False)
            return
    toc=[]
    if rec: toc+=[n+'/index.rst' for n in sorted(subs)]
    toc+=['.'.join(f.split('.')[:-1]) for f in sorted(files) if iscm(f)]
    out[os.path.normpath(os.path.join(rel,'index.rst'))]=toc
    for f in files:
        if iscm(f): out[os.path.normpath(os.path.join(rel,'.'.join(f.split('.')[:-1])+'.rst'))]=None
    if rec:
        for n,d in subs.items(): spec_walk(d,absroot,os.path.join(rel,n),spec,rec,auto,out,False)
def main():
    global R
    seed=int(sys.argv[1]); N=int(sys.argv[2]); bad=0
    real_walk=os.walk
    for n in range(N):
        R=random.Random(seed*100000+n)
        base=tempfile.mkdtemp(prefix='wp')
        try:
            t=gen_dir(0)
            if not any(f.endswith('.cmake') for f in t['files']): t['files'].append('root.cmake')
            inp=os.path.join(base,'inp'); mk(inp,t)
            rec=R.random()<0.7; auto=R.random()<0.6
            pats=[]
            for _ in range(R.randint(0,4)):
                pats.append(R.choice(['aa/','ab/','ac/','build','sub/','*.txt','a.cmake','b.cmake','c.cmake','**/deep/*.cmake','mod.*','x.d/','aa.cmake','ab.cmake','ac.cmake',os.path.join(inp,'sub','a.cmake')]))
            outd=os.path.join(base,'out')
            perm=random.Random(R.random())
            def walk(top,topdown=True,followlinks=False):
                for root,dirs,files in real_walk(top,topdown=topdown,followlinks=followlinks):
                    mode=perm.random()
                    if mode<0.4: dirs.sort(); files.sort()
                    elif mode<0.7: dirs.sort(reverse=True); files.sort(reverse=True)
                    else: perm.shuffle(dirs); perm.shuffle(files)
                    yield root,dirs,files
            os.walk=walk
            s=cminx.Settings(); s.input.recursive=rec; s.input.auto_exclude_directories_without_cmake=auto; s.input.exclude_filters=pats; s.output.directory=outd
            with contextlib.redirect_stdout(io.StringIO()), contextlib.redirect_stderr(io.StringIO()):
                cminx.document(inp,s)
            os.walk=real_walk
            got={}
            for root,dirs,files in os.walk(outd):
                for f in files:
                    p=os.path.relpath(os.path.join(root,f),outd)
                    if f=='index.rst':
                        txt=open(os.path.join(root,f)).read(); lines=txt.split('\n')
                        i=lines.index('   :maxdepth: 2'); got[p]=[l[3:] for l in lines[i+1:] if l.startswith('   ')]
                    else: got[p]=None
            spec=pathspec.PathSpec.from_lines(pathspec.patterns.GitWildMatchPattern,pats)
            exp={}; spec_walk(t,inp+'/', '', spec, rec, auto, exp)
            # C14 closure on real output
            dangling=[(p,e) for p,toc in got.items() if toc is not None for e in toc if os.path.normpath(os.path.join(os.path.dirname(p), e if e.endswith('/index.rst') else e+'.rst')) not in got]
            if got!=exp or dangling:
                bad+=1; print('MISMATCH',seed,n,'rec',rec,'auto',auto,'pats',pats); print(' tree',t); print(' got',sorted(got.items())); print(' exp',sorted(exp.items())); print(' dangling',dangling)
                if bad>3: break
        finally:
            os.walk=real_walk; shutil.rmtree(base)
    print('done',N,'bad',bad)
main()
