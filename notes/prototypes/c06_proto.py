"""Fault injection at every position: scanner+parser prototype says error  <=>  real Documenter raises."""
import sys, random, os, collections
os.environ.setdefault('CMINX_SRC','/tmp/scratch/rc/src')
import agg_proto_lib as A
import proto_lex as PL
SKIP={'Bracket_comment','Line_comment','Newline','Space'}
ARGT={'Identifier','Unquoted_argument','Bracket_argument','Quoted_argument'}
def parse_ok(s):
    toks,err=PL.mylex(s)
    if err is not None: return False
    sig=[t for t in toks if t[0] not in SKIP]
    i=0
    if sig and sig[0][0]=='Module_docstring': i=1
    def args(i):
        while i<len(sig):
            k=sig[i][0]
            if k in ARGT: i+=1
            elif k=='LP':
                i=args(i+1)
                if i is None or i>=len(sig) or sig[i][0]!='RP': return None
                i+=1
            else: return i
        return i
    while i<len(sig):
        k=sig[i][0]
        if k=='Docstring': i+=1
        elif k=='Identifier':
            if i+1>=len(sig) or sig[i+1][0]!='LP': return False
            j=args(i+2)
            if j is None or j>=len(sig) or sig[j][0]!='RP': return False
            i=j+1
        else: return False
    return True
def real_ok(s):
    try: A.run(s,A.Settings()); return True
    except BaseException as e:
        return type(e).__name__
FAULTS=['"','\\a','\\','(',')','zz','#[[ ','#[=[ ','\\9',' " ']
seed=int(sys.argv[1]); N=int(sys.argv[2]); bad=0; stats=collections.Counter()
for n in range(N):
    A.R=random.Random(seed*100000+n)
    items=A.gen_items(0); out=[]; A.render(items,'',out); text='\n'.join(out)+'\n'
    if len(text)>700: continue
    assert parse_ok(text), text
    for pos in range(len(text)+1):
        for f in FAULTS:
            for mode in ('ins','del'):
                if mode=='del':
                    if f!='(' or pos>=len(text) or text[pos] not in '()"': continue
                    s=text[:pos]+text[pos+1:]
                else: s=text[:pos]+f+text[pos:]
                m=parse_ok(s); r=real_ok(s)
                stats[(m, r is True)]+=1
                if m!=(r is True):
                    # aggregator-level errors (e.g. pop from empty stack) are not lexer/parser faults
                    if m and r in ('IndexError','CMakeSyntaxException','TypeError','KeyError'): stats['agg-exc']+=1; continue
                    bad+=1; print('DISAGREE',seed,n,pos,repr(f),mode,'model_ok',m,'real',r); print(repr(s[max(0,pos-40):pos+40]))
                    if bad>5: print(stats); sys.exit()
print('done',N,dict(stats),'bad',bad)
