#!/usr/bin/env python3
"""Confirm and keep a change written by a sub-agent:  ingest_change.py <worktree> <out-dir> <A|B> <property> <name>
Confirms, in the given scratch worktree of /repo (never /repo itself):  clean tree -> demonstration exits 0;  patch applied ->
pinned suite reports 69 passed and the demonstration exits 1.  Only then is the change copied to seeded/<name>/
(patch.diff, demo.py, meta.json with what was run)."""
import json, os, shutil, subprocess, sys
wt, outd, which, prop, name = sys.argv[1:6]
V = '/verif'


def sh(cmd, **kw): return subprocess.run(cmd, shell=True, capture_output=True, text=True, **kw)


env = dict(os.environ, PYTHONPATH=os.path.join(wt, 'src'))
patch = os.path.join(outd, f'{which}.diff'); demo = os.path.join(outd, f'demo_{which}.py')
meta_all = json.load(open(os.path.join(outd, 'meta.json')))
meta = meta_all.get(which, meta_all)
sh(f'git -C {wt} checkout -q -- . && git -C {wt} clean -fdq')
d0 = sh(f'cd /tmp && /venv/bin/python {demo}', env=env)
a = sh(f'git -C {wt} apply {patch}')
if a.returncode != 0:
    print('REJECT: patch does not apply:', a.stderr[-300:]); sys.exit(1)
t = sh(f'cd {wt} && /venv/bin/python -m pytest -q -p no:cacheprovider 2>&1 | tail -1', env=env).stdout.strip()
d1 = sh(f'cd /tmp && /venv/bin/python {demo}', env=env)
sh(f'git -C {wt} checkout -q -- . && git -C {wt} clean -fdq')
ok = d0.returncode == 0 and d1.returncode == 1 and t.startswith('69 passed')
print(f'{name}: clean demo rc={d0.returncode}; with change: tests "{t}", demo rc={d1.returncode} -> {"KEEP" if ok else "REJECT"}')
if not ok:
    print(d0.stdout[-500:], d0.stderr[-500:], d1.stdout[-500:], d1.stderr[-500:]); sys.exit(1)
dst = os.path.join(V, 'seeded', name); os.makedirs(dst, exist_ok=True)
shutil.copy(patch, os.path.join(dst, 'patch.diff')); shutil.copy(demo, os.path.join(dst, 'demo.py'))
meta_out = dict(property=prop, summary=meta.get('summary', ''), needs=meta.get('needs', ''), files_changed=meta.get('files_changed', []),
                confirmed=dict(clean_tree_demo_rc=d0.returncode, with_change_tests=t, with_change_demo_rc=d1.returncode,
                               how="scratch worktree of /repo HEAD; PYTHONPATH=<worktree>/src /venv/bin/python -m pytest -q -p no:cacheprovider; "
                                   "cd /tmp && PYTHONPATH=<worktree>/src /venv/bin/python demo.py"),
                demo_output_with_change=d1.stdout[-600:])
json.dump(meta_out, open(os.path.join(dst, 'meta.json'), 'w'), indent=1, ensure_ascii=False)
