#!/usr/bin/env python3
"""Regenerates /verif/MANIFEST.json from the table below (one check per property)."""
import json, os

V = os.path.dirname(os.path.dirname(os.path.abspath(__file__)))
PY = "/venv/bin/python"

COMMON_NOTE = ("Trusted: Lean 4.33.0 kernel; axioms under the property theorems are at most propext, Classical.choice, Quot.sound (audited by "
               "`#print axioms` on every run; no native_decide/bv_decide/own axioms/sorry); the Lean compiler (the correspondence runs compiled "
               "model code); the hand-written model CminxModel/*.lean, tied to /repo's working tree by the differential correspondence on the "
               "generated inputs (its reach is bounded by generator quality; distributions are in the evidence). ")

T = {
 'C01': ("Theorems C01_clean_canonical/_leaderless/_module_doc/_crlf/_doc_block: for EVERY canonical doccomment (any indentation, any line "
         "contents) cleaning returns exactly the body lines, in order, and paragraph rendering prefixes each line with the directive's indentation; "
         "T_agg attributes each doccomment to its own command. Tie: static clean_doc_lines and the whole pipeline vs the model on generated modules; "
         "oracle: expected doc block per entry from the abstract module.",
         "re.sub-free; Python str semantics of split/lstrip/rstrip/strip as modelled in Str.lean.", "Lean 4 proof (induction over lines) + differential correspondence"),
 'C02': ("T_agg: for every well-formed nested module the flat stack machine (model of the listener) yields exactly the structural specification "
         "(pre-order, one entry per documentable command, members inside their class); per-kind and ordering theorems read the property off the "
         "specification. T_aggS (TAggSeq.lean) extends the refinement to the awaiting-definition slot as the code has it: declarations separated from "
         "their implementing definition by ordinary commands, and implementing definitions with a doccomment of their own; T_agg is its special case. "
         "Tie: `documented` list and page text of the real pipeline vs model vs independent Python specification (duplicated elements, split "
         "declarations, documented implementations included).",
         "Well-formedness hypotheses are explicit and decidable (itemsWf / itemsWfS: arity, balanced blocks, a declaration is followed by its definition in the same list); the share of generated modules inside each domain is in the evidence; K2 (command named generic_command) and K8 (a declaration that is never implemented swallows the next definition anywhere later; K8_stale_declaration_swallows_later_definition pins it on the model) are open known findings.",
         "Lean 4 refinement proof (stack machine ⊑ structural spec) + differential correspondence"),
 'C03': ("T_agg + C03_*: name never stripped, parameters stripped position-wise for EVERY strip function, **kwargs iff trigger in doc or a "
         "cmake_parse_arguments call directly in the body (not in nested/sibling/later definitions). Tie: kwargs-profile modules with random trigger strings "
         "and strip patterns, documented implementing definitions (D14: C03_documented_impl_step/_balanced/_cpa, D14_witness).", "re.sub enters the theorems as an arbitrary function; Python computes it for the correspondence.",
         "Lean 4 refinement proof + differential correspondence"),
 'C04': ("C04_layout: for all valid modules m1, m2 related by LayoutVariant (same lower-cased command names and parse-tree arguments, doccomments with "
         "the same cleaned text — any separators, comments, doc-block indentation, name case), pipeline(render m1) = pipeline(render m2); built from "
         "T_lex/T_parse/T_roundtrip (printer -> scanner -> parser), T_agg and C01_clean_reindent; C04_token_sequence for the literal 'same token "
         "sequence' sentence. CRLF: C04_crlf_page / C04_crlf_page_text (page level, doccomments of the prescribed form). Tie: one abstract module under k "
         "layouts + CRLF through the real pipeline, byte comparison; untidy doccomment blocks (empty lines, closing line deeper than the body) rendered "
         "verbatim: CRLF pair and whole-block re-indentation; scanner model vs ANTLR incl. skipped tokens.",
         "ANTLR lexer semantics modelled by hand; untidy blocks are outside the DocC form of the layout theorems and carried by the correspondence and the shift theorem where registered.",
         "Lean 4 proof (round trip printer→scanner→parser→stack machine) + differential correspondence on layout families"),
 'C05': ("T_pipeline / C05_accepted: every valid (Module.valid), well-formed module of the reference syntax written from cmake-language(7) is processed "
         "to completion, pipeline(render m) = page of the structural specification; C05_boundaries: the commands CMinx sees are exactly the abstract "
         "module's commands with the same argument boundaries; C06_parse_exact. Tie: real parse tree vs abstract module; CMake 3.25's own argument lists (--trace-format=json-v1) as "
         "independent reference; shipped CMake modules; known findings K2, K3 delimit the guarantee. T_pipelineS / C05_acceptedS: the same over the sequence-aware domain (itemsWfS).",
         "Legacy unquoted arguments, `[=` degenerate arguments, recursion-limit nesting, non-UTF-8 input are outside the guarantee.",
         "Lean 4 proof (round trip + refinement) + differential correspondence + CMake trace oracle"),
 'C06': ("C06_lex_lossless (every source character lies in exactly one token), C06_tok_wf, fault-class theorems for every reached position "
         "(unterminated quote, bad escape, backslash at EOF, unterminated bracket comment, extra/missing parenthesis, bare word), C06_no_skip / "
         "C06_fault_fatal (no output unless the whole file lexed and parsed). Tie: every fault kind at EVERY position outside comments of generated "
         "modules, real Documenter raises iff model errs; CLI exit status and absence of the page.",
         "ANTLR error recovery is not modelled: after the repair every reported error is fatal.", "Lean 4 proof + exhaustive-position fault injection"),
 'C07': ("Structural half proved: indent homomorphism / containment (every line of an entry's body is blank or indented under its directive; options "
         "directly after the heading; entries are sibling directives after title and module). PARTIAL: 'docutils reports no error' is a statement about "
         "docutils' parser, validated by parsing the REAL output with docutils 0.23 (stub Sphinx directives) and comparing the doctree nesting with the predicted one.",
         "docutils is trusted and not modelled; Sphinx is not installed (stubs).", "Lean 4 proof (structure) + docutils validation of real output (partial)"),
 'C08': ("C08_documented_embed (entries of doccomment-carrying commands embed unchanged into the entries under any flag combination) and C08_removed, "
         "transported through T_agg — PARTIAL: outside the K1 region (documented cpp_class with include_undocumented_cpp_class=false), for which "
         "T_agg_K1_counterexample proves the full statement false of the faithful model (open known finding K1). Tie: random modules x random flag subsets.",
         "K1 cannot be repaired without editing two golden files of the pinned suite.", "Lean 4 refinement proof (partial, K1 guard) + machine-checked counterexample + differential correspondence"),
 'C09': ("T_agg + C09_*: members/ctors/attrs land in the innermost enclosing class only, in source order; inner classes by name; method parameters from the "
         "implementing definition after the member strip function, paired with types; macro note iff macro; :value: iff given. Tie: class-heavy modules.",
         "Default include flags (as the property states).", "Lean 4 refinement proof + differential correspondence"),
 'C10': ("C10_set/C10_option/C10_unquote_*: type by value count, one surrounding pair of quotes removed only from quoted arguments, values joined by "
         "single spaces, option fields. Via T_agg for the machine. Tie: set/option-profile modules in all argument forms.", "", "Lean 4 proof + differential correspondence"),
 'C11': ("C11_name/C11_expectfail/C11_addtest_sig/C11_warnings: name = argument after NAME, EXPECTFAIL by exact element, add_test signature drops NAME and the "
         "name by position only and keeps EVERY other argument, parenthesised ones included (C11_addtest_all_args; D19, repaired by 5a2a72e); sections as own "
         "entries in order (T_agg). Tie: keyword-profile modules, add_test with parenthesised arguments.",
         "Inputs with NAME twice are outside the quantifier.", "Lean 4 proof + differential correspondence"),
 'C12': ("C12_frame (over/underline exactly the title's length in code points), C12_one_module, C12_names/prefix/ext/injective (K4 excluded explicitly; no side condition on the separator since the repair a0734fb), C12_module_doc, "
         "C01_module_doc. Tie: trees x prefixes x separators x extension flags x header lists x input spellings.", "os.path.relpath/abspath trusted.",
         "Lean 4 proof + differential correspondence on directory trees"),
 'C13': ("C13_writes/C13_content over the Walk model (explicit tree, listing order, arbitrary exclusion predicate): written paths are exactly the pages of processed "
         "files plus one index per processed directory; page content is a function of file content, relative path, prefix, settings. Tie: real cminx.document in a "
         "sandbox, complete listing of the output directory, pages vs lone-file pages.", "File system and pathspec are parameters; K4 (case-colliding names) excluded.",
         "Lean 4 proof + differential correspondence on directory trees"),
 'C14': ("C14_entries/closed/title/reachable over the Walk model. Tie + oracle: every toctree entry of every REAL index.rst is resolved against the real output "
         "tree and reachability from the top index is walked.", "The generator varies rst.module_path_separator (D17: the top index title was wrong for every separator other than '.', repaired by 8466859).",
         "Lean 4 proof + differential correspondence on directory trees"),
 'C15': ("C15_iff (processed iff neither the file nor a directory on the way is excluded), C15_no_descend, C15_root, C15_order (invariance under every "
         "permutation of every directory listing, for an ARBITRARY exclusion predicate), C15_old_* (the pre-repair loop violates it). C15Glob.lean (20 theorems) over "
         "Glob.lean, the model of pathspec's gitwildmatch translation (segment normalisation, regular expression, search, last match wins): a bare name matches a "
         "path iff it is one of its components (C15G_bare_name), `name/` only components followed by a slash (C15G_dir_only), one-segment globs match a whole "
         "component (C15G_glob_component), `/a/b` is anchored (C15G_anchored), last match wins / union without negations / order and source independence "
         "(C15G_last_wins, C15G_union, C15G_union_perm), exclOf for bare names = some component of the ABSOLUTE path is a pattern (C15G_exclOf_bare; K7 as theorem "
         "C15G_K7_above_input). Tie: pathspec bits computed with exactly CMinx's strings, >= 4 imposed listing orders per tree; Glob.lean against pathspec on "
         "raw pattern/path strings and on every (string, answer) pair observed at PathSpec.match_file during real runs.",
         "pathspec's range notation [...] is outside Glob.lean (reported as unsupported, skipped); Python's re engine is modelled by a 7-constructor matcher.",
         "Lean 4 proof (permutation invariance; gitignore rules over a model of pathspec) + differential correspondence with imposed listing orders"),
 'C16': ("C16_precedence/first_wins/default/type_rejected/filters/outdir_*, C16_filters_any_source_rejected (the union option is type-checked in EVERY source, "
         "resolveMain); C16Cli.lean (12): the command line as the highest-priority source — a given -o/-r/-p/-e wins over every file, an absent flag leaves the "
         "lower sources visible (-r is never False), an empty value is a value, -e comes first in the union, option-like values and split input paths are usage "
         "errors (parseArgv + cliSource, compared with the real parse_args / set_args on random command lines): CMinx's decision logic stated outright. PARTIAL by nature: confuse/argparse/YAML are "
         "not modelled; the tie is the EXHAUSTIVE enumeration of option x subset of sources x wrong-typed values against the real main().",
         "K6 (mapping accepted for rst.headers) is an open known finding.", "Lean 4 proof of decision logic + exhaustive enumeration of the finite configuration space"),
 'C17': ("C17_history (files generated for one input are the same alone and inside any longer run), location/cwd are not inputs of the model, C15_order for listing "
         "order. Hash seed and repetition have no counterpart in a functional model: carried by the correspondence (two cwds, two locations, permuted listings, repeated "
         "runs, longer runs, PYTHONHASHSEED children, children under other locales/encodings, time zones, terminal sizes and umasks).", "K7 (patterns match absolute paths above the input) is an open known finding.",
         "Lean 4 proof (history independence) + differential variants on the real code"),
 'C18': ("C18_none (no write without output directory), C18_special_missing (a path that does not exist or is no regular file/directory writes and prints nothing), C18_stdout (stdout = pages of the -o run, in order, each + two newlines), C18_same_pages. 'Inside the output "
         "directory' is by construction in the model; on the real code it is a sandbox snapshot (path, sha256) before/after.", "open()/makedirs trusted. K9 (confuse creates the per-user configuration directory) is an open known finding.",
         "Lean 4 proof + sandbox snapshots of the real code"),
 'C19': ("C19_verbatim/argv/recursive/equiv/equiv_accepted/fatal over genArgv + CMake list flattening + parseArgv (main's argument parser as argparse behaves: "
         "exact option strings, option-like values rejected, one contiguous run of input paths); C19_positional_extra_rejected/_second_input; "
         "C19_K5_counterexample. PARTIAL by nature: CMake's evaluation and execute_process are trusted; tied by real `cmake -P` runs (argv recorder, the "
         "working-tree CMinx started exactly like the installed console script vs direct CLI, failing child, histories of calls from one build directory) and "
         "by comparing parseArgv with the real parser on random command lines.", "K5 open known finding; abbreviated/attached/bundled options are outside parseArgv (reported as unsupported).",
         "Lean 4 proof of the argument-vector logic + real cmake -P runs"),
 'C20': ("80 theorems. C20.lean (40): frame/reframe, per-line indentation of paragraphs/fields/list items/options/headings, C20_subtree (an element inside d "
         "directives is rendered at depth d), added_at_depth for every API call, options-first for arbitrary interleavings, insertion order, clear. C20Full.lean / "
         "C20Depth.lean over RstFull.lean, the model of the WHOLE writer API (sections, doctests, simple tables, write_to_file): the pipeline's writer is embedded "
         "(C20F_embed_*), C20F_levels_history (in every document reachable from a fresh writer through any history of calls, raising ones included, every section "
         "carries the header string configured for its section level), C20F_section_frame/_retitle, C20F_section_overflow + C20F_error_skipped (a level beyond the "
         "header list raises and leaves the document unchanged), C20F_appended_at_depth (an element appended through any handle is printed at 3 x the number of "
         "directives above it up to the nearest section), C20F_order, C20F_table_row_length. Purity/repeatability of the Python object is established by the "
         "correspondence (pickle equality around every to_text() and around every rejected call), not by a theorem.",
         "The text of doctests and simple tables and sections opened below a directive (reST has none; the nested writer restarts at column 0, "
         "C20F_section_ignores_depth) are modelled and compared but outside the property's quantifier: a difference there breaks the correspondence and is "
         "not reported as a failing input.", "Lean 4 proof over API histories (invariant by induction over calls, embedding of the pipeline's writer) + differential correspondence with purity check"),
}


def main():
    checks = []
    for pid in sorted(T):
        text, note, tech = T[pid]
        checks.append(dict(
            property_id=pid,
            quick_cmd=f"{PY} harness/check.py {pid} --tier quick",
            thorough_cmd=f"{PY} harness/check.py {pid} --tier thorough",
            evidence_file=f"evidence/{pid}.json",
            replay_cmd_template=f"{PY} harness/check.py --replay {{path}}",
            engine="lean-model+correspondence",
            level_claimed=dict(category="proof", text=text, design_ref="DESIGN.md §6-" + pid),
            level_note=COMMON_NOTE + note,
            technique=tech))
    m = dict(
        version=1,
        setup_cmd="cd lean && lake build driver && (lake build || echo 'some proof modules failed to build; each check rebuilds and reports its own')",
        hooks=dict(guard="CMINX_VERIF", enable="no source hooks are needed: checks import /repo/src in-process (sys.path[0]) and observe public API, "
                   "parse trees, output directories and a harness-side os.walk wrapper", baseline_off_cmd="cd /repo && /venv/bin/python -m pytest -ra -q "
                   "-p no:cacheprovider --timeout=900 --continue-on-collection-errors", source_commits=[], add_only=True),
        engines=[dict(name="lean-model", path="lean/", serves_properties=sorted(T), kind_free_text="Lean 4 executable model (CminxModel), lemmas and property "
                      "theorems (CminxProps), line-protocol driver (Driver/Main.lean)"),
                 dict(name="correspondence-harness", path="harness/", serves_properties=sorted(T), kind_free_text="Python: generators of abstract inputs, "
                      "adapters calling the real CMinx in-process, per-property oracles, shrinker, known-findings matching")],
        checks=checks,
        not_applicable=[],
        notes="Every check: (1) lake build of the driver and the property's proof modules + #print axioms audit + forbidden-token grep, (2) differential "
              "correspondence model vs real code, (3) the property's own oracle on the real output. Exit 1 with a replay on a violation; "
              "'no-failing-input-found' when only a proof obligation or the correspondence broke. See DESIGN.md.")
    with open(os.path.join(V, 'MANIFEST.json'), 'w') as f:
        json.dump(m, f, indent=1, ensure_ascii=False)
    print('wrote MANIFEST.json with', len(checks), 'checks')


if __name__ == '__main__':
    main()
