#!/usr/bin/env python3
"""Systematic first-order mutation of CMinx's hand-written sources:  automutate.py [--jobs N] [--files a.py,b.py] [--limit K] [--out FILE]

For every mutation site (comparison / boolean operator flips, `not` removal, integer and boolean constants, slice bounds, deleted
statements, forced branch conditions, break<->continue, +/-) in src/cminx/{aggregator,documentation_types,rstwriter,documenter,config,
__init__}.py and parser/__init__.py:
  1. the mutated module is written into a scratch git worktree of /repo (never /repo itself);
  2. the pinned test suite runs there (PYTHONPATH=<worktree>/src); a mutant the tests kill is of no interest;
  3. a mutant that *passes the existing tests* is handed to the quick checks of the properties its file can affect
     (CMINX_REPO=<worktree>, --no-lean: the proofs do not depend on /repo), stopping at the first check that reports a violation.
Survivors (pass the tests and every mapped check) are written to the output file with their diff: each is either an equivalent
mutant, a change no property speaks about (log texts, error wording), or a gap in the generators/oracles to close.
This is a measuring instrument for the correspondence, not a registered check."""
import ast, copy, difflib, json, os, queue, shutil, subprocess, sys, threading, time

V = '/verif'; POOL = '/tmp/cmxv_mut'
args = sys.argv[1:]
def opt(name, default=None):
    return args[args.index(name) + 1] if name in args else default
jobs = int(opt('--jobs', '8')); limit = int(opt('--limit', '0')); outp = opt('--out', os.path.join(V, 'seeded', 'automutants.jsonl'))
only_files = opt('--files'); stride = int(opt('--stride', '1')); offset = int(opt('--offset', '0'))

FILES = {
    'src/cminx/aggregator.py': ['C02', 'C03', 'C09', 'C10', 'C11', 'C01', 'C08', 'C04', 'C07', 'C05'],
    'src/cminx/documentation_types.py': ['C02', 'C10', 'C09', 'C11', 'C03', 'C01', 'C07', 'C08'],
    'src/cminx/rstwriter.py': ['C20', 'C01', 'C07', 'C12', 'C02'],
    'src/cminx/documenter.py': ['C12', 'C02', 'C06', 'C05', 'C01'],
    'src/cminx/parser/__init__.py': ['C06', 'C05'],
    'src/cminx/config.py': ['C16', 'C15'],
    'src/cminx/__init__.py': ['C13', 'C14', 'C12', 'C15', 'C18', 'C17', 'C16', 'C06', 'C19'],
}
if only_files: FILES = {k: v for k, v in FILES.items() if os.path.basename(k) in only_files.split(',') or k in only_files.split(',')}

CMP = {ast.Eq: ast.NotEq, ast.NotEq: ast.Eq, ast.Lt: ast.LtE, ast.LtE: ast.Lt, ast.Gt: ast.GtE, ast.GtE: ast.Gt,
       ast.Is: ast.IsNot, ast.IsNot: ast.Is, ast.In: ast.NotIn, ast.NotIn: ast.In}


def sites(tree):
    """yield (description, mutate(tree_copy_node)) pairs: we address nodes by their index in ast.walk order"""
    nodes = list(ast.walk(tree))
    for i, n in enumerate(nodes):
        ln = getattr(n, 'lineno', 0)
        if isinstance(n, ast.Compare):
            for j, o in enumerate(n.ops):
                if type(o) in CMP: yield (ln, f'cmp {type(o).__name__}->{CMP[type(o)].__name__}', i, ('cmp', j))
        elif isinstance(n, ast.BoolOp):
            yield (ln, f'bool {type(n.op).__name__} flipped', i, ('boolop',))
        elif isinstance(n, ast.UnaryOp) and isinstance(n.op, ast.Not):
            yield (ln, 'not removed', i, ('unnot',))
        elif isinstance(n, ast.Constant) and isinstance(n.value, bool):
            yield (ln, f'{n.value}->{not n.value}', i, ('const', not n.value))
        elif isinstance(n, ast.Constant) and isinstance(n.value, int) and not isinstance(n.value, bool):
            yield (ln, f'{n.value}->{n.value + 1}', i, ('const', n.value + 1))
            if n.value > 0: yield (ln, f'{n.value}->{n.value - 1}', i, ('const', n.value - 1))
        elif isinstance(n, ast.If) or isinstance(n, ast.While):
            yield (ln, 'condition forced True', i, ('cond', True))
            yield (ln, 'condition forced False', i, ('cond', False))
        elif isinstance(n, ast.IfExp):
            yield (ln, 'conditional expression forced True', i, ('cond', True))
            yield (ln, 'conditional expression forced False', i, ('cond', False))
        elif isinstance(n, ast.Break): yield (ln, 'break->continue', i, ('swap', ast.Continue))
        elif isinstance(n, ast.Continue): yield (ln, 'continue->break', i, ('swap', ast.Break))
        elif isinstance(n, ast.BinOp) and isinstance(n.op, (ast.Add, ast.Sub)) and not isinstance(n.left, ast.Constant) or \
                (isinstance(n, ast.BinOp) and isinstance(n.op, (ast.Add, ast.Sub)) and isinstance(getattr(n.left, 'value', None), int)):
            yield (ln, '+/- flipped', i, ('arith',))
        elif isinstance(n, ast.Slice):
            if n.lower is None and n.upper is not None: yield (ln, 'slice gets lower bound 1', i, ('slice_lo',))
            if n.lower is not None: yield (ln, 'slice lower bound dropped', i, ('slice_nolo',))
            if n.upper is not None: yield (ln, 'slice upper bound dropped', i, ('slice_noup',))
        elif isinstance(n, ast.Expr) and isinstance(n.value, ast.Call):
            yield (ln, 'call statement deleted: ' + ast.unparse(n)[:60], i, ('delete',))
        elif isinstance(n, (ast.Assign, ast.AugAssign)) and not isinstance(getattr(n, 'value', None), (ast.Constant,)) or \
                (isinstance(n, ast.Assign) and isinstance(n.value, ast.Constant) and n.value.value is None):
            if isinstance(n, (ast.Assign, ast.AugAssign)): yield (ln, 'assignment deleted: ' + ast.unparse(n)[:60], i, ('delete',))
        elif isinstance(n, ast.Return) and n.value is not None and not (isinstance(n.value, ast.Constant) and n.value.value is None):
            yield (ln, 'return value dropped', i, ('retnone',))


def apply(tree, idx, how):
    t = copy.deepcopy(tree)
    nodes = list(ast.walk(t)); n = nodes[idx]
    k = how[0]
    if k == 'cmp': n.ops[how[1]] = CMP[type(n.ops[how[1]])]()
    elif k == 'boolop': n.op = ast.Or() if isinstance(n.op, ast.And) else ast.And()
    elif k == 'const': n.value = how[1]
    elif k == 'cond': n.test = ast.Constant(value=how[1])
    elif k == 'arith': n.op = ast.Sub() if isinstance(n.op, ast.Add) else ast.Add()
    elif k == 'slice_lo': n.lower = ast.Constant(value=1)
    elif k == 'slice_nolo': n.lower = None
    elif k == 'slice_noup': n.upper = None
    elif k == 'retnone': n.value = None
    else:
        # structural replacements need the parent
        for p in nodes:
            for f, v in ast.iter_fields(p):
                if isinstance(v, list) and n in v:
                    j = v.index(n)
                    if k == 'delete': v[j] = ast.Pass()
                    elif k == 'swap': v[j] = how[1]()
                elif v is n:
                    if k == 'unnot': setattr(p, f, n.operand)
                    elif k == 'swap': setattr(p, f, how[1]())
    return ast.unparse(ast.fix_missing_locations(t))


def sh(cmd, **kw): return subprocess.run(cmd, shell=True, capture_output=True, text=True, **kw)


def enumerate_mutants():
    out = []
    for rel in FILES:
        src = open(os.path.join('/repo', rel), encoding='utf-8').read()
        tree = ast.parse(src); base = ast.unparse(tree)
        # skip docstring-only/`__main__`/logging-only noise: mutations inside logger calls change no behaviour the properties see
        log_lines = set()
        for n in ast.walk(tree):
            if isinstance(n, ast.Call) and isinstance(n.func, ast.Attribute) and n.func.attr in ('debug', 'info', 'warning', 'error', 'critical', 'log') \
                    and 'logger' in ast.unparse(n.func.value):
                log_lines.update(range(n.lineno, (n.end_lineno or n.lineno) + 1))
        seen = set()
        for ln, desc, idx, how in sites(tree):
            if ln in log_lines and how[0] != 'delete': continue
            try: new = apply(tree, idx, how)
            except Exception: continue
            if new == base or new in seen: continue
            try: compile(new, rel, 'exec')
            except SyntaxError: continue
            seen.add(new)
            out.append(dict(file=rel, line=ln, desc=desc, text=new, base=base))
    return out


def evaluate(wt, m):
    path = os.path.join(wt, m['file'])
    orig = open(path, encoding='utf-8').read()
    res = dict(file=m['file'], line=m['line'], desc=m['desc'])
    try:
        with open(path, 'w', encoding='utf-8') as f: f.write(m['text'] + '\n')
        env = dict(os.environ, PYTHONPATH=os.path.join(wt, 'src'), CMINX_REPO=wt, VERIF_SEED='0', PYTHONDONTWRITEBYTECODE='1')
        t = sh(f'cd {wt} && timeout 300 /venv/bin/python -m pytest -x -q -p no:cacheprovider 2>&1 | tail -1', env=env).stdout.strip()
        res['tests'] = t
        if not t.startswith('69 passed'):
            res['verdict'] = 'killed-by-tests'; return res
        for c in FILES[m['file']]:
            r = sh(f'cd {V} && timeout 900 /venv/bin/python harness/check.py {c} --tier quick --no-lean', env=env)
            if r.returncode == 1:
                line = [l for l in r.stdout.split('\n') if l.startswith('VIOLATION')][:1]
                res['verdict'] = 'caught'; res['by'] = c
                res['how'] = 'no-failing-input' if line and 'no-failing-input-found' in line[0] else 'input'
                return res
            if r.returncode != 0:
                res.setdefault('harness_errors', []).append(dict(check=c, rc=r.returncode, err=r.stderr[-300:]))
        res['verdict'] = 'SURVIVED'
        res['diff'] = ''.join(difflib.unified_diff(m['base'].splitlines(True), m['text'].splitlines(True), m['file'], m['file'], n=2))[:3000]
        return res
    finally:
        with open(path, 'w', encoding='utf-8') as f: f.write(orig)


def worker(k, q, sink, lock):
    wt = os.path.join(POOL, f'w{k}')
    sh(f'git -C /repo worktree remove --force {wt}'); shutil.rmtree(wt, ignore_errors=True)
    p = sh(f'git -C /repo worktree add -q --detach {wt} HEAD'); assert p.returncode == 0, p.stderr
    try:
        while True:
            try: m = q.get_nowait()
            except queue.Empty: break
            t0 = time.time()
            try: r = evaluate(wt, m)
            except Exception as e: r = dict(file=m['file'], line=m['line'], desc=m['desc'], verdict='tool-error', err=repr(e))
            r['s'] = round(time.time() - t0)
            with lock:
                sink.write(json.dumps(r, ensure_ascii=False) + '\n'); sink.flush()
    finally:
        sh(f'git -C /repo worktree remove --force {wt}'); shutil.rmtree(wt, ignore_errors=True)


def main():
    ms = enumerate_mutants()
    rerun = opt('--rerun')      # re-evaluate the rows of an earlier result file whose checks hit a harness error (the harness was being edited)
    old_rows = []
    if rerun:
        old_rows = [json.loads(l) for l in open(rerun, encoding='utf-8')]
        want = [(r['file'], r['desc'], r['line']) for r in old_rows if r.get('harness_errors') or r['verdict'] == 'tool-error']
        ms = [m for m in ms if any(m['file'] == f and m['desc'] == d and abs(m['line'] - l) <= 3 for f, d, l in want)]
        globals()['outp'] = rerun + '.rerun'
    ms = ms[offset::stride]
    if limit: ms = ms[:limit]
    print(f'{len(ms)} mutants', flush=True)
    os.makedirs(POOL, exist_ok=True)
    q = queue.Queue(); [q.put(m) for m in ms]
    lock = threading.Lock()
    with open(outp, 'w', encoding='utf-8') as sink:
        ths = [threading.Thread(target=worker, args=(k, q, sink, lock)) for k in range(min(jobs, len(ms)))]
        [t.start() for t in ths]; [t.join() for t in ths]
    sh('git -C /repo worktree prune'); shutil.rmtree(POOL, ignore_errors=True)
    rows = [json.loads(l) for l in open(outp, encoding='utf-8')]
    if rerun:
        new_by = {(r['file'], r['desc']): r for r in rows}
        merged = [new_by.get((r['file'], r['desc']), r) if (r.get('harness_errors') or r['verdict'] == 'tool-error') else r for r in old_rows]
        with open(rerun, 'w', encoding='utf-8') as f:
            for r in merged: f.write(json.dumps(r, ensure_ascii=False) + '\n')
        os.remove(outp); rows = merged
    import collections
    c = collections.Counter(r['verdict'] for r in rows)
    print(dict(c))
    by = collections.Counter((r['file'], r['verdict']) for r in rows)
    for k_, v_ in sorted(by.items()): print(k_, v_)
    for r in rows:
        if r['verdict'] == 'SURVIVED': print('SURVIVED', r['file'], r['line'], r['desc'])


if __name__ == '__main__':
    main()
