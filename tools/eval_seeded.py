#!/usr/bin/env python3
"""Re-run every kept seeded change in /verif/seeded against the check of its property (and any extra checks named in
meta.json 'also'), one at a time (each is applied to /repo and reverted).  Writes seeded/RESULTS.md."""
import json, os, subprocess, sys
V = '/verif'; rows = []
names = sorted(os.listdir(os.path.join(V, 'seeded')))
only = sys.argv[1:]
for n in names:
    d = os.path.join(V, 'seeded', n)
    if not os.path.isdir(d) or not os.path.exists(os.path.join(d, 'meta.json')) or (only and n not in only): continue
    meta = json.load(open(os.path.join(d, 'meta.json')))
    checks = [meta['property']] + meta.get('also', [])
    p = subprocess.run([sys.executable, os.path.join(V, 'tools', 'eval_mutant.py'), d] + checks, capture_output=True, text=True)
    try: r = json.loads(p.stdout)
    except Exception: rows.append((n, meta['property'], 'EVAL-ERROR', p.stdout[-200:] + p.stderr[-200:])); continue
    caught = [k for k, v in r['checks'].items() if v['rc'] == 1]
    kinds = ['input' if (v['violation'] and 'no-failing-input-found' not in v['violation'][0]) else 'no-failing-input' for k, v in r['checks'].items() if v['rc'] == 1]
    rows.append((n, meta['property'], r['tests_with_change'].split(',')[0], 'demo FAIL' if r['demo_with_change'][0] == 1 else 'demo?', 'orig PASS' if r['demo_original'][0] == 0 else 'orig?',
                 ', '.join(f"{k} ({kd})" for k, kd in zip(caught, kinds)) or 'MISSED', meta.get('summary', '')[:110]))
    print(rows[-1], flush=True)
with open(os.path.join(V, 'seeded', 'RESULTS.md'), 'w') as f:
    f.write("| seeded change | property | suite with change | demo | caught by (quick tier) | what it is |\n|---|---|---|---|---|---|\n")
    for r in rows:
        if len(r) == 7: f.write(f"| {r[0]} | {r[1]} | {r[2]} | {r[3]}, {r[4]} | {r[5]} | {r[6]} |\n")
        else: f.write(f"| {r[0]} | {r[1]} | {r[2]} | | | {r[3]} |\n")
