#!/bin/bash
# with_change.sh <seeded-name> <command...>: apply a seeded change to /repo, run the command from /verif, undo the change (always).
n=$1; shift
p=/verif/seeded/$n/patch.diff; [ -f "$p" ] || p=/verif/seeded/harmless/$n/patch.diff
git -C /repo apply "$p" || { echo "patch does not apply"; exit 3; }
trap 'git -C /repo checkout -q -- . ; git -C /repo clean -fdq' EXIT
cd /verif && "$@"
