#!/usr/bin/env python3
"""Evaluate seeded changes in parallel:  eval_parallel.py [--harmless] [--jobs N] [--write] [names...]
Each worker owns a scratch git worktree of /repo under /tmp/cmxv_eval/w<k> (HEAD of /repo, removed at the end); a seeded change is
applied THERE, the pinned suite and the demonstration run with PYTHONPATH=<worktree>/src, and the checks run from /verif with
CMINX_REPO=<worktree> (the harness then imports cminx and cminx.cmake from that tree).  /repo itself is never touched, so this
can run while other things use /repo; tools/eval_mutant.py does the same thing on /repo itself, one change at a time.
--write regenerates seeded/RESULTS.md (only when every kept change was evaluated).  Evidence files written during these runs describe
changed trees: re-run tools/run_all.py afterwards."""
import json, os, shutil, subprocess, sys, threading, queue, time
V = '/verif'; POOL = f'/tmp/cmxv_eval/{os.getpid()}'   # one pool per invocation: several evaluations may run side by side
args = sys.argv[1:]
harmless = '--harmless' in args; write = '--write' in args
jobs = int(args[args.index('--jobs') + 1]) if '--jobs' in args else 5
only = [a for i, a in enumerate(args) if not a.startswith('--') and (i == 0 or args[i - 1] != '--jobs')]
base = os.path.join(V, 'seeded', 'harmless') if harmless else os.path.join(V, 'seeded')
names = [n for n in sorted(os.listdir(base)) if os.path.exists(os.path.join(base, n, 'patch.diff')) and (not only or n in only)]
ALL = json.load(open(os.path.join(V, 'MANIFEST.json')))
ALL_IDS = [c['property_id'] for c in ALL['checks']]


def sh(cmd, **kw): return subprocess.run(cmd, shell=True, capture_output=True, text=True, **kw)


def evaluate(wt, name):
    d = os.path.join(base, name); meta = json.load(open(os.path.join(d, 'meta.json')))
    res = dict(name=name, property=meta.get('property'), checks={})
    sh(f'git -C {wt} checkout -q -- . && git -C {wt} clean -fdq')
    p = sh(f'git -C {wt} apply {d}/patch.diff')
    if p.returncode != 0: res['error'] = 'patch does not apply: ' + p.stderr[-200:]; return res
    env = dict(os.environ, PYTHONPATH=os.path.join(wt, 'src'), CMINX_REPO=wt, VERIF_SEED=os.environ.get('VERIF_SEED', '0'))
    res['tests'] = sh(f'cd {wt} && /venv/bin/python -m pytest -q -p no:cacheprovider 2>&1 | tail -1', env=env).stdout.strip()
    if not harmless:
        dm = sh(f'cd /tmp && /venv/bin/python {d}/demo.py', env=env); res['demo_with_change'] = dm.returncode
    checks = ALL_IDS if harmless else [meta['property']] + meta.get('also', [])
    for c in checks:
        r = sh(f'cd {V} && /venv/bin/python harness/check.py {c} --tier quick', env=env)
        lines = [l for l in r.stdout.split('\n') if l.startswith('VIOLATION')]
        res['checks'][c] = dict(rc=r.returncode, violation=lines[:1], err=r.stderr[-300:] if r.returncode not in (0, 1) else '')
    sh(f'git -C {wt} checkout -q -- . && git -C {wt} clean -fdq')
    if not harmless:
        dm = sh(f'cd /tmp && /venv/bin/python {d}/demo.py', env=env); res['demo_original'] = dm.returncode
    res['summary'] = (meta.get('summary') or meta.get('target') or '')[:110]
    return res


def worker(k, q, out):
    wt = os.path.join(POOL, f'w{k}')
    sh(f'git -C /repo worktree remove --force {wt}'); shutil.rmtree(wt, ignore_errors=True)
    p = sh(f'git -C /repo worktree add -q --detach {wt} HEAD'); assert p.returncode == 0, p.stderr
    try:
        while True:
            try: n = q.get_nowait()
            except queue.Empty: break
            t0 = time.time(); r = evaluate(wt, n); r['s'] = round(time.time() - t0)
            out.append(r); print(json.dumps({k_: r[k_] for k_ in r if k_ != 'summary'}), flush=True)
    finally:
        sh(f'git -C /repo worktree remove --force {wt}'); shutil.rmtree(wt, ignore_errors=True)


os.makedirs(POOL, exist_ok=True)
q = queue.Queue(); [q.put(n) for n in names]; out = []
ths = [threading.Thread(target=worker, args=(k, q, out)) for k in range(min(jobs, len(names)))]
[t.start() for t in ths]; [t.join() for t in ths]
sh('git -C /repo worktree prune'); shutil.rmtree(POOL, ignore_errors=True)
out.sort(key=lambda r: r['name'])
if harmless:
    for r in out:
        alarms = [c for c, v in r['checks'].items() if v['rc'] != 0]
        print(r['name'], r.get('tests', r.get('error')), 'ALARMS: ' + ', '.join(alarms) if alarms else 'quiet')
else:
    rows = []
    for r in out:
        if 'error' in r: rows.append(f"| {r['name']} | {r['property']} | EVAL-ERROR | | | {r['error']} |"); continue
        caught = [f"{c}/quick ({'no-failing-input' if v['violation'] and 'no-failing-input-found' in v['violation'][0] else 'input'})"
                  for c, v in r['checks'].items() if v['rc'] == 1]
        broken = [c for c, v in r['checks'].items() if v['rc'] not in (0, 1)]
        rows.append(f"| {r['name']} | {r['property']} | {r['tests'].split(',')[0]} | {'demo FAIL' if r['demo_with_change'] == 1 else 'demo?'}, "
                    f"{'orig PASS' if r['demo_original'] == 0 else 'orig?'} | {', '.join(caught) or 'MISSED'}{' HARNESS-ERROR ' + ','.join(broken) if broken else ''} | {r['summary']} |")
    print('\n'.join(rows))
    if write and not only:
        with open(os.path.join(V, 'seeded', 'RESULTS.md'), 'w') as f:
            f.write("| seeded change | property | suite with change | demo | caught by (quick tier) | what it is |\n|---|---|---|---|---|---|\n" + '\n'.join(rows) + '\n')
    print('missed:', [r['name'] for r in out if 'error' not in r and not any(v['rc'] == 1 for v in r['checks'].values())])
