#!/usr/bin/env python3
"""Evaluate a seeded change:  eval_mutant.py <dir with patch.diff, demo.py, meta.json> [check ids...]
Applies the patch to /repo, runs the pinned test suite, the demonstration and the given checks (default: the property of
meta.json), then reverts /repo (git checkout -- .) and confirms the demonstration passes on the original."""
import json, os, subprocess, sys, time
d = os.path.abspath(sys.argv[1]); checks = sys.argv[2:]
meta = json.load(open(os.path.join(d, 'meta.json')))
if not checks: checks = [meta['property']]
V = '/verif'
def sh(cmd, **kw): return subprocess.run(cmd, shell=True, capture_output=True, text=True, **kw)
assert sh('git -C /repo status --porcelain').stdout.strip() == '', '/repo not clean'
res = dict(dir=d, property=meta['property'], checks={})
try:
    p = sh(f'git -C /repo apply {d}/patch.diff'); assert p.returncode == 0, p.stderr
    t = sh('cd /repo && /venv/bin/python -m pytest -q -p no:cacheprovider 2>&1 | tail -1'); res['tests_with_change'] = t.stdout.strip()
    dm = sh(f'cd /tmp && PYTHONPATH=/repo/src /venv/bin/python {d}/demo.py'); res['demo_with_change'] = (dm.returncode, dm.stdout.strip()[-200:])
    for c in checks:
        for tier in (['quick'] if os.environ.get('TIER', 'quick') == 'quick' else ['quick', 'thorough']):
            t0 = time.time()
            r = sh(f'cd {V} && /venv/bin/python harness/check.py {c} --tier {tier}', env=dict(os.environ, VERIF_SEED=os.environ.get('VERIF_SEED', '0')))
            lines = [l for l in r.stdout.split('\n') if l.startswith('VIOLATION')]
            res['checks'][f'{c}/{tier}'] = dict(rc=r.returncode, violation=lines[:1], s=round(time.time() - t0, 1), tail=r.stdout.strip().split('\n')[-1][:200])
            if r.returncode == 1: break
finally:
    sh('git -C /repo checkout -- .')
dm = sh(f'cd /tmp && PYTHONPATH=/repo/src /venv/bin/python {d}/demo.py'); res['demo_original'] = (dm.returncode, dm.stdout.strip()[-100:])
res['repo_clean'] = sh('git -C /repo status --porcelain').stdout.strip() == ''
print(json.dumps(res, indent=1))
