#!/usr/bin/env python3
"""Replace the 'which check catches which' table of DESIGN.md §12 by the table of seeded/RESULTS.md (written by eval_parallel.py --write)."""
import re
d = open('/verif/DESIGN.md').read(); r = open('/verif/seeded/RESULTS.md').read()
rows = [l for l in r.split('\n') if l.startswith('|')]
a = d.index('| seeded change | property |'); b = d.index('C05-escaped-paren-fused was declared')
n = len(rows) - 2
d = d[:a] + '\n'.join(rows) + '\n\n' + d[b:]
d = re.sub(r'Current result \(quick tier, seed 0\) — all \d+ are caught:', f'Current result (quick tier, seed 0) — all {n} are caught:', d)
open('/verif/DESIGN.md', 'w').write(d); print(n, 'rows')
