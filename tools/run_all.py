#!/usr/bin/env python3
"""Runs every registered check (quick by default) and validates the evidence files against the schema."""
import json, os, subprocess, sys, time
from concurrent.futures import ThreadPoolExecutor
V = os.path.dirname(os.path.dirname(os.path.abspath(__file__)))
tier = sys.argv[1] if len(sys.argv) > 1 else 'quick'
only = sys.argv[2:]
m = json.load(open(os.path.join(V, 'MANIFEST.json')))
def run(c):
    pid = c['property_id']
    cmd = c['quick_cmd'] if tier == 'quick' else c.get('thorough_cmd', c['quick_cmd'])
    t0 = time.time()
    p = subprocess.run(cmd, shell=True, cwd=V, capture_output=True, text=True, env=dict(os.environ, VERIF_SEED=os.environ.get('VERIF_SEED', '0')))
    return pid, p.returncode, time.time() - t0, p.stdout.strip().split('\n')[-3:], p.stderr[-500:]
checks = [c for c in m['checks'] if not only or c['property_id'] in only]
with ThreadPoolExecutor(int(os.environ.get('JOBS', '5'))) as ex:
    res = list(ex.map(run, checks))
import jsonschema
schema = json.load(open('/root/.vp/EVIDENCE.schema.json'))
bad = 0
for pid, rc, dt, tail, err in res:
    ev = os.path.join(V, 'evidence', pid + '.json'); evok = 'no-evidence'
    if os.path.exists(ev):
        try: jsonschema.validate(json.load(open(ev)), schema); evok = 'evidence-ok'
        except Exception as e: evok = 'EVIDENCE-INVALID: ' + str(e)[:200]
    flag = '' if rc == 0 and evok == 'evidence-ok' else '   <<<<<<'
    if flag: bad += 1
    print(f"{pid} rc={rc} {dt:6.1f}s {evok}{flag}")
    for l in tail:
        if l.startswith(('VIOLATION', 'HARNESS')) or rc != 0: print('     ', l[:300])
    if rc == 2: print('     ', err[-300:])
print('problems:', bad)
