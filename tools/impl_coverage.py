#!/usr/bin/env python3
"""Union of the implementation coverage of all checks:  impl_coverage.py [quick|thorough]
Runs every registered check with VERIF_IMPLCOV=1, then reports, per source file, the statements of src/cminx that NO check's
generated inputs executed (the places where the hand-written model and the code could differ unnoticed), with their text.
Writes coverage/impl_coverage.json (committed as a record of what the correspondence reaches; not an evidence file)."""
import json, os, subprocess, sys
from concurrent.futures import ThreadPoolExecutor
V = os.path.dirname(os.path.dirname(os.path.abspath(__file__)))
tier = sys.argv[1] if len(sys.argv) > 1 else 'quick'
m = json.load(open(os.path.join(V, 'MANIFEST.json')))
REPO = os.environ.get('CMINX_REPO', '/repo')
def run(c):
    cmd = c['quick_cmd'] if tier == 'quick' else c['thorough_cmd']
    p = subprocess.run(cmd, shell=True, cwd=V, capture_output=True, text=True, env=dict(os.environ, VERIF_IMPLCOV='1'))
    return c['property_id'], p.returncode
with ThreadPoolExecutor(int(os.environ.get('JOBS', '8'))) as ex: res = list(ex.map(run, m['checks']))
missing = {}; stmts = {}; per_check = {}
for pid, rc in res:
    ev = json.load(open(os.path.join(V, 'evidence', pid + '.json')))
    ic = ev['coverage'].get('impl_coverage') or {}
    per_check[pid] = {f: [d['executed'], d['statements']] for f, d in ic.items() if f != 'TOTAL'}
    for f, d in ic.items():
        if f == 'TOTAL': continue
        stmts[f] = d['statements']
        missing[f] = set(d['missing_lines']) if f not in missing else missing[f] & set(d['missing_lines'])
out = dict(tier=tier, checks={pid: rc for pid, rc in res}, files={})
for f in sorted(missing):
    path = os.path.join(REPO, 'src', f)
    lines = open(path, encoding='utf-8').read().split('\n') if os.path.exists(path) else []
    ml = sorted(missing[f])
    out['files'][f] = dict(statements=stmts[f], reached_by_some_check=stmts[f] - len(ml),
                           never_reached=[dict(line=l, text=lines[l - 1].strip() if l <= len(lines) else '') for l in ml])
    print(f"{f}: {stmts[f] - len(ml)}/{stmts[f]} statements reached by at least one check")
    for l in ml: print(f"    {l}: {lines[l - 1].strip() if l <= len(lines) else ''}")
out['per_check'] = per_check
os.makedirs(os.path.join(V, 'coverage'), exist_ok=True)
json.dump(out, open(os.path.join(V, 'coverage', 'impl_coverage.json'), 'w'), indent=1, ensure_ascii=False)
