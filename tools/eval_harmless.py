#!/usr/bin/env python3
"""Apply a behaviour-preserving patch to /repo, run the pinned suite and ALL quick checks, revert.  Every check is expected to
stay quiet; an alarm here is a false alarm of the machinery (or the patch is not harmless after all)."""
import json, os, subprocess, sys
d = os.path.abspath(sys.argv[1]); V = '/verif'
def sh(cmd, **kw): return subprocess.run(cmd, shell=True, capture_output=True, text=True, **kw)
assert sh('git -C /repo status --porcelain').stdout.strip() == '', '/repo not clean'
res = {}
try:
    p = sh(f'git -C /repo apply {d}/patch.diff'); assert p.returncode == 0, p.stderr
    res['tests'] = sh('cd /repo && /venv/bin/python -m pytest -q -p no:cacheprovider 2>&1 | tail -1').stdout.strip()
    r = sh(f'cd {V} && JOBS=6 /opt/veriftools/pyvenv/bin/python tools/run_all.py quick', env=dict(os.environ, VERIF_SEED=os.environ.get('VERIF_SEED', '0')))
    res['alarms'] = [l for l in r.stdout.split('\n') if '<<<<<<' in l or 'VIOLATION' in l]
    res['tail'] = r.stdout.strip().split('\n')[-1]
finally:
    sh('git -C /repo checkout -- .')
res['repo_clean'] = sh('git -C /repo status --porcelain').stdout.strip() == ''
print(json.dumps(res, indent=1))
